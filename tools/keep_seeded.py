#!/venv/bin/python
"""tools/keep_seeded.py <srcdir> <ID> <name> [--tests tests/test_x.py ...] [--full] [--tier quick]

Confirm a seeded change independently and, if everything is confirmed, keep it as /verif/seeded/<name>/:
  1. scratch worktree of /repo HEAD; demo passes on the clean tree;
  2. patch applies; package imports; demo fails with it;
  3. the repository's tests (given files, or the whole suite with --full) give the same failures as on clean HEAD;
  4. the check of <ID> is run against the patched worktree (result recorded: caught / missed).
"""
import json, os, shutil, subprocess, sys, tempfile, argparse, re

HERE = os.path.dirname(os.path.dirname(os.path.abspath(__file__)))
ap = argparse.ArgumentParser()
ap.add_argument("src"); ap.add_argument("pid"); ap.add_argument("name")
ap.add_argument("--tests", nargs="*", default=[]); ap.add_argument("--full", action="store_true")
ap.add_argument("--tier", default="quick"); ap.add_argument("-n", default="4")
a = ap.parse_args()
src = os.path.abspath(a.src)
env = dict(os.environ, OMP_NUM_THREADS="1", MKL_NUM_THREADS="1", PYTHONHASHSEED="0")
wt = tempfile.mkdtemp(prefix="keep-", dir="/tmp"); os.rmdir(wt)
subprocess.run(["git", "-C", "/repo", "worktree", "add", "-q", "--detach", wt, "HEAD"], check=True)
head = subprocess.run(["git", "-C", "/repo", "rev-parse", "HEAD"], capture_output=True, text=True).stdout.strip()
rec = {"repo_head": head, "property": a.pid}


def run(cmd, **k):
    return subprocess.run(cmd, cwd=wt, env=dict(env, PYTHONPATH=os.path.join(wt, "src")), capture_output=True, text=True, **k)


def tests():
    files = ["tests"] if a.full else a.tests
    if not files:
        return None
    r = run(["/venv/bin/python", "-m", "pytest", "-q", "-p", "no:cacheprovider", "-n", a.n, "--timeout=900", "-rfE"] + files, timeout=5400)
    failed = sorted(set(re.findall(r"^(?:FAILED|ERROR) (\S+)", r.stdout, re.M)))
    tail = r.stdout.strip().splitlines()[-1] if r.stdout.strip() else ""
    return {"failed": failed, "summary": tail}


try:
    demo = os.path.join(src, "demo.py")
    r = run(["/venv/bin/python", demo], timeout=900); rec["demo_clean_rc"] = r.returncode
    cache = "/tmp/keep-baseline-%s-%s.json" % (head[:12], "full" if a.full else "-".join(os.path.basename(t) for t in a.tests))
    if os.path.exists(cache):
        base = json.load(open(cache))
    else:
        base = tests()
        json.dump(base, open(cache, "w"))
    r = subprocess.run(["git", "-C", wt, "apply", os.path.join(src, "patch.diff")], capture_output=True, text=True)
    rec["patch_applies"] = r.returncode == 0
    if r.returncode != 0:
        print(r.stderr)
    r = run(["/venv/bin/python", "-c", "import pydrobert.torch, pydrobert.torch.command_line"], timeout=300); rec["imports"] = r.returncode == 0
    r = run(["/venv/bin/python", demo], timeout=900); rec["demo_patched_rc"] = r.returncode
    mut = tests()
    rec["tests_clean"], rec["tests_patched"] = base, mut
    rec["tests_unchanged"] = (base is not None and mut is not None and base["failed"] == mut["failed"])
    if base is not None and mut is not None and base["failed"] != mut["failed"]:
        rec["tests_differing"] = sorted(set(base["failed"]) ^ set(mut["failed"]))[:10]
    evp = os.path.join(HERE, "evidence", a.pid + ".json")
    keep = open(evp).read() if os.path.exists(evp) else None
    r = subprocess.run([os.path.join(HERE, "check"), a.pid, "--tier", a.tier], cwd=HERE, env=dict(env, VERIF_REPO=wt), capture_output=True, text=True, timeout=7200)
    if keep is not None:
        open(evp, "w").write(keep)
    lines = r.stdout.splitlines()
    rec["check_cmd"] = "VERIF_REPO=<patched worktree> ./check %s --tier %s" % (a.pid, a.tier)
    rec["check_rc"] = r.returncode
    rec["check_first_line"] = lines[0] if lines else ""
    rec["check_monitors_fired"] = sorted(set(re.findall(r"monitor=(\S+)", r.stdout)))[:12]
    rec["caught"] = r.returncode == 1 and any(l.startswith("VIOLATION property=%s " % a.pid) for l in lines)
finally:
    subprocess.run(["git", "-C", "/repo", "worktree", "remove", "--force", wt])
    subprocess.run(["git", "-C", "/repo", "worktree", "prune"])
ok = rec.get("demo_clean_rc") == 0 and rec.get("patch_applies") and rec.get("imports") and rec.get("demo_patched_rc", 0) != 0 and rec.get("tests_unchanged")
rec["confirmed"] = bool(ok)
print(json.dumps({k: v for k, v in rec.items() if k not in ("tests_clean", "tests_patched")}, indent=1))
if ok:
    dst = os.path.join(HERE, "seeded", a.name)
    os.makedirs(dst, exist_ok=True)
    for f in ("patch.diff", "demo.py"):
        shutil.copy(os.path.join(src, f), os.path.join(dst, f))
    meta = {}
    mp = os.path.join(src, "meta.json")
    if os.path.exists(mp):
        try:
            meta = json.load(open(mp))
        except Exception:
            meta = {"raw": open(mp).read()}
    meta["integrator_confirmation"] = rec
    json.dump(meta, open(os.path.join(dst, "meta.json"), "w"), indent=1)
    print("kept as", dst)
else:
    print("NOT KEPT")
