#!/bin/bash
# tools/try_seeded.sh <dir with patch.diff [+demo.py]> <ID> [tier] : apply the seeded change to a scratch
# worktree of /repo's HEAD, run the demo (must fail) and the check (must report a VIOLATION), clean up.
dir="$(cd "$1" && pwd)"; id="$2"; tier="${3:-quick}"
cd "$(dirname "$0")/.."
wt=$(mktemp -d /tmp/try-XXXXXX); rmdir "$wt"
git -C /repo worktree add -q --detach "$wt" HEAD || exit 3
trap 'git -C /repo worktree remove --force "$wt"; git -C /repo worktree prune' EXIT
if [ -f "$dir/demo.py" ]; then
  (cd "$wt" && PYTHONPATH="$wt/src" timeout 600 /venv/bin/python "$dir/demo.py" >/dev/null 2>&1); echo "demo on clean HEAD: rc=$?"
fi
git -C "$wt" apply "$dir/patch.diff" || { echo "PATCH DOES NOT APPLY"; exit 3; }
if [ -f "$dir/demo.py" ]; then
  (cd "$wt" && PYTHONPATH="$wt/src" timeout 600 /venv/bin/python "$dir/demo.py" >/dev/null 2>&1); echo "demo with patch: rc=$?"
fi
cp evidence/$id.json /tmp/ev-keep-$$.json 2>/dev/null
VERIF_REPO="$wt" ./check "$id" --tier "$tier" > "$wt.log" 2>&1; rc=$?
[ -f /tmp/ev-keep-$$.json ] && mv /tmp/ev-keep-$$.json evidence/$id.json
head -1 "$wt.log" | cut -c1-200
grep -E "^(VIOLATION|INCONCLUSIVE|KNOWN)" "$wt.log" | head -4
echo "check $id ($tier) on seeded tree: rc=$rc"
rm -f "$wt.log"
