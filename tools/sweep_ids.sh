#!/bin/bash
# tools/sweep_ids.sh <tier> <first> <last> <ids...> : like sweep_seeds.sh, for the listed checks only
cd "$(dirname "$0")/.."
tier="$1"; a="$2"; b="$3"; shift 3
for s in $(seq $a $b); do
  echo "##### seed $s"
  VERIF_SEED=$s tools/run_all.sh $tier "$@" | grep -E "rc=[12]|VIOLATION|INCONCLUSIVE|EVIDENCE-INVALID"
done
echo "##### done"
