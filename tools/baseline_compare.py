#!/usr/bin/env python3
"""Run the repository's suite (guard off) and compare with /root/.vp/BASELINE.json stable_pass.
usage: tools/baseline_compare.py [repo_dir] [-n workers]"""
import json, os, subprocess, sys, tempfile, xml.etree.ElementTree as ET
repo = sys.argv[1] if len(sys.argv) > 1 and not sys.argv[1].startswith("-") else "/repo"
n = sys.argv[sys.argv.index("-n") + 1] if "-n" in sys.argv else "6"
base = json.load(open("/root/.vp/BASELINE.json"))
out = tempfile.mktemp(suffix=".xml")
env = dict(os.environ, OMP_NUM_THREADS="1", MKL_NUM_THREADS="1", PYTHONPATH=os.path.join(repo, "src"))
env.pop("PYDROBERT_TORCH_VERIF", None)
cmd = ["/venv/bin/python", "-m", "pytest", "-q", "-p", "no:cacheprovider", "--timeout=900",
       "--continue-on-collection-errors", "--junitxml=" + out]
if n != "0":
    cmd += ["-n", n]
r = subprocess.run(cmd, cwd=repo, env=env, capture_output=True, text=True)
print(r.stdout.strip().splitlines()[-1])
passed, failed = set(), set()
for tc in ET.parse(out).getroot().iter("testcase"):
    tid = (tc.get("classname") or "") + "::" + (tc.get("name") or "")
    if tc.find("failure") is not None or tc.find("error") is not None:
        failed.add(tid)
    elif tc.find("skipped") is None:
        passed.add(tid)
os.remove(out)
stable = set(base["stable_pass"])
missing = sorted(stable - passed)
print("stable_pass=%d now_passed=%d missing_from_stable=%d failed=%d newly_passing=%d" % (
    len(stable), len(passed), len(missing), len(failed), len(passed - stable)))
for m in missing[:40]:
    print("  MISSING", m, "(FAILED)" if m in failed else "(not run/skipped)")
for f in sorted(failed - set(missing))[:20]:
    print("  failed (not in stable):", f)
sys.exit(1 if missing else 0)
