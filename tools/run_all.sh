#!/bin/bash
# tools/run_all.sh [quick|thorough] [ids...] : run registered checks one after another, validate evidence
cd "$(dirname "$0")/.."
tier="${1:-quick}"; shift
ids="$@"
[ -z "$ids" ] && ids=$(python3 -c "import json;print(' '.join(c['property_id'] for c in json.load(open('MANIFEST.json'))['checks']))")
rc_all=0
for id in $ids; do
  rm -f evidence/$id.json
  start=$(date +%s)
  ./check $id --tier $tier > .scratch_$id.log 2>&1; rc=$?
  end=$(date +%s)
  ok=$(python3-vt - <<PY
import json,jsonschema,sys
try:
    jsonschema.validate(json.load(open('evidence/$id.json')), json.load(open('/root/.vp/EVIDENCE.schema.json')))
    print("evidence-ok")
except Exception as e:
    print("EVIDENCE-INVALID", str(e)[:200])
PY
)
  echo "$id rc=$rc $((end-start))s $ok | $(head -1 .scratch_$id.log | cut -c1-160)"
  grep -E "^(VIOLATION|INCONCLUSIVE|KNOWN-FINDING)" .scratch_$id.log | head -5
  [ $rc -ne 0 ] && rc_all=1
  rm -f .scratch_$id.log
done
exit $rc_all
