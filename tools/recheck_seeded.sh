#!/bin/bash
# tools/recheck_seeded.sh [names...] : every kept seeded change against /repo's current HEAD (patch applies, demo
# passes on HEAD and fails with the patch, quick check reports a VIOLATION).  PAR=<k> workers (default 3; the checks
# themselves take run slots).  Writes seeded/STATUS.md.
cd "$(dirname "$0")/.."
names="$@"; [ -z "$names" ] && names=$(ls seeded | grep -v -E "STATUS|_not_kept")
PAR=${PAR:-3}
out=seeded/STATUS.md
head=$(git -C /repo rev-parse --short HEAD)
tmpd=$(mktemp -d /tmp/recheck-XXXXXX)
one() {
  n=$1; id=$(echo ${n:0:3} | tr a-z A-Z)
  r=$(tools/try_seeded.sh seeded/$n $id 2>&1)
  ap=yes; echo "$r" | grep -q "PATCH DOES NOT APPLY" && ap=NO
  d0=$(echo "$r" | grep "demo on clean HEAD" | sed 's/.*rc=//'); d1=$(echo "$r" | grep "demo with patch" | sed 's/.*rc=//')
  rc=$(echo "$r" | grep "on seeded tree" | sed 's/.*rc=//')
  mon=$(echo "$r" | grep -o "monitor=[^ ]*" | sort -u | head -3 | tr '\n' ' ')
  verdict="MISSED (rc=$rc)"; [ "$rc" = "1" ] && verdict="caught: $mon"
  echo "| $n | $id | $ap | rc=$d0 | rc=$d1 | $verdict |" > $tmpd/$n.row
  echo "$n $ap $d0 $d1 rc=$rc"
}
export -f one; export tmpd
echo $names | tr ' ' '\n' | xargs -P $PAR -I{} bash -c 'one {}'
{
  echo "# Seeded changes re-checked against /repo $head (quick tier, seed ${VERIF_SEED:-0})"
  echo ""; echo "| change | property | patch applies | demo on HEAD | demo with patch | check |"; echo "|---|---|---|---|---|---|"
  for n in $(ls seeded | grep -v -E "STATUS|_not_kept"); do
    if [ -f $tmpd/$n.row ]; then cat $tmpd/$n.row; else grep "^| $n |" $out 2>/dev/null; fi
  done
} > $out.tmp
mv $out.tmp $out; rm -rf $tmpd
