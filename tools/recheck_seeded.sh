#!/bin/bash
# tools/recheck_seeded.sh [names...] : every kept seeded change against /repo's current HEAD (patch applies, demo fails, quick check catches)
cd "$(dirname "$0")/.."
names="$@"; [ -z "$names" ] && names=$(ls seeded | grep -v STATUS)
out=seeded/STATUS.md
head=$(git -C /repo rev-parse --short HEAD)
echo "# Seeded changes re-checked against /repo $head (quick tier, seed ${VERIF_SEED:-0})" > $out.tmp
echo "" >> $out.tmp; echo "| change | property | patch applies | demo on HEAD | demo with patch | check |" >> $out.tmp; echo "|---|---|---|---|---|---|" >> $out.tmp
for n in $names; do
  id=$(echo ${n:0:3} | tr a-z A-Z)
  r=$(tools/try_seeded.sh seeded/$n $id 2>&1)
  ap=yes; echo "$r" | grep -q "PATCH DOES NOT APPLY" && ap=NO
  d0=$(echo "$r" | grep "demo on clean HEAD" | sed 's/.*rc=//'); d1=$(echo "$r" | grep "demo with patch" | sed 's/.*rc=//')
  rc=$(echo "$r" | grep "on seeded tree" | sed 's/.*rc=//')
  mon=$(echo "$r" | grep -o "monitor=[^ ]*" | sort -u | head -3 | tr '\n' ' ')
  verdict="MISSED (rc=$rc)"; [ "$rc" = "1" ] && verdict="caught: $mon"
  echo "| $n | $id | $ap | rc=$d0 | rc=$d1 | $verdict |" >> $out.tmp
  echo "$n $ap $d0 $d1 rc=$rc"
done
mv $out.tmp $out
