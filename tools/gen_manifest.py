#!/venv/bin/python
"""Regenerate MANIFEST.json from the property modules that exist (vmon/props/cXX.py)."""
import importlib, json, os, sys
HERE = os.path.dirname(os.path.dirname(os.path.abspath(__file__)))
sys.path.insert(0, HERE)
ALL = ["C%02d" % i for i in range(1, 21)]
# checks integrated (fixes in /repo, run on /repo by the integrator); others are listed as not yet claimed
_ip = os.path.join(HERE, "tools", "integrated.txt")
INTEGRATED = set(open(_ip).read().split()) if os.path.exists(_ip) else set(ALL)
checks, na = [], []
for pid in ALL:
    path = os.path.join(HERE, "vmon", "props", pid.lower() + ".py")
    if not os.path.exists(path) or pid not in INTEGRATED:
        na.append({"property_id": pid, "reason": "check not built yet (runtime monitor planned, DESIGN.md section 3/%s); not claimed in this commit" % pid})
        continue
    mod = importlib.import_module("vmon.props." + pid.lower())
    if getattr(mod, "NOT_CLAIMED", None):
        na.append({"property_id": pid, "reason": mod.NOT_CLAIMED})
        continue
    checks.append({
        "property_id": pid,
        "quick_cmd": "./check %s --tier quick" % pid,
        "thorough_cmd": "./check %s --tier thorough" % pid,
        "evidence_file": "/verif/evidence/%s.json" % pid,
        "replay_cmd_template": "./check %s --replay {path}" % pid,
        "engine": "vmon",
        "level_claimed": {
            "category": mod.LEVEL,
            "text": getattr(mod, "LEVEL_TEXT", "Runtime monitoring: the real functions of the current /repo tree are executed on seeded, class-directed hostile workloads while reference-model oracles and invariant hooks judge every call; holds only on the executions observed (counts in the evidence file)."),
            "design_ref": "DESIGN.md section 3/%s" % pid,
        },
        "level_note": getattr(mod, "LEVEL_NOTE", "Trusted: CPython, PyTorch kernels, the harness-side oracle; USE_JIT off; coverage floors make a run inconclusive (exit 2) if a monitor or input class was not reached."),
        "technique": getattr(mod, "TECHNIQUE", "runtime monitoring: reference-model oracle at the API boundary over seeded hostile workloads"),
    })
man = {
    "version": 1,
    "setup_cmd": "/venv/bin/pip install -q --no-index --find-links /opt/veriftools/wheels --target .deps icontract deal || true",
    "hooks": {
        "guard": "PYDROBERT_TORCH_VERIF",
        "enable": "no source hooks in /repo: monitors attach from the harness process (wrappers, forward hooks, sys.monitoring, worker shim via PYTHONPATH=/verif/shim) when PYDROBERT_TORCH_VERIF=1; checks import /repo/src of the current working tree",
        "baseline_off_cmd": "cd /repo && /venv/bin/python -m pytest -ra -q -p no:cacheprovider --timeout=900 --continue-on-collection-errors",
        "source_commits": [],
        "add_only": True,
    },
    "engines": [{"name": "vmon", "path": "/verif/vmon", "serves_properties": [c["property_id"] for c in checks],
                 "kind_free_text": "Python runtime-monitoring harness: class-directed workload generators, boundary wrappers / forward hooks / instrumented collaborators / interposed primitives / sys.monitoring crash points, reference-model oracles, sharded subprocess runner with coverage floors"}],
    "checks": checks,
    "not_applicable": na,
    "notes": "Exit 2 + INCONCLUSIVE lines mean a coverage floor was missed or a watchdog fired (never folded into held). Known findings: /verif/known_findings.json (+ known_findings.d/).",
}
with open(os.path.join(HERE, "MANIFEST.json"), "w") as f:
    json.dump(man, f, indent=1)
print("checks:", [c["property_id"] for c in checks])
