#!/bin/bash
# tools/sweep_seeds.sh <tier> <first> <last> : run all checks for a range of seeds, print only anomalies
cd "$(dirname "$0")/.."
tier="$1"; a="$2"; b="$3"
for s in $(seq $a $b); do
  echo "##### seed $s"
  VERIF_SEED=$s tools/run_all.sh $tier | grep -E "rc=[12]|VIOLATION|INCONCLUSIVE|EVIDENCE-INVALID" 
done
echo "##### done"
