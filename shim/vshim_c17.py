"""C17 worker shim: observe (and delay) the work items of the command-line tools.

Active only when VMON_C17_LOG names a log file.  A one-shot meta-path finder waits for
`pydrobert.torch.command_line` to be imported (in the parent of a spawn pool *and*, because
spawn children are fresh interpreters with the same environment, in every child) and then

* replaces `_worker_func` (the function the spawn pool maps over the items) by a wrapper that
  (optionally after a rendez-vous of the worker processes, VMON_C17_BARRIER) sleeps a delay derived
  from (VMON_C17_DELAY_SEED, item) and appends one line
  `W <pid> <t_start> <t_end> <item-json>` to the log with a single O_APPEND write;
* wraps `_DirectoryDataset.__getitem__` (the work unit of the DataLoader workers, fork) in the
  same way (`D` lines).

The wrapper keeps `__module__/__qualname__`, so pickling the function by reference in the parent
resolves to the wrapper of whichever process unpickles it.  The library code itself is unchanged.
"""
import functools
import hashlib
import importlib.abc
import importlib.machinery
import json
import os
import sys
import time

TARGET = "pydrobert.torch.command_line"
LOG = os.environ.get("VMON_C17_LOG")
SEED = os.environ.get("VMON_C17_DELAY_SEED", "0")
MAX_MS = float(os.environ.get("VMON_C17_DELAY_MAX_MS", "0") or 0)
# optional rendez-vous: the first item of every worker process waits until BARRIER worker processes have
# taken their first item (or the timeout passes), so that items really are in flight concurrently and
# the seeded delays decide the completion order, not the start-up skew of the interpreters
BARRIER = int(os.environ.get("VMON_C17_BARRIER", "0") or 0)
BARRIER_TIMEOUT = float(os.environ.get("VMON_C17_BARRIER_TIMEOUT_S", "6") or 6)
_first = [True]


def _barrier():
    if not _first[0]:
        return
    _first[0] = False
    if BARRIER <= 1:
        return
    try:
        open("%s.b%d" % (LOG, os.getpid()), "w").close()
        d, base = os.path.dirname(LOG), os.path.basename(LOG) + ".b"
        deadline = time.time() + BARRIER_TIMEOUT
        while time.time() < deadline:
            if sum(1 for n in os.listdir(d) if n.startswith(base)) >= BARRIER:
                return
            time.sleep(0.01)
    except OSError:
        pass


def _delay(item):
    if MAX_MS <= 0:
        return 0.0
    h = hashlib.sha1(("%s/%r" % (SEED, item)).encode()).digest()
    return (int.from_bytes(h[:4], "big") / 2 ** 32) * MAX_MS / 1000.0


def _emit(kind, item, t0, t1):
    try:
        it = json.dumps(item, default=repr)
    except Exception:
        it = json.dumps(repr(item))
    line = "%s %d %.6f %.6f %s\n" % (kind, os.getpid(), t0, t1, it)
    fd = os.open(LOG, os.O_WRONLY | os.O_APPEND | os.O_CREAT, 0o644)
    try:
        os.write(fd, line.encode())
    finally:
        os.close(fd)


def _patch(module):
    orig = getattr(module, "_worker_func", None)
    if orig is not None and not getattr(orig, "_vmon_wrapped", False):

        @functools.wraps(orig)
        def _worker_func(x_n):
            _barrier()
            t0 = time.time()
            d = _delay(x_n)
            if d:
                time.sleep(d)
            try:
                return orig(x_n)
            finally:
                _emit("W", x_n, t0, time.time())

        _worker_func._vmon_wrapped = True
        module._worker_func = _worker_func
    ds = getattr(module, "_DirectoryDataset", None)
    if ds is not None and not getattr(ds.__getitem__, "_vmon_wrapped", False):
        orig_get = ds.__getitem__

        @functools.wraps(orig_get)
        def __getitem__(self, index):
            _barrier()
            t0 = time.time()
            d = _delay(index)
            if d:
                time.sleep(d)
            try:
                return orig_get(self, index)
            finally:
                _emit("D", index, t0, time.time())

        __getitem__._vmon_wrapped = True
        ds.__getitem__ = __getitem__


class _Loader(importlib.abc.Loader):
    def __init__(self, inner):
        self.inner = inner

    def create_module(self, spec):
        return self.inner.create_module(spec)

    def exec_module(self, module):
        self.inner.exec_module(module)
        try:
            _patch(module)
        except Exception as e:  # pragma: no cover
            sys.stderr.write("vmon c17 shim: patch failed: %r\n" % (e,))

    def __getattr__(self, name):  # get_code, get_source, ... (spawn/runpy helpers)
        return getattr(self.inner, name)


class _Finder(importlib.abc.MetaPathFinder):
    def find_spec(self, fullname, path, target=None):
        if fullname != TARGET:
            return None
        spec = importlib.machinery.PathFinder.find_spec(fullname, path)
        if spec is None or spec.loader is None:
            return spec
        spec.loader = _Loader(spec.loader)
        return spec


if LOG and os.environ.get("PYDROBERT_TORCH_VERIF") == "1":
    if TARGET in sys.modules:
        _patch(sys.modules[TARGET])
    elif not any(isinstance(f, _Finder) for f in sys.meta_path):
        sys.meta_path.insert(0, _Finder())
