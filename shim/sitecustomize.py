"""Worker shim dispatcher (DESIGN 2.1, mechanism F).

This directory is put on PYTHONPATH only by the harness, and only for the
subprocesses it starts itself.  Nothing happens unless the guard variable
PYDROBERT_TORCH_VERIF=1 is set; then every module named in VMON_SHIM_MODULES
(comma separated, files vshim_*.py next to this one) is imported.  Each of them
is again a no-op unless its own environment variables are set.
"""
import os
import sys

if os.environ.get("PYDROBERT_TORCH_VERIF") == "1" and os.environ.get("VMON_SHIM_MODULES"):
    _here = os.path.dirname(os.path.abspath(__file__))
    for _name in os.environ["VMON_SHIM_MODULES"].split(","):
        _name = _name.strip()
        if not _name.startswith("vshim_") or not os.path.exists(os.path.join(_here, _name + ".py")):
            continue
        try:
            __import__(_name)
        except Exception as _e:  # never break the interpreter that is being observed
            sys.stderr.write("vmon shim %s failed to load: %r\n" % (_name, _e))
