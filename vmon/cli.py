import argparse
import os
import sys

from . import core


def main(argv=None):
    ap = argparse.ArgumentParser(prog="check")
    ap.add_argument("pid")
    ap.add_argument("--tier", default=os.environ.get("VERIF_TIER", "quick"), choices=["quick", "thorough"])
    ap.add_argument("--seed", type=int, default=int(os.environ.get("VERIF_SEED", "0") or 0))
    ap.add_argument("--replay")
    ap.add_argument("--shard")
    ap.add_argument("--out")
    ap.add_argument("--cases", type=int)
    ap.add_argument("--shards", type=int)
    a = ap.parse_args(argv)
    pid = a.pid.upper()
    if a.replay:
        return core.run_replay(pid, a.replay)
    if a.shard:
        s, k = a.shard.split("/")
        return core.run_shard(pid, a.tier, a.seed, int(s), int(k), a.out, a.cases)
    return core.run_check(pid, a.tier, a.seed, a.cases, a.shards)


if __name__ == "__main__":
    sys.exit(main())
