"""pytest plugin: run the repository's own tests as an extra workload with a
property's monitors attached (DESIGN 2.1 mechanism B).

Every forward call of a library nn.Module is offered to the property module's
`hook_case(module, args, kwargs, output)`; if that returns a case dict the
standard `execute(case, mon)` judges it (re-driving the real functions on the
very inputs the test used) and `hook_compare(case, output, mon)` (optional)
compares the output the test actually received.
"""
import json
import os
import time

from . import core

_STATE = {}


def pytest_configure(config):
    core.setup_paths()
    pid = os.environ["VMON_PROP"]
    mod = core.load_mod(pid)
    mon = core.Monitor(pid, os.environ.get("VMON_TIER", "thorough"), int(os.environ.get("VERIF_SEED", "0")), shard=-1)
    if hasattr(mod, "setup"):
        mod.setup(mon)
    import torch

    busy = {"on": False}

    def hook(module, args, kwargs, output):
        if busy["on"]:
            return None
        busy["on"] = True
        try:
            try:
                case = mod.hook_case(module, args, kwargs, output)
            except Exception:
                mon.stat("hook_case_error")
                case = None
            if case is None:
                return None
            mon.stat("hooked:" + type(module).__name__)
            case.setdefault("class", "repo_test_call")
            n0 = len(mon.violations)
            v = mon.run_case(mod, case, "pytest")
            if v is None and hasattr(mod, "hook_compare"):
                try:
                    mod.hook_compare(case, output, mon)
                except core.Violation as e:
                    vrec = mon._vrec(case, "pytest", core.case_hash(case), e.monitor, e.details)
                    if core.classify_known(mod, vrec) is None:
                        mon.verdicts["violated"] += 1
                        mon.violations.append(vrec)
        finally:
            busy["on"] = False
        return None

    handle = torch.nn.modules.module.register_module_forward_hook(hook, with_kwargs=True)
    _STATE.update(mod=mod, mon=mon, handle=handle, t0=time.time())


def pytest_sessionfinish(session, exitstatus):
    mon = _STATE.get("mon")
    if mon is None:
        return
    _STATE["handle"].remove()
    res = mon.result()
    res["stopped"] = None
    res["wall_s"] = time.time() - _STATE["t0"]
    res["pytest_exitstatus"] = int(exitstatus)
    with open(os.environ["VMON_OUT"], "w") as f:
        json.dump(res, f)
