"""Runtime monitors for pydrobert-pytorch (see /verif/DESIGN.md)."""
