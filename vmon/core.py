"""Common machinery of the runtime monitors (DESIGN.md section 2).

A *property module* (vmon/props/cXX.py) provides

    ID            "C01"
    LEVEL         "exploration" | "fault_enumeration"
    RULE          how cases are generated and what makes one distinct / non-trivial
    ASSUMPTIONS   list of strings
    BUDGET        {"quick": dict(cases=.., shards=.., timeout=..), "thorough": {...}}
    FLOORS        {"quick": {"events": {name: n}, "classes": {name: n}}, "thorough": ...}
    generate(rng, tier, i)  -> JSON-able case dict (all concrete inputs)
    execute(case, mon)      -> drives the real code under the monitors
    enumerate_cases(tier)   -> optional iterator of extra (exhaustive) cases
    classify(entry, vrec)   -> optional: does open known-finding `entry` explain `vrec`?

`Monitor` is what `execute` talks to.  Every case ends held / violated /
ambiguous / out-of-domain; a run ends HELD (0), VIOLATION (1) or
INCONCLUSIVE (2).
"""
from __future__ import annotations

import hashlib
import importlib
import json
import math
import os
import random
import shutil
import subprocess
import sys
import tempfile
import time
import traceback
from collections import Counter

HERE = os.path.dirname(os.path.dirname(os.path.abspath(__file__)))
REPO = os.environ.get("VERIF_REPO", "/repo")
GUARD = "PYDROBERT_TORCH_VERIF"
DEPS = os.path.join(HERE, ".deps")


def setup_paths():
    """Make the *current working tree* of the repository the imported package."""
    import warnings

    warnings.filterwarnings("ignore", category=FutureWarning)
    warnings.filterwarnings("ignore", category=DeprecationWarning)
    src = os.path.join(REPO, "src")
    if src not in sys.path[:1]:
        sys.path.insert(0, src)
    if os.path.isdir(DEPS) and DEPS not in sys.path:
        sys.path.append(DEPS)


def ensure_deps():
    """icontract/deal live in the git-ignored .deps; install offline if absent."""
    if os.path.isdir(os.path.join(DEPS, "icontract")):
        return True
    cmd = [
        "/venv/bin/pip", "install", "-q", "--no-index", "--find-links",
        "/opt/veriftools/wheels", "--target", DEPS, "icontract", "deal",
    ]
    try:
        subprocess.run(cmd, check=True, stdout=subprocess.DEVNULL,
                       stderr=subprocess.DEVNULL, timeout=300)
    except Exception:
        return False
    return os.path.isdir(os.path.join(DEPS, "icontract"))


# --------------------------------------------------------------------------
# JSON helpers


def js(x, _depth=0):
    """Best-effort conversion of observed values into JSON-able structures."""
    try:
        import torch
    except Exception:  # pragma: no cover
        torch = None
    if x is None or isinstance(x, (bool, int, str)):
        return x
    if isinstance(x, float):
        if math.isnan(x):
            return "nan"
        if math.isinf(x):
            return "inf" if x > 0 else "-inf"
        return x
    if torch is not None and isinstance(x, torch.Tensor):
        if x.numel() > 4000:
            return {"tensor_shape": list(x.shape), "dtype": str(x.dtype)}
        return js(x.detach().cpu().tolist(), _depth + 1)
    if isinstance(x, dict):
        return {str(k): js(v, _depth + 1) for k, v in x.items()}
    if isinstance(x, (list, tuple, set, frozenset)):
        return [js(v, _depth + 1) for v in x]
    try:
        import fractions

        if isinstance(x, fractions.Fraction):
            return float(x)
    except Exception:
        pass
    try:
        import numpy as np

        if isinstance(x, np.generic):
            return js(x.item())
        if isinstance(x, np.ndarray):
            return js(x.tolist())
    except Exception:
        pass
    return repr(x)


def case_hash(case) -> str:
    s = json.dumps(case, sort_keys=True, default=repr)
    return hashlib.sha1(s.encode()).hexdigest()[:14]


class Violation(Exception):
    def __init__(self, monitor, details):
        super().__init__(monitor)
        self.monitor = monitor
        self.details = details


# --------------------------------------------------------------------------
# The monitor handed to execute()


class Monitor:
    MAX_VIOLATIONS = 25

    def __init__(self, pid, tier, seed, shard=0):
        self.pid, self.tier, self.seed, self.shard = pid, tier, seed, shard
        self.events = Counter()  # evaluations per monitored entry point
        self.classes = Counter()  # cases per input class
        self.verdicts = Counter()  # held / violated / ambiguous / ood / known
        self.devs = {}  # name -> [max deviation, tolerance]
        self.stats = Counter()  # free-form observation counters
        self.sets = {}  # name -> set of observed distinct things (bounded)
        self.hashes = set()  # distinct non-trivial case hashes
        self.all_hashes = set()
        self.violations = []  # violation records
        self.known = Counter()  # known-finding id -> count
        self.known_what = {}
        self.samples = []
        self.notes = []
        # per case
        self._case = None
        self._status = None
        self._trivial = False
        self._classes = set()

    # ---- called by execute()
    def ev(self, name, n=1):
        self.events[name] += n

    def cls(self, *names):
        for n in names:
            self._classes.add(n)

    def stat(self, name, n=1):
        self.stats[name] += n

    def observe(self, name, item, cap=100000):
        s = self.sets.setdefault(name, set())
        if len(s) < cap:
            s.add(item)

    def dev(self, name, value, tol):
        value = float(value)
        cur = self.devs.get(name)
        if cur is None or (value > cur[0]) or math.isnan(value):
            self.devs[name] = [value, float(tol)]

    def trivial(self):
        self._trivial = True

    def ambiguous(self, reason="tie"):
        if self._status is None:
            self._status = "ambiguous"
        self.stats["ambiguous:" + reason] += 1

    def ood(self, reason="precondition"):
        self._status = "ood"
        self.stats["ood:" + reason] += 1

    def fail(self, monitor, **details):
        raise Violation(monitor, details)

    def check(self, cond, monitor, **details):
        self.events["assert:" + monitor] += 1
        if not bool(cond):
            raise Violation(monitor, details)

    def close(self, a, b, tol, monitor, rel=0.0, **details):
        """|a-b| <= tol + rel*|b| with NaN never close; records the deviation."""
        a, b = float(a), float(b)
        if math.isinf(a) or math.isinf(b):
            ok, d = (a == b), (0.0 if a == b else float("inf"))
        else:
            d = abs(a - b)
            ok = d <= tol + rel * abs(b)
        if not math.isnan(d) and ok:
            self.dev(monitor, d, tol + rel * abs(b))
        self.check(ok, monitor, observed=a, expected=b, tol=tol, rel=rel, **details)

    def lib(self, name, fn, *a, documented=(), **k):
        """Invoke a monitored library entry point.  A documented precondition
        error makes the case out-of-domain; any other exception is a violation
        ("raised instead of returning")."""
        self.ev(name)
        try:
            return fn(*a, **k)
        except Violation:
            raise
        except documented as e:  # type: ignore[misc]
            self.ood(type(e).__name__)
            raise OutOfDomain(str(e))
        except Exception as e:
            tb = traceback.format_exc(limit=-6)
            raise Violation(
                "raised:" + name,
                {"exception": type(e).__name__, "message": str(e)[:500], "traceback": tb},
            )

    # ---- called by the runner
    def run_case(self, mod, case, index):
        self._case, self._status, self._trivial = case, None, False
        self._classes = set()
        if "class" in case:
            self._classes.add(case["class"])
        h = case_hash(case)
        vrec = None
        try:
            mod.execute(case, self)
        except OutOfDomain:
            pass
        except Violation as v:
            vrec = self._vrec(case, index, h, v.monitor, v.details)
        except Exception as e:
            vrec = self._vrec(
                case, index, h, "exception:" + type(e).__name__,
                {"message": str(e)[:500], "traceback": traceback.format_exc(limit=-8)},
            )
        for c in self._classes:
            self.classes[c] += 1
        self.all_hashes.add(h)
        if vrec is not None:
            kid = classify_known(mod, vrec)
            if kid is not None:
                self.known[kid] += 1
                self.verdicts["known"] += 1
            else:
                self.verdicts["violated"] += 1
                if len(self.violations) < self.MAX_VIOLATIONS:
                    self.violations.append(vrec)
            return vrec
        status = self._status or "held"
        self.verdicts[status] += 1
        if status == "held" and not self._trivial:
            self.hashes.add(h)
        if len(self.samples) < 3 and status == "held" and not self._trivial:
            self.samples.append(case)
        return None

    def _vrec(self, case, index, h, monitor, details):
        return {
            "property": self.pid, "tier": self.tier, "seed": self.seed,
            "shard": self.shard, "index": index, "hash": h, "monitor": monitor,
            "details": js(details), "case": case,
        }

    def result(self):
        return {
            "events": dict(self.events), "classes": dict(self.classes),
            "verdicts": dict(self.verdicts), "devs": self.devs,
            "stats": dict(self.stats),
            "sets": {k: sorted(map(str, v))[:20000] for k, v in self.sets.items()},
            "hashes": sorted(self.hashes), "n_all": len(self.all_hashes),
            "violations": self.violations, "known": dict(self.known),
            "samples": self.samples, "notes": self.notes,
        }


class OutOfDomain(Exception):
    pass


# --------------------------------------------------------------------------
# Known findings


def load_known(pid):
    import glob

    paths = [os.path.join(HERE, "known_findings.json")]
    paths += sorted(glob.glob(os.path.join(HERE, "known_findings.d", "*.json")))
    out = []
    for path in paths:
        if not os.path.exists(path):
            continue
        with open(path) as f:
            data = json.load(f)
        out.extend(e for e in data.get("findings", []) if e.get("property") == pid)
    return out


_KNOWN_CACHE = {}


def classify_known(mod, vrec):
    pid = mod.ID
    if pid not in _KNOWN_CACHE:
        _KNOWN_CACHE[pid] = [e for e in load_known(pid) if e.get("status") == "open"]
    fn = getattr(mod, "classify", None)
    if fn is None:
        return None
    for e in _KNOWN_CACHE[pid]:
        try:
            if fn(e["id"], vrec):
                return e["id"]
        except Exception:
            continue
    return None


# --------------------------------------------------------------------------
# Shard body and parent


def load_mod(pid):
    return importlib.import_module("vmon.props." + pid.lower())


def case_rng(pid, tier, seed, shard, i):
    return random.Random(f"{pid}/{tier}/{seed}/{shard}/{i}")


def run_shard(pid, tier, seed, shard, nshards, out, ncases=None):
    setup_paths()
    import faulthandler

    faulthandler.enable()
    try:
        import torch

        torch.set_num_threads(1)
    except Exception:
        pass
    mod = load_mod(pid)
    budget = dict(mod.BUDGET[tier])
    if ncases is not None:
        budget["cases"] = ncases
    mon = Monitor(pid, tier, seed, shard)
    if hasattr(mod, "setup"):
        mod.setup(mon)
    t0 = time.time()
    tlimit = budget.get("time", 1e9)
    idx = 0
    stopped = None
    enum = getattr(mod, "enumerate_cases", None)
    if enum is not None:
        for j, case in enumerate(enum(tier)):
            if j % nshards != shard:
                continue
            if time.time() - t0 > tlimit:
                stopped = "time budget inside enumeration at case %d" % j
                break
            mon.run_case(mod, case, "e%d" % j)
            idx += 1
            if len(mon.violations) >= mon.MAX_VIOLATIONS:
                stopped = "max violations"
                break
    n = budget["cases"]
    for i in range(n):
        if stopped:
            break
        if time.time() - t0 > tlimit:
            stopped = "time budget after %d/%d cases" % (i, n)
            break
        rng = case_rng(pid, tier, seed, shard, i)
        case = mod.generate(rng, tier, i)
        mon.run_case(mod, case, i)
        if len(mon.violations) >= mon.MAX_VIOLATIONS:
            stopped = "max violations"
    if hasattr(mod, "teardown"):
        mod.teardown(mon)
    res = mon.result()
    from . import layout as _ly

    for how, cnt in _ly.TRAVEL_SEEN.items():  # module objects handed over after deepcopy / pickle / state_dict journeys
        res.setdefault("stats", {})["module_travel:" + how] = cnt
    res["stopped"] = stopped
    res["wall_s"] = time.time() - t0
    with open(out, "w") as f:
        json.dump(res, f)
    return 0


def merge(results):
    agg = {
        "events": Counter(), "classes": Counter(), "verdicts": Counter(),
        "devs": {}, "stats": Counter(), "sets": {}, "hashes": set(), "n_all": 0,
        "violations": [], "known": Counter(), "samples": [], "notes": [],
        "stopped": [],
    }
    for r in results:
        for k in ("events", "classes", "verdicts", "stats", "known"):
            agg[k].update(r.get(k, {}))
        for k, v in r.get("devs", {}).items():
            cur = agg["devs"].get(k)
            if cur is None or v[0] > cur[0]:
                agg["devs"][k] = v
        for k, v in r.get("sets", {}).items():
            agg["sets"].setdefault(k, set()).update(v)
        agg["hashes"].update(r.get("hashes", []))
        agg["n_all"] += r.get("n_all", 0)
        agg["violations"].extend(r.get("violations", []))
        if len(agg["samples"]) < 4:
            agg["samples"].extend(r.get("samples", [])[: 4 - len(agg["samples"])])
        agg["notes"].extend(r.get("notes", []))
        if r.get("stopped"):
            agg["stopped"].append(r["stopped"])
    return agg


def write_replay(vrec):
    d = os.path.join(HERE, "replays", vrec["property"])
    os.makedirs(d, exist_ok=True)
    path = os.path.join(d, vrec["hash"] + ".json")
    with open(path, "w") as f:
        json.dump(vrec, f, indent=1, default=repr)
    return path


def check_floors(mod, tier, agg):
    missing = []
    floors = getattr(mod, "FLOORS", {}).get(tier, {})
    for name, n in floors.get("events", {}).items():
        if agg["events"].get(name, 0) < n:
            missing.append("event %s: %d < %d" % (name, agg["events"].get(name, 0), n))
    for name, n in floors.get("classes", {}).items():
        if agg["classes"].get(name, 0) < n:
            missing.append("class %s: %d < %d" % (name, agg["classes"].get(name, 0), n))
    for name, n in floors.get("stats", {}).items():
        if agg["stats"].get(name, 0) < n:
            missing.append("stat %s: %d < %d" % (name, agg["stats"].get(name, 0), n))
    for name, n in floors.get("sets", {}).items():
        have = len(agg["sets"].get(name, ()))
        if have < n:
            missing.append("distinct %s: %d < %d" % (name, have, n))
    if len(agg["hashes"]) < floors.get("distinct", 2):
        missing.append("distinct_nontrivial: %d" % len(agg["hashes"]))
    return missing


def _shrink(sample, limit=6000):
    """Keep evidence files readable: an over-long sample is cut to its leading part."""
    txt = json.dumps(sample, default=repr)
    if len(txt) <= limit:
        return sample
    return {"truncated_case_json": txt[:limit] + " ...", "full_length": len(txt)}


def write_evidence(mod, tier, seed, agg, wall, inconclusive, extra=None):
    pid = mod.ID
    cov = {
        "evaluations": int(agg["n_all"]) if agg["n_all"] else int(sum(agg["verdicts"].values())),
        "distinct_nontrivial": len(agg["hashes"]),
        "rule": mod.RULE,
        "samples": [_shrink(x) for x in agg["samples"]] or [{"note": "no held non-trivial case in this run"}],
        "cases_run": int(sum(agg["verdicts"].values())),
        "verdicts": dict(agg["verdicts"]),
        "monitor_evaluations": dict(sorted(agg["events"].items())),
        "input_classes": dict(sorted(agg["classes"].items())),
        "observations": dict(sorted(agg["stats"].items())),
        "max_deviation_vs_tolerance": {k: {"max": js(v[0]), "tol": js(v[1])} for k, v in sorted(agg["devs"].items())},
        "distinct_observed": {k: len(v) for k, v in sorted(agg["sets"].items())},
        "known_findings_matched": dict(agg["known"]),
        "inconclusive": inconclusive,
        "exhaustive": bool(getattr(mod, "EXHAUSTIVE", {}).get(tier, False)),
    }
    for k, v in agg["sets"].items():
        if len(v) <= 40:
            cov.setdefault("distinct_observed_values", {})[k] = sorted(v)
    if extra:
        cov.update(extra)
    ev = {
        "property_id": pid, "tier": tier, "seed": int(seed), "level": mod.LEVEL,
        "coverage": cov, "assumptions": list(getattr(mod, "ASSUMPTIONS", [])),
        "wall_s": round(wall, 2),
        "violations": int(agg["verdicts"].get("violated", 0)),
    }
    d = os.path.join(HERE, "evidence")
    os.makedirs(d, exist_ok=True)
    tmp = os.path.join(d, ".%s.json.%d.tmp" % (pid, os.getpid()))
    with open(tmp, "w") as f:
        json.dump(ev, f, indent=1, default=repr)
    os.replace(tmp, os.path.join(d, pid + ".json"))


def run_pytest_workload(mod, tier, seed, files, tmpd, timeout):
    """The repository's own tests as a workload, monitors attached (mechanism B)."""
    out = os.path.join(tmpd, "pytest.json")
    env = dict(os.environ)
    env.update({GUARD: "1", "VMON_PROP": mod.ID, "VMON_OUT": out, "VMON_TIER": tier,
                "VERIF_SEED": str(seed), "PYTHONHASHSEED": "0",
                "PYTHONPATH": os.path.join(REPO, "src") + os.pathsep + HERE})
    cmd = [sys.executable, "-m", "pytest", "-q", "-p", "no:cacheprovider", "-p", "vmon.pytest_plugin",
           "-W", "ignore", "--timeout=900"] + list(files) + list(getattr(mod, "PYTEST_ARGS", []))
    try:
        with open(os.path.join(tmpd, "pytest.log"), "w") as lf:
            subprocess.run(cmd, cwd=REPO, env=env, stdout=lf, stderr=lf, timeout=timeout)
    except subprocess.TimeoutExpired:
        return None, "watchdog"
    if not os.path.exists(out):
        with open(os.path.join(tmpd, "pytest.log")) as f:
            return None, "no result: " + f.read()[-800:]
    with open(out) as f:
        return json.load(f), ""


_PIPE_BROKEN = [False]


def _out(line):
    """print that survives `./check ... | head` (the exit status must not depend on the reader)."""
    if _PIPE_BROKEN[0]:
        return
    try:
        print(line)
        sys.stdout.flush()
    except BrokenPipeError:
        _PIPE_BROKEN[0] = True
        try:
            sys.stdout = open(os.devnull, "w")
        except Exception:
            pass


def acquire_run_slot(nslots=3):
    """At most `nslots` check runs at a time on this machine (several agents share it);
    waiting happens before the watchdog clock starts.  VMON_NO_SLOTS=1 disables."""
    if os.environ.get("VMON_NO_SLOTS") == "1":
        return None
    import fcntl

    d = os.path.join(tempfile.gettempdir(), "vmon-slots")
    os.makedirs(d, exist_ok=True)
    t0 = time.time()
    while time.time() - t0 < 6 * 3600:
        for i in range(nslots):
            f = open(os.path.join(d, "slot%d" % i), "w")
            try:
                fcntl.flock(f, fcntl.LOCK_EX | fcntl.LOCK_NB)
                return f
            except OSError:
                f.close()
        time.sleep(2.0)
    return None


def run_check(pid, tier, seed, ncases=None, nshards=None):
    _slot = acquire_run_slot()
    mod = load_mod(pid)
    budget = mod.BUDGET[tier]
    nshards = nshards or budget.get("shards", 1)
    timeout = budget.get("timeout", 900)
    t0 = time.time()
    tmpd = tempfile.mkdtemp(prefix="vmon-%s-" % pid)
    env = dict(os.environ)
    env[GUARD] = "1"
    env["PYTHONHASHSEED"] = "0"
    procs = []
    for s in range(nshards):
        out = os.path.join(tmpd, "shard%d.json" % s)
        cmd = [sys.executable, "-m", "vmon.cli", pid, "--tier", tier, "--shard",
               "%d/%d" % (s, nshards), "--out", out, "--seed", str(seed)]
        if ncases is not None:
            cmd += ["--cases", str(ncases)]
        errf = open(os.path.join(tmpd, "shard%d.err" % s), "w")
        procs.append((s, out, errf, subprocess.Popen(cmd, env=env, stdout=errf, stderr=errf, cwd=HERE)))
    results, inconclusive = [], []
    for s, out, errf, p in procs:
        left = max(1.0, timeout - (time.time() - t0))
        try:
            rc = p.wait(timeout=left)
        except subprocess.TimeoutExpired:
            p.kill()
            p.wait()
            rc = None
            inconclusive.append("shard %d: watchdog after %ds" % (s, timeout))
        errf.close()
        if os.path.exists(out):
            with open(out) as f:
                results.append(json.load(f))
        elif rc is not None:
            with open(errf.name) as f:
                tail = f.read()[-1500:]
            inconclusive.append("shard %d exited %s without result: %s" % (s, rc, tail))
    pt = getattr(mod, "PYTEST_FILES", None)
    if pt and (tier == "thorough" or getattr(mod, "PYTEST_QUICK", False)) and ncases is None:
        r, why = run_pytest_workload(mod, tier, seed, pt, tmpd, max(60.0, timeout - (time.time() - t0)))
        if r is not None:
            r.setdefault("stats", {})["repo_tests_exit_%s" % r.get("pytest_exitstatus")] = 1
            results.append(r)
        else:
            inconclusive.append("repo-test workload: " + why)
    agg = merge(results)
    shutil.rmtree(tmpd, ignore_errors=True)
    for st in agg["stopped"]:
        if st != "max violations":
            agg["notes"].append("shard stopped: " + st)
    if hasattr(mod, "post"):
        # offline checker over merged observations (may add violations / notes)
        mod.post(agg, tier)
    if ncases is None:
        inconclusive.extend(check_floors(mod, tier, agg))
    else:
        agg["notes"].append("reduced run (--cases): coverage floors not applied")
    wall = time.time() - t0
    write_evidence(mod, tier, seed, agg, wall, inconclusive)
    # ---- report
    v = agg["verdicts"]
    _out("%s tier=%s seed=%s cases=%d held=%d ambiguous=%d ood=%d known=%d violated=%d distinct_nontrivial=%d wall=%.1fs" % (
        pid, tier, seed, sum(v.values()), v.get("held", 0), v.get("ambiguous", 0),
        v.get("ood", 0), v.get("known", 0), v.get("violated", 0), len(agg["hashes"]), wall))
    _out("  monitored entry points: " + ", ".join("%s=%d" % kv for kv in sorted(agg["events"].items()) if not kv[0].startswith("assert:")))
    _out("  assertions evaluated: %d over %d monitors" % (
        sum(n for k, n in agg["events"].items() if k.startswith("assert:")),
        sum(1 for k in agg["events"] if k.startswith("assert:"))))
    _out("  input classes: " + ", ".join("%s=%d" % kv for kv in sorted(agg["classes"].items())))
    if agg["sets"]:
        _out("  distinct observed: " + ", ".join("%s=%d" % (k, len(s)) for k, s in sorted(agg["sets"].items())))
    for n in agg["notes"][:10]:
        _out("  note: " + n)
    known_entries = {e["id"]: e for e in load_known(pid)}
    for kid, n in sorted(agg["known"].items()):
        e = known_entries.get(kid, {})
        _out("KNOWN-FINDING: property=%s %s [%s, matched %d cases]" % (pid, e.get("what", kid), kid, n))
    if agg["violations"]:
        for n, vrec in enumerate(agg["violations"]):
            path = write_replay(vrec)
            if n < 12:
                _out("VIOLATION property=%s replay=%s monitor=%s" % (pid, os.path.relpath(path, HERE), vrec["monitor"]))
        return 1
    if v.get("violated", 0):
        _out("VIOLATION property=%s replay=none" % pid)
        return 1
    if inconclusive:
        for m in inconclusive:
            _out("INCONCLUSIVE property=%s reason=%s" % (pid, m))
        return 2
    return 0


def run_replay(pid, path):
    setup_paths()
    mod = load_mod(pid)
    with open(path) as f:
        vrec = json.load(f)
    case = vrec.get("case", vrec)
    mon = Monitor(pid, vrec.get("tier", "quick"), vrec.get("seed", 0))
    if hasattr(mod, "setup"):
        mon_setup = mod.setup(mon)
    v = mon.run_case(mod, case, "replay")
    if hasattr(mod, "teardown"):
        mod.teardown(mon)
    if v is None:
        print("replay: case %s (verdicts %s)" % ("held", dict(mon.verdicts)))
        return 0
    if mon.known:
        kid = list(mon.known)[0]
        print("KNOWN-FINDING: property=%s %s" % (pid, kid))
        print(json.dumps(v["details"], indent=1)[:3000])
        return 0
    print("VIOLATION property=%s replay=%s monitor=%s" % (pid, path, v["monitor"]))
    print(json.dumps(v["details"], indent=1)[:4000])
    return 1
