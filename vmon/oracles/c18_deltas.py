"""Float64 definition of delta features (C18).

The time axis is extended by order*width on both sides with the chosen padding,
then the regression

    x_u[t] = sum_{w=-width..width} w * x_{u-1}[t + w] / sum_w w^2

is applied `order` times, each time only where the whole window exists (so the
sequence shrinks by `width` on both sides per application).  The order-u deltas
are the centre T frames of the u-th sequence.  Orders are then laid out along
`dim` by stacking (new axis) or concatenation (blocks x_0, x_1, ...).

Plain NumPy; never imports the library under test.
"""
import numpy as np

NP_MODE = {"replicate": "edge", "constant": "constant", "reflect": "reflect", "circular": "wrap"}


def pad_time(x, pad, mode, value):
    """x: (..., T) float64, padded along the last axis."""
    widths = [(0, 0)] * (x.ndim - 1) + [(pad, pad)]
    if pad == 0:
        return x
    if mode == "constant":
        return np.pad(x, widths, mode="constant", constant_values=value)
    return np.pad(x, widths, mode=NP_MODE[mode])


def regress(x, width):
    """One application of the regression along the last axis, valid windows only."""
    L = x.shape[-1]
    out_len = L - 2 * width
    denom = float(sum(w * w for w in range(-width, width + 1)))
    out = np.zeros(x.shape[:-1] + (out_len,), dtype=np.float64)
    for t in range(out_len):
        c = t + width
        acc = np.zeros(x.shape[:-1], dtype=np.float64)
        for w in range(-width, width + 1):
            acc = acc + w * x[..., c + w]
        out[..., t] = acc / denom
    return out


def deltas_by_order(x, time_dim, order, width, mode, value):
    """List [x_0, ..., x_order], each of the shape of x."""
    x = np.asarray(x, dtype=np.float64)
    xt = np.moveaxis(x, time_dim, -1)
    T = xt.shape[-1]
    cur = pad_time(xt, order * width, mode, value)
    outs = []
    for u in range(order + 1):
        if u:
            cur = regress(cur, width)
        off = (cur.shape[-1] - T) // 2
        assert cur.shape[-1] - T == 2 * (order - u) * width
        outs.append(np.moveaxis(cur[..., off:off + T], -1, time_dim))
    return outs


def feat_deltas(x, dim, time_dim, concatenate, order, width, mode, value):
    x = np.asarray(x, dtype=np.float64)
    D = x.ndim
    time_dim = time_dim % D
    outs = deltas_by_order(x, time_dim, order, width, mode, value)
    if concatenate:
        return np.concatenate(outs, axis=dim % D)
    return np.stack(outs, axis=dim % (D + 1))


def expected_shape(shape, dim, concatenate, order):
    shape = list(shape)
    D = len(shape)
    if concatenate:
        shape[dim % D] *= order + 1
        return shape
    d = dim % (D + 1)
    return shape[:d] + [order + 1] + shape[d:]
