"""Reference model for C06: Katz back-off evaluated directly on the user's dictionaries,
and a writer of ARPA text.  Never imports the library under test, never builds a trie.

A *table* (JSON-able) is a list with one list per order; every entry is
``[key, logp, logb]`` with ``key`` a list of token ids (earliest token first), ``logp`` a
float or the string "-inf", ``logb`` a float (ignored for the highest order).
"""
import math

NEG_INF = float("-inf")


def num(x):
    """JSON form -> float ("-inf" is spelled as a string in cases)."""
    if isinstance(x, str):
        return float(x)
    return float(x)


def to_dicts(table):
    """The prob_dicts the *user* hands to the model: unigram keys are ids, higher orders
    are tuples, values are (logp, logb) except for the highest order (logp only)."""
    N = len(table)
    out = []
    for n, level in enumerate(table):
        d = {}
        for key, lp, lb in level:
            k = int(key[0]) if n == 0 else tuple(int(t) for t in key)
            d[k] = num(lp) if n == N - 1 else (num(lp), num(lb))
        out.append(d)
    return out


class Katz:
    """Back-off recursion on the dictionaries.

    value(ngram) = listed logp                      if ngram is listed with a finite logp
                 = backoff(ngram[:-1]) + value(ngram[1:])   otherwise  (n > 1)
                 = -inf                                      otherwise  (n == 1)
    backoff(ctx) = listed logb of ctx, 0 if ctx is not listed.
    """

    def __init__(self, dicts):
        self.d = dicts
        self.N = len(dicts)
        self.hit = [0] * (self.N + 1)  # answers found at order n (0: unigram missing too)
        self.steps = [0] * (self.N + 1)  # answers that needed k back-off steps
        self.nonzero_backoffs = 0

    def _get(self, seq):
        n = len(seq)
        return self.d[n - 1].get(seq[0] if n == 1 else seq)

    def backoff(self, ctx):
        ent = self._get(ctx)
        if ent is None:
            return 0.0
        b = float(ent[1])
        if b != 0.0:
            self.nonzero_backoffs += 1
        return b

    def value(self, ngram, _k=0):
        n = len(ngram)
        ent = self._get(ngram)
        if ent is not None:
            lp = float(ent) if n == self.N else float(ent[0])
            if math.isfinite(lp):
                self.hit[n] += 1
                self.steps[_k] += 1
                return lp
        if n == 1:
            self.hit[0] += 1
            self.steps[_k] += 1
            return NEG_INF
        return self.backoff(ngram[:-1]) + self.value(ngram[1:], _k + 1)

    def next_token(self, prefix, sos, V):
        """log P(v | prefix) for v in 0..V-1; prefix left-padded with sos to N-1 tokens."""
        c = self.N - 1
        ctx = tuple(([sos] * c + [int(t) for t in prefix])[-c:]) if c else ()
        return [self.value(ctx + (v,)) for v in range(V)]

    def full(self, seq, sos, V):
        """(T+1) x V: distribution over the token at position t given seq[:t]."""
        return [self.next_token(seq[:t], sos, V) for t in range(len(seq) + 1)]


# --------------------------------------------------------------------------
# ARPA writer


def fmt_number(x, style):
    """Text of a base-10 number in one of the spellings ARPA tools emit.  The exponent of
    the scientific form is always negative or absent ("1.5e-03", "2E-1")."""
    x = float(x)
    if style == "fixed":
        return "%.6f" % x
    if style == "short":
        return "%.3f" % x
    if style == "repr":
        s = repr(x)
        return s if "e+" not in s else "%.6f" % x
    if style == "int":
        return "%d" % round(x)
    if style in ("sci", "SCI"):
        if x == 0 or abs(x) >= 1:
            return "%.6f" % x
        s = "%.4e" % x
        return s.upper() if style == "SCI" else s
    raise ValueError(style)


def write_arpa(table, names, rng, explicit_backoffs=True, hostile=True):
    """Emit `table` as ARPA text.

    names: id -> token string.  Returns (text, listed) where `listed` has one dict per
    order mapping the token-string key (str for unigrams, tuple of str above) to the
    numbers *as written in the text*: (float(logp_text), float(logb_text) or 0.0 if the
    back-off was left implicit), or float(logp_text) alone for the highest order.
    `rng` (random.Random) picks spellings, blank lines, separators and entry order.
    """
    N = len(table)
    styles = ["fixed", "short", "repr", "int", "sci", "SCI"]
    lines = []
    if hostile and rng.random() < 0.5:
        lines += ["this is a preamble the reader must skip", ""]
    lines.append("\\data\\")
    for n, level in enumerate(table):
        eq = rng.choice(["=", "=", " = ", "= "]) if hostile else "="
        lines.append("ngram %d%s%d" % (n + 1, eq, len(level)))
    lines.append("")
    listed = []
    for n, level in enumerate(table):
        if hostile and rng.random() < 0.3:
            lines.append("")
        lines.append("\\%d-grams:" % (n + 1))
        d = {}
        order = list(level)
        rng.shuffle(order)
        for key, lp, lb in order:
            toks = [names[int(t)] for t in key]
            lp_s = fmt_number(num(lp), rng.choice(styles))
            sep = rng.choice(["\t", " ", "  "]) if hostile else "\t"
            line = lp_s + sep + rng.choice([" ", "\t"] if hostile else [" "]).join(toks)
            k = toks[0] if n == 0 else tuple(toks)
            if n < N - 1:
                if explicit_backoffs or rng.random() < 0.5:
                    lb_s = fmt_number(num(lb), rng.choice(styles))
                    line += sep + lb_s
                    d[k] = (float(lp_s), float(lb_s))
                else:
                    d[k] = (float(lp_s), 0.0)
            else:
                d[k] = float(lp_s)
            if hostile and rng.random() < 0.15:
                line = "  " + line + " "
            lines.append(line)
            if hostile and rng.random() < 0.1:
                lines.append("")
        listed.append(d)
        if not hostile or rng.random() < 0.7:
            lines.append("")
    lines.append("\\end\\")
    if hostile and rng.random() < 0.5:
        lines.append("")
    return "\n".join(lines) + "\n", listed
