"""Stateless reference side of the instrumented language model (DESIGN 3/C04, C07).

Pure Python, never imports the library under test.  A *model spec* is a JSON-able dict

    {"V": vocab, "M": buckets, "seed": s, "kind": "random"|"peaky", "scale": x,
     "cbias": [[V floats] per conditioning class]}

from which a table of M x V dyadic logits is derived.  The next-token logits after the
history `seq` of the batch element with conditioning value `c` are

    table[H(c, seq) % M] + cbias[c % len(cbias)]

with H the rolling hash below.  `HashLM` (vmon/props/_hashlm.py) threads H through the
library's state dictionaries; this file evaluates the same function from scratch, which is
the scoring oracle, and contains the textbook beam search and the sequence enumerations.
"""
import math
import random

P = 2147483647  # 2**31 - 1
A = 1000003
C0, C1 = 7919, 12345


def h0(cond):
    return (int(cond) * C0 + C1) % P


def hstep(h, tok):
    return (h * A + int(tok) + 1) % P


def hash_of(cond, seq):
    h = h0(cond)
    for t in seq:
        h = hstep(h, t)
    return h


_TABLES = {}


def build_table(spec):
    """M x V nested list of dyadic logits (multiples of 1/64: exact in float32)."""
    key = (spec["V"], spec["M"], spec["seed"], spec["kind"], spec["scale"])
    tab = _TABLES.get(key)
    if tab is not None:
        return tab
    rng = random.Random("hashlm/%r" % (key,))
    V, M, scale = spec["V"], spec["M"], spec["scale"]
    tab = []
    for _ in range(M):
        row = [round(rng.gauss(0.0, scale) * 64) / 64 for _ in range(V)]
        if spec["kind"] == "peaky":
            # one token with probability ~ 1
            row[rng.randrange(V)] += 12.0
        elif spec["kind"] == "very_peaky":
            # ... the others with log-probability around -70: tiny but finite, nothing may clamp or drop them
            row[rng.randrange(V)] += 70.0
        tab.append(row)
    if len(_TABLES) > 64:
        _TABLES.clear()
    _TABLES[key] = tab
    return tab


def log_softmax(row):
    m = max(row)
    z = m + math.log(sum(math.exp(x - m) for x in row))
    return [x - z for x in row]


class Evaluator:
    """Stateless evaluator of a spec: everything recomputed from (cond, seq)."""

    def __init__(self, spec):
        self.spec = spec
        self.V = spec["V"]
        self.M = spec["M"]
        self.table = build_table(spec)
        self.cbias = spec.get("cbias") or [[0.0] * self.V]
        self._memo = {}

    def logits(self, cond, seq):
        h = hash_of(cond, seq)
        row = self.table[h % self.M]
        b = self.cbias[int(cond) % len(self.cbias)]
        return [x + y for x, y in zip(row, b)]

    def next_log_probs(self, cond, seq):
        key = (int(cond), tuple(seq))
        lp = self._memo.get(key)
        if lp is None:
            lp = log_softmax(self.logits(cond, seq))
            if len(self._memo) > 200000:
                self._memo.clear()
            self._memo[key] = lp
        return lp

    def chain(self, cond, seq):
        """log P(seq) = sum_s log P(seq[s] | seq[:s])"""
        tot = 0.0
        seq = tuple(int(t) for t in seq)
        for s, tok in enumerate(seq):
            tot += self.next_log_probs(cond, seq[:s])[tok]
        return tot


def complete_sequences(V, eos, T):
    """All sequences that are complete after at most T steps: ending with their first eos
    at length <= T, or of length T without eos (eos None: all of length T)."""
    out = []
    frontier = [()]
    for _ in range(T):
        nxt = []
        for p in frontier:
            for v in range(V):
                q = p + (v,)
                if eos is not None and v == eos:
                    out.append(q)
                else:
                    nxt.append(q)
        frontier = nxt
    out.extend(frontier)
    return out


def n_complete(V, eos, T):
    if eos is None:
        return V ** T
    return sum((V - 1) ** (l - 1) for l in range(1, T + 1)) + (V - 1) ** T


def textbook_beam_search(next_lp, V, width, eos, finish_all, max_iters):
    """Dictionary beam search.  `next_lp(path) -> list of V log-probabilities`.

    Returns (beam as list of (path, score) best first, steps taken, tie flag, done) where
    `done` tells that the search stopped by its own criterion before the step limit.
    Finished paths (ending with eos) are carried over unchanged.  The search for the element
    stops when its best path (or, finish_all, every path) is finished, or after max_iters
    steps.  `tie` is set when the float32 implementation may legitimately answer differently:
    two candidates closer than 4e-5 (relative) at the pruning boundary of some step or, when
    the best path decides termination, at the head of the beam.
    """
    beam = [((), 0.0)]
    tie, done, steps = False, False, 0

    def eps(a):
        return 4e-5 * max(1.0, abs(a))

    for t in range(max_iters):
        if eos is not None and t:
            fin = [len(p) > 0 and p[-1] == eos for p, _ in beam]
            if all(fin) if finish_all else fin[0]:
                done = True
                break
        cand = {}
        for p, s in beam:
            if eos is not None and len(p) > 0 and p[-1] == eos:
                cand[p] = s
                continue
            lp = next_lp(p)
            for v in range(V):
                cand[p + (v,)] = s + lp[v]
        ranked = sorted(cand.items(), key=lambda kv: (-kv[1], kv[0]))
        if len(ranked) > width and abs(ranked[width - 1][1] - ranked[width][1]) <= eps(ranked[width][1]):
            tie = True
        if eos is not None and not finish_all and len(ranked) > 1 and width > 1 \
                and abs(ranked[0][1] - ranked[1][1]) <= eps(ranked[0][1]):
            tie = True
        beam = ranked[:width]
        steps = t + 1
    return beam, steps, tie, done
