"""Oracles for C03 (optimal-completion targets).  Nothing here imports the library under test.

* `targets_by_prefix`       - table oracle: for every prefix of the hypothesis, the reference tokens
                              ref[j] (j < |ref|) at which the prefix's row of the distance table
                              attains the row minimum (one table for all prefixes);
* `brute_targets_by_prefix` - definitional oracle: best(p) = min over ALL completions s with
                              |s| <= |ref|+1 over (tokens of ref + one token foreign to ref) of
                              d(ref, p.s); token t is a target iff best(p.t) == best(p).  No property
                              of the table is presupposed: completions are walked exhaustively, the
                              distance of every completed string is computed by the textbook
                              recurrence (carried incrementally along the walk).
"""
from fractions import Fraction

from . import lev


def targets_by_prefix(ref, hyp, ins, dl, sub):
    D = lev.table(ref, hyp, ins, dl, sub)
    out = []
    for k in range(len(hyp) + 1):
        row = D[k]
        m = min(row)
        out.append({ref[j] for j in range(len(ref)) if row[j] == m})
    return out


def _scaled(costs):
    """Dyadic costs as integers (x4) for speed; Fractions otherwise."""
    fr = [Fraction(c) for c in costs]
    if all(f.denominator in (1, 2, 4) for f in fr):
        return [int(f * 4) for f in fr]
    return fr


def brute_work(ref, hyp, ncand):
    """Rough number of table-cell updates brute_targets_by_prefix would perform."""
    A = len(set(ref)) + 1
    nodes = sum(A ** L for L in range(len(ref) + 2))
    return nodes * (len(ref) + 1) * (len(hyp) + 1) * (ncand + 1)


def brute_targets_by_prefix(ref, hyp, ins, dl, sub, foreign):
    ref = list(ref)
    R = len(ref)
    ins, dl, sub = _scaled((ins, dl, sub))
    alphabet = sorted(set(ref)) + [foreign]
    cands = sorted(set(ref) | set(hyp)) + [foreign]
    maxlen = R + 1

    def extend(row, t):
        new = [row[0] + ins] + [0] * R
        for j in range(1, R + 1):
            a = row[j] + ins
            b = new[j - 1] + dl
            c = row[j - 1] + (0 if ref[j - 1] == t else sub)
            new[j] = min(a, b, c)
        return new

    def best(row, depth):
        # min over all completions of length <= depth of the distance of the completed string
        b = row[R]
        if depth == 0:
            return b
        for t in alphabet:
            v = best(extend(row, t), depth - 1)
            if v < b:
                b = v
        return b

    row = [j * dl for j in range(R + 1)]
    out = []
    for k in range(len(hyp) + 1):
        b0 = best(row, maxlen)
        out.append({t for t in cands if best(extend(row, t), maxlen) == b0})
        if k < len(hyp):
            row = extend(row, hyp[k])
    return out
