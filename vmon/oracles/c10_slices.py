"""Reference model for C10, written from the *prose* of the SliceSpectData and
ChunkTokenSequencesBySlices docstrings (not from the library's arange/mask
arithmetic).  Plain Python over lists, one sequence at a time, loops and
dictionaries only; never imports the library under test (nor torch).

Vocabulary
    window      (start, end): start inclusive, end exclusive, may leave [0, length)
    triple      (token, start, end) of a reference sequence
    reading     where the documentation is silent or self-contradictory the oracle
                enumerates the admissible readings; a result is accepted if it equals
                the oracle under ONE reading used consistently for the whole call.
"""

WINDOW_TYPES = ("symmetric", "causal", "future")
POLICIES = ("fixed", "ali", "ref")
KEEP, DROP, EITHER = "keep", "drop", "either"


# --------------------------------------------------------------------------
# policy "fixed"


def fixed_windows(length, window_type, valid_only, lobe):
    """Windows at intervals of lobe+1 over one sequence of `length` frames."""
    step = lobe + 1
    size = 1 + 2 * lobe if window_type == "symmetric" else 1 + lobe
    out = []
    if valid_only:
        # "slices start at index 0 and as many slices as can be fit fully within the
        # sequences are returned"
        start = 0
        while start + size <= length:
            out.append((start, start + size))
            start += step
        return out
    # not valid_only: first offset and "middle" index depend on the window type; a slice is
    # kept while its middle index lies before the end of the sequence
    if window_type == "symmetric":
        start = (lobe + 1) // 2 - size // 2
    elif window_type == "causal":
        start = -lobe
    else:
        start = 0
    while _middle(start, size, window_type) < length:
        out.append((start, start + size))
        start += step
    return out


def _middle(start, size, window_type):
    if window_type == "symmetric":
        return start + size // 2
    if window_type == "causal":
        return start + size - 1  # the last index of the window
    return start  # future: the first


# --------------------------------------------------------------------------
# policy "ali"


def runs(labels):
    """Partition induced by per-frame labels: a segment starts at t iff t == 0 or
    labels[t-1] != labels[t]."""
    segs = []
    for t, lab in enumerate(labels):
        if t == 0 or labels[t - 1] != lab:
            segs.append([t, t + 1])
        else:
            segs[-1][1] = t + 1
    return [tuple(s) for s in segs]


def ali_windows(labels, window_type, valid_only, lobe):
    """`labels`: the labels of one sequence *within its length*."""
    segs = runs(labels)
    last = len(segs) - 1
    out = []
    for m in range(len(segs)):
        lo = m - lobe if window_type in ("symmetric", "causal") else m
        hi = m + lobe if window_type in ("symmetric", "future") else m
        if lo < 0 or hi > last:
            if valid_only:
                continue  # a needed neighbour does not exist: thrown out
            lo, hi = max(lo, 0), min(hi, last)  # furthest existing segment
        out.append((segs[lo][0], segs[hi][1]))
    return out


# --------------------------------------------------------------------------
# policy "ref"

BOUND_READINGS = ("given", "none", "final-end", "max-end")


def ref_bound(triples, reading):
    """The frame bound used when `other_lens` is omitted (documentation silent)."""
    if reading == "none":
        return None
    if reading == "final-end":
        return triples[-1][2] if triples else 0
    if reading == "max-end":
        ends = [e for (_, s, e) in triples if s >= 0 and e >= 0]
        return max(ends) if ends else 0
    raise ValueError(reading)


def ref_windows(triples, window_type, valid_only, lobe, bound, at_bound_is_after=True):
    """`triples`: the triples of one sequence with index < in_lens.  `bound`: other_lens
    (None = unbounded).  `at_bound_is_after`: does a window starting exactly at the bound
    "begin after other_lens" (the sentence admits both)."""
    out = []
    for (_, s, e) in triples:
        if s < 0 or e < 0:
            continue  # missing segment information
        if window_type in ("symmetric", "causal"):
            s -= lobe
        if window_type in ("symmetric", "future"):
            e += lobe
        if s >= e:
            continue  # no empty or invalid slices
        if valid_only:
            if s < 0:
                continue
            if bound is not None and e > bound:
                continue
        else:
            if e <= 0:
                continue
            if bound is not None:
                if s > bound or (s == bound and at_bound_is_after):
                    continue
        out.append((s, e))
    return out


# --------------------------------------------------------------------------
# whole batch, all admissible readings


def batch_readings(policy, seqs, window_type, valid_only, lobe, bounds=None):
    """`seqs[n]`: length (fixed) / in-range labels (ali) / in-range triples (ref).
    `bounds`: list of other_lens for "ref" or None when omitted.
    Returns {reading-name: (windows, sources)} (distinct results only get distinct names kept)."""
    out = {}
    if policy == "fixed":
        per = [fixed_windows(L, window_type, valid_only, lobe) for L in seqs]
        out["prose"] = _flatten(per)
    elif policy == "ali":
        per = [ali_windows(lab, window_type, valid_only, lobe) for lab in seqs]
        out["prose"] = _flatten(per)
    elif policy == "ref":
        kinds = ("given",) if bounds is not None else BOUND_READINGS[1:]
        for kind in kinds:
            for after in (True, False):
                per = []
                for n, tr in enumerate(seqs):
                    b = bounds[n] if kind == "given" else ref_bound(tr, kind)
                    per.append(ref_windows(tr, window_type, valid_only, lobe, b, after))
                out["%s/%s" % (kind, "at-bound-dropped" if after else "at-bound-kept")] = _flatten(per)
    else:
        raise ValueError(policy)
    return out


def _flatten(per):
    windows, sources = [], []
    for n, ws in enumerate(per):
        for w in ws:
            windows.append([w[0], w[1]])
            sources.append(n)
    return windows, sources


# --------------------------------------------------------------------------
# token chunking


def token_status(s, e, ws, we, partial):
    """Must a token with boundaries (s, e) be kept for the slice [ws, we)?"""
    if s < 0 or e < 0:
        return DROP  # missing boundary: automatically excluded
    if s > e:
        return EITHER  # inverted segment: malformed, documentation silent
    if not partial:
        return KEEP if (ws <= s and e <= we) else DROP  # contained within
    if ws >= we:
        return EITHER  # what overlaps an empty slice is undefined
    if s == e:
        # an empty segment: strictly inside is in the slice under every reading, outside under
        # none; sitting on a slice edge it is "contained" but has no overlap
        if ws < s < we:
            return KEEP
        return EITHER if (s == ws or s == we) else DROP
    return KEEP if (ws < e and s < we) else DROP  # intersection of positive length


def token_chunk(triples, window, partial, retain, shift_sign=-1):
    """Candidates [(status, [tok, s', e'])] of one sequence (triples with index < ref_lens), in
    order.  Boundaries become offsets from the slice start unless `retain`.  `shift_sign=+1`
    models the *defective* mechanism D4 (slice start added) for the known-finding classifier."""
    ws, we = window
    out = []
    for (tok, s, e) in triples:
        st = token_status(s, e, ws, we, partial)
        if st == DROP:
            continue
        if retain:
            out.append((st, [tok, s, e]))
        else:
            out.append((st, [tok, s + shift_sign * ws, e + shift_sign * ws]))
    return out


def explains(cands, observed, key=lambda item: item):
    """Is `observed` obtainable from `cands` by keeping every KEEP, any subset of the EITHER,
    nothing else, in order?  (`key` maps an item to what is compared.)"""
    cands = [(st, key(it)) for st, it in cands]
    observed = [key(o) for o in observed]
    memo = {}

    def go(i, j):
        if (i, j) in memo:
            return memo[(i, j)]
        if i == len(cands):
            r = j == len(observed)
        else:
            st, it = cands[i]
            r = False
            if j < len(observed) and observed[j] == it:
                r = go(i + 1, j + 1)
            if not r and st == EITHER:
                r = go(i + 1, j)
        memo[(i, j)] = r
        return r

    return go(0, 0)


def canonical(cands):
    """The chunk when every optional token is dropped (for display)."""
    return [it for st, it in cands if st == KEEP]


# --------------------------------------------------------------------------
# restriction of a frame sequence to a window (directory level)


class PadOutOfScope(Exception):
    pass


def restrict(frames, window, mode, value):
    """frames[t] for t in the window; positions outside [0, len) are filled per `mode`
    (None = must not happen: valid-only)."""
    L = len(frames)
    out = []
    for t in range(window[0], window[1]):
        if 0 <= t < L:
            out.append(("in", frames[t]))
        elif mode == "constant":
            out.append(("pad", value))
        elif mode == "replicate":
            if L == 0:
                raise PadOutOfScope("replicate on empty sequence")
            out.append(("padf", frames[0] if t < 0 else frames[L - 1]))
        elif mode == "reflect":
            u = -t if t < 0 else 2 * (L - 1) - t
            if not 0 <= u < L:
                raise PadOutOfScope("reflection longer than the sequence")
            out.append(("padf", frames[u]))
        else:
            raise PadOutOfScope("window leaves the sequence without a pad mode")
    return out


def max_pad(window, length):
    return max(0, -window[0], window[1] - length)
