"""Analytic oracle for the three-knot 1-D warp grid of SpecAugment (C08).

`warp_1d_grid(src, flow, lengths, T, order)` describes, per batch row, a map
"output frame -> input position" that is pinned at the first and last valid
frame and sends the destination `clamp(src + flow)` to the source `clamp(src)`.
For interpolation order 1 the polyharmonic spline through three distinct knots
*is* the piecewise-linear interpolant inside the hull of the knots (a function
sum_i w_i |x - c_i| + v_1 x + v_0 has kinks only at the knots), and, because of
the side conditions sum w = sum w c = 0, the chord through the two end knots
outside of it.  That is what is computed here, in float64, for one row.

Nothing here imports the library under test.  The *positions* of the knots are
rounded to float32 exactly as documented in Warp1DGrid (normalised
grid_sample coordinates, align_corners=False, pinned ends moved outwards by
one float32 epsilon); the interpolation itself is exact float64 arithmetic.
"""
import numpy as np

F32 = np.float32
EPS32 = float(np.finfo(np.float32).eps)  # 2**-23


def to_px(x, T):
    """normalised grid_sample coordinate (align_corners=False) -> pixel index"""
    return ((float(x) + 1.0) * T - 1.0) / 2.0


def to_norm(p, T):
    return (2.0 * float(p) + 1.0) / T - 1.0


def clamped_pixels(src, flow, length):
    """(source pixel, destination pixel, raw destination) after the documented clamps,
    float64: both are held inside the valid frames [0, length-1]."""
    s = min(max(min(float(src), float(length) - 1.0), 0.0), float(length) - 1.0)
    raw = s + float(flow)
    d = max(min(raw, float(length) - 1.0), 0.0)
    return s, d, raw


def knots32(src, flow, length, T):
    """Knot positions (dst) and values (src) in normalised coordinates, each rounded
    to float32 the way a float32 implementation places them.  Returns two 3-tuples of
    python floats (exactly representable float32 values)."""
    T32 = F32(T)
    s = F32(src)
    L1 = F32(length) - F32(1)
    s = max(min(s, L1), F32(0))
    d = max(min(F32(s + F32(flow)), L1), F32(0))
    sn = F32(F32(F32(2.0) * s + F32(1.0)) / T32) - F32(1.0)
    dn = F32(F32(F32(2.0) * d + F32(1.0)) / T32) - F32(1.0)
    lo = F32(1.0 / T - 1.0 - EPS32)
    up = F32(F32(F32(F32(2) * F32(length) - F32(1)) / T32) - F32(1.0)) + F32(EPS32)
    up = F32(up)
    return (float(lo), float(dn), float(up)), (float(lo), float(sn), float(up))


def knots64(src, flow, length, T):
    """Same knots without any float32 rounding (used to bound the sensitivity)."""
    s, d, _ = clamped_pixels(src, flow, length)
    lo = 1.0 / T - 1.0 - EPS32
    up = (2.0 * float(length) - 1.0) / T - 1.0 + EPS32
    return (lo, to_norm(d, T), up), (lo, to_norm(s, T), up)


def pw_linear(kx, ky, x):
    """Order-1 three-knot spline at x: piecewise linear inside [kx0, kx2], the chord
    through the end knots outside.  Coincident neighbours: the segment is empty and
    the value at the shared abscissa is taken from the later knot pair (never queried
    in practice because the pinned ends are one epsilon outside the frames)."""
    x0, x1, x2 = kx
    y0, y1, y2 = ky
    if x < x0 or x > x2:
        if x2 == x0:
            return y0
        return y0 + (y2 - y0) * (x - x0) / (x2 - x0)
    if x <= x1 and x1 > x0:
        return y0 + (y1 - y0) * (x - x0) / (x1 - x0)
    if x2 > x1:
        return y1 + (y2 - y1) * (x - x1) / (x2 - x1)
    return y2


def frame_positions32(T):
    """normalised coordinate of every output frame, float32-rounded"""
    k = np.arange(T, dtype=np.float32)
    t = (F32(2.0) * k + F32(1.0)) / F32(T) - F32(1.0)
    return [float(v) for v in t.astype(np.float32)]


def analytic_row(src, flow, length, T, frames=None, f32_knots=True):
    """Pixel position read by every output frame 0..frames-1 (default: the valid
    frames) according to the exact three-knot piecewise-linear map."""
    kx, ky = (knots32 if f32_knots else knots64)(src, flow, length, T)
    n = int(length) if frames is None else int(frames)
    pos = frame_positions32(T) if f32_knots else [to_norm(k, T) for k in range(T)]
    return [to_px(pw_linear(kx, ky, pos[k]), T) for k in range(n)]


def endpoint_pull(src, flow, length, T):
    """How far (pixels) the exact map moves the first / last valid frame off itself.
    Non-zero only because the pinned end knots sit one epsilon *outside* the frames:
    a destination at distance delta from an end frame drags that frame by
    (distance source<->end) * e / (delta + e),  e = eps*T/2 pixels."""
    s, d, _ = clamped_pixels(src, flow, length)
    e = EPS32 * T / 2.0
    L1 = float(length) - 1.0
    first = s * e / (d + e)
    last = (L1 - s) * e / ((L1 - d) + e)
    return first, last


def destination_clamped(src, flow, length, T, tol=1e-4):
    """Was the drawn destination src+flow clamped onto the first / last valid frame, or does
    it lie so close to it that the eps-pinned end knot cannot be told apart from it?
    `tol` pixels (DESIGN: 1e-4), widened to the distance below which the pinned end knot,
    sitting e = eps*T/2 pixels outside the end frame, no longer holds that frame within half
    a pixel (see endpoint_pull: a pull of half a frame needs delta < 2 e |source - end|;
    this only exceeds `tol` for T of several hundred frames).
    Returns (at_first, at_last)."""
    s, d, raw = clamped_pixels(src, flow, length)
    e = EPS32 * T / 2.0
    L1 = float(length) - 1.0
    return (raw <= max(tol, 2.0 * e * s)), (raw >= L1 - max(tol, 2.0 * e * (L1 - s)))
