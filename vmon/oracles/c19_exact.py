"""Exact reference values for C19 (never imports the library under test).

* closed-form probabilities of the small discrete families, the exact expectation
  `sum_b P(b) f(b)` and its exact gradient (float64 autograd through the closed form);
* closed-form logistic / Gumbel densities and threshold probabilities;
* combinatorics through itertools / math.comb.

A *family* is (name, kind, shape information):

  bern_batch   Bernoulli with batch shape (d,), event shape ()  - d independent problems
  bern_indep   Independent(Bernoulli((d,)), 1)                    - one problem on {0,1}^d
  onehot       OneHotCategorical((V,))
  onehot_batch OneHotCategorical((B,V))                           - B independent problems
  cat          Categorical((V,))                                  - samples are indices
  binom        Binomial(n, scalar)                                - samples are counts 0..n

`kind` is "logits" or "probs" (the parametrisation the leaf tensor is handed to torch in).
The sample space `omega(...)` lists *joint* configurations in a fixed order; `joint_probs`
returns their probabilities as a differentiable function of the parameter tensor; `ftable`
turns the case's function table into F[omega, out] (out = number of independent problems).
"""
import itertools
import math

import torch

F64 = torch.float64


# --------------------------------------------------------------------------- sample spaces


def omega(family, shape):
    """Joint configurations as nested lists (what the proposal's `sample` returns per draw)."""
    if family in ("bern_batch", "bern_indep"):
        d = shape[0]
        return [[float(x) for x in w] for w in itertools.product([0, 1], repeat=d)]
    if family == "onehot":
        V = shape[0]
        return [[1.0 if j == k else 0.0 for j in range(V)] for k in range(V)]
    if family == "onehot_batch":
        B, V = shape
        rows = [[1.0 if j == k else 0.0 for j in range(V)] for k in range(V)]
        return [list(w) for w in itertools.product(rows, repeat=B)]
    if family == "cat":
        return list(range(shape[0]))
    if family == "binom":
        return [float(k) for k in range(shape[0] + 1)]
    raise ValueError(family)


def _bern_p(kind, theta):
    return torch.sigmoid(theta) if kind == "logits" else theta


def _cat_p(kind, theta):
    if kind == "logits":
        return torch.softmax(theta, -1)
    return theta / theta.sum(-1, keepdim=True)


def joint_probs(family, kind, shape, theta):
    """P(omega) for every joint configuration, shape (|Omega|,), differentiable in theta."""
    if family in ("bern_batch", "bern_indep"):
        p = _bern_p(kind, theta)
        out = []
        for w in itertools.product([0, 1], repeat=shape[0]):
            t = torch.ones((), dtype=theta.dtype)
            for i, o in enumerate(w):
                t = t * (p[i] if o else 1 - p[i])
            out.append(t)
        return torch.stack(out)
    if family in ("onehot", "cat"):
        return _cat_p(kind, theta)
    if family == "onehot_batch":
        B, V = shape
        p = _cat_p(kind, theta)
        out = []
        for w in itertools.product(range(V), repeat=B):
            t = torch.ones((), dtype=theta.dtype)
            for r, k in enumerate(w):
                t = t * p[r, k]
            out.append(t)
        return torch.stack(out)
    if family == "binom":
        n = shape[0]
        p = _bern_p(kind, theta)
        return torch.stack([math.comb(n, k) * p ** k * (1 - p) ** (n - k) for k in range(n + 1)])
    raise ValueError(family)


def n_out(family, shape):
    if family == "bern_batch":
        return shape[0]
    if family == "onehot_batch":
        return shape[0]
    return 1


def ftable(family, shape, table):
    """F[omega][out] from the case's table.

    bern_batch:   table[j] = [f_j(0), f_j(1)]
    bern_indep:   table[w] for w in product order
    onehot / cat: table[k]
    onehot_batch: table[r][k]
    binom:        table[k]
    """
    if family == "bern_batch":
        d = shape[0]
        return [[table[j][w[j]] for j in range(d)] for w in itertools.product([0, 1], repeat=d)]
    if family == "onehot_batch":
        B, V = shape
        return [[table[r][w[r]] for r in range(B)] for w in itertools.product(range(V), repeat=B)]
    return [[t] for t in table]


def expectation(family, kind, shape, theta_list, table, log_space=False):
    """(value[out], jacobian[out][*theta.shape], P[omega]) in float64."""
    theta = torch.tensor(theta_list, dtype=F64, requires_grad=True)
    P = joint_probs(family, kind, shape, theta)
    Fm = torch.tensor(ftable(family, shape, table), dtype=F64)
    if log_space:
        Fm = Fm.exp()
    val = P @ Fm
    jac = []
    for j in range(val.numel()):
        (g,) = torch.autograd.grad(val[j], theta, retain_graph=True)
        jac.append(g.clone())
    return val.detach(), jac, P.detach()


# --------------------------------------------------------------------------- relaxed closed forms


def logistic_log_density(logits, z):
    """log of the Logistic(location=logits, scale=1) density."""
    x = logits - z
    return x - 2 * torch.nn.functional.softplus(x)


def bernoulli_log_prob(logits, b):
    return torch.where(b > 0.5, torch.nn.functional.logsigmoid(logits),
                       torch.nn.functional.logsigmoid(-logits))


def gumbel_log_density(logp, z):
    """sum_j log Gumbel(location=log p_j, scale=1)(z_j)."""
    x = logp - z
    return (x - x.exp()).sum(-1)


def categorical_log_prob(logp, b):
    return (logp * b).sum(-1)


def lb_multilinear_expectation(p_list, tables):
    """E[f_j(b)] for independent Bernoulli(p_i); tables[j][w] in product order."""
    d = len(p_list)
    out = []
    for tab in tables:
        tot = 0.0
        for w, cfg in enumerate(itertools.product([0, 1], repeat=d)):
            pr = 1.0
            for i, o in enumerate(cfg):
                pr *= p_list[i] if o else 1.0 - p_list[i]
            tot += pr * tab[w]
        out.append(tot)
    return out


# --------------------------------------------------------------------------- combinatorics


def comb(n, k):
    if n < 0 or k < 0:
        raise ValueError
    return math.comb(n, k)


def binary_sequences(length):
    return set(itertools.product([0, 1], repeat=length))


def vocab_sequences(length, vocab):
    return set(itertools.product(range(vocab), repeat=length))


def binary_sequences_with_cardinality(length, count):
    return set(w for w in itertools.product([0, 1], repeat=length) if sum(w) == count)
