"""Definitions used as oracles for C07 (pure Python, never imports the library under test)."""
import itertools
import math


def log_softmax(row):
    m = max(row)
    if m == float("-inf"):
        return [float("nan")] * len(row)
    z = m + math.log(sum(math.exp(x - m) for x in row))
    return [x - z for x in row]


def seq_log_prob(logit_rows, tokens, eos, V, stop_at_eos=True):
    """sum_t log_softmax(logit_rows[t])[tokens[t]] over positions up to and including the
    first eos, skipping tokens outside [0, V)."""
    tot = 0.0
    for row, tok in zip(logit_rows, tokens):
        if 0 <= tok < V:
            tot += log_softmax(row)[tok]
        if stop_at_eos and eos is not None and tok == eos:
            break
    return tot


def nested_get(x, idx):
    for i in idx:
        x = x[i]
    return x


def tensor_seq_log_probs(logits, hyp, shape, dim, eos, V):
    """logits: nested list of shape `shape` + [V]; hyp nested list of shape `shape`.
    Returns a dict {index tuple without the sequence dim: value}."""
    T = shape[dim]
    others = [range(s) for i, s in enumerate(shape) if i != dim]
    out = {}
    for idx in itertools.product(*others):
        rows, toks = [], []
        for t in range(T):
            full = idx[:dim] + (t,) + idx[dim:]
            rows.append(nested_get(logits, full))
            toks.append(nested_get(hyp, full))
        out[idx] = seq_log_prob(rows, toks, eos, V)
    return out


def ctc_greedy(frames, blank, is_probs):
    """frames: list (valid length) of per-frame score lists.  Returns (score, tie-free path or
    None, list of per-frame sets of maximal labels)."""
    score = 1.0 if is_probs else 0.0
    best_sets = []
    for row in frames:
        m = max(row)
        best_sets.append([v for v, x in enumerate(row) if x == m])
        score = score * m if is_probs else score + m
    return score, best_sets


def collapse(labels, blank):
    out, prev = [], None
    for l in labels:
        if l != prev and l != blank:
            out.append(l)
        prev = l
    return out


def greedy_paths(best_sets, blank, cap=2048):
    """All reduced paths consistent with some choice among tied frame maxima (None if too many)."""
    n = 1
    for s in best_sets:
        n *= len(s)
        if n > cap:
            return None
    return {tuple(collapse(ch, blank)) for ch in itertools.product(*best_sets)}


def support_count(V, eos, T):
    if eos is None:
        return V ** T
    return sum((V - 1) ** l for l in range(T)) + (V - 1) ** T
