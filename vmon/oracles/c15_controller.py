"""Reference training controller, written from the sentences of property C15.

It does not import the library under test.  Where the implementation stores
count-downs per epoch and re-derives its reference epoch by index arithmetic
(`epoch - patience + countdown - 1`), this model simply *keeps* the reference
value:

  early stopping   burn-in epochs are skipped; afterwards an epoch FAILS iff the
                   validation metric does not undercut the reference value by
                   the threshold (`max(ref - val, 0) < threshold`); the reference
                   is the metric of the last epoch at which the count of
                   consecutive failures was zero; training stops iff the epoch
                   budget is reached or (threshold > 0 and) the failures reach
                   the patience.
  lr reduction     the same with its own burn-in/patience/threshold, plus a
                   cool-down after the criterion fires; when it fires (outside
                   burn-in and cool-down) the rate is multiplied by the factor
                   iff `old - new > 10**log10_eps`; otherwise the rate is
                   untouched.

`cfg` keys: num_epochs (int|None), es_threshold, es_patience, es_burnin,
rlr_threshold, rlr_patience, rlr_burnin, rlr_cooldown, factor, log10_eps.
"""
import math


class RefController:
    def __init__(self, cfg, lr0):
        self.c = cfg
        self.epoch = 0
        self.lr = lr0
        self.es_wait, self.es_fail, self.es_ref = cfg["es_burnin"], 0, math.inf
        self.rlr_wait, self.rlr_fail, self.rlr_ref = cfg["rlr_burnin"], 0, math.inf

    def step(self, val):
        c = self.c
        self.epoch += 1
        # ---- early stopping
        if self.es_wait > 0:
            self.es_wait -= 1
        elif max(self.es_ref - val, 0.0) < c["es_threshold"]:
            self.es_fail += 1
        else:
            self.es_fail = 0
        if self.es_fail == 0:
            self.es_ref = val
        # ---- learning-rate reduction
        fired = reduced = False
        margin = None
        if self.rlr_wait > 0:
            self.rlr_wait -= 1
        elif max(self.rlr_ref - val, 0.0) < c["rlr_threshold"]:
            self.rlr_fail += 1
            if self.rlr_fail >= c["rlr_patience"]:
                fired = True
                new = self.lr * c["factor"]
                margin = (self.lr - new, 10.0 ** c["log10_eps"])
                if self.lr - new > 10.0 ** c["log10_eps"]:
                    self.lr, reduced = new, True
                self.rlr_wait, self.rlr_fail = c["rlr_cooldown"], 0
        else:
            self.rlr_fail = 0
        if self.rlr_fail == 0:
            self.rlr_ref = val
        # ---- decision
        budget = c["num_epochs"] is not None and self.epoch >= c["num_epochs"]
        early = c["es_threshold"] > 0 and self.es_fail >= c["es_patience"]
        return {
            "epoch": self.epoch, "cont": not (budget or early), "budget": budget, "early": early,
            "lr": self.lr, "fired": fired, "reduced": reduced, "margin": margin,
            # the documented meaning of the stored count-downs (observation only)
            "es_resume_cd": self.es_wait, "es_patience_cd": c["es_patience"] - self.es_fail,
            "rlr_resume_cd": self.rlr_wait, "rlr_patience_cd": c["rlr_patience"] - self.rlr_fail,
        }


def run(cfg, lr0, vals):
    """Drive the reference over `vals` until it says stop; list of step records."""
    ref, out = RefController(cfg, lr0), []
    for v in vals:
        out.append(ref.step(v))
        if not out[-1]["cont"]:
            break
    return out


def best_epoch(vals, upto=None):
    """Earliest epoch (1-based) with the lowest metric among the first `upto`; 0 if none."""
    best, bv = 0, math.inf
    for e, v in enumerate(vals[: len(vals) if upto is None else upto], 1):
        if v < bv:
            best, bv = e, v
    return best


def five_digits_exact(x):
    """Is x exactly what the history file's 5-significant-digit format prints?"""
    return float("%.4e" % x) == x
