"""Oracles for C02 (error rate = number of edits of SOME minimum-cost alignment).

Plain Python over Fractions, one pair at a time; nothing here imports the
library under test.  Two independent constructions:

* `count_sets`   - dynamic programme whose cells carry (min cost, the exact SET of
                   edit counts realised by minimum-cost alignments of the two prefixes);
* `enumerate_optimal_counts` - no dynamic programme at all: walks every alignment
                   (every monotone path of insert / delete / match-or-substitute
                   steps), keeps those of minimum weighted cost and returns the set of
                   their edit counts.  Exponential; used on small pairs to monitor the
                   other oracles in every run.
"""
from fractions import Fraction


def count_sets(ref, hyp, ins, dl, sub):
    """T[k][j] = (c, S): c the minimum cost of aligning ref[:j] with hyp[:k], S the
    frozenset of numbers of edits (ins+del+sub) over all alignments of cost c."""
    ins, dl, sub = Fraction(ins), Fraction(dl), Fraction(sub)
    R, H = len(ref), len(hyp)
    T = [[None] * (R + 1) for _ in range(H + 1)]
    for j in range(R + 1):
        T[0][j] = (j * dl, frozenset([j]))
    for k in range(1, H + 1):
        T[k][0] = (k * ins, frozenset([k]))
        for j in range(1, R + 1):
            neq = 1 if ref[j - 1] != hyp[k - 1] else 0
            cands = (
                (T[k - 1][j][0] + ins, T[k - 1][j][1], 1),
                (T[k][j - 1][0] + dl, T[k][j - 1][1], 1),
                (T[k - 1][j - 1][0] + sub * neq, T[k - 1][j - 1][1], neq),
            )
            c = min(x[0] for x in cands)
            S = set()
            for cost, counts, step in cands:
                if cost == c:
                    S.update(n + step for n in counts)
            T[k][j] = (c, frozenset(S))
    return T


def enumerate_optimal_counts(ref, hyp, ins, dl, sub):
    """(min cost, set of edit counts of the min-cost alignments) by walking all
    alignments of ref with hyp.  Number of alignments is the Delannoy number
    D(|ref|, |hyp|): keep |ref|, |hyp| <= 5."""
    ins, dl, sub = Fraction(ins), Fraction(dl), Fraction(sub)
    R, H = len(ref), len(hyp)
    found = {}  # cost -> set of counts

    def walk(j, k, cost, n):
        if j == R and k == H:
            found.setdefault(cost, set()).add(n)
            return
        if k < H:  # hypothesis token without counterpart
            walk(j, k + 1, cost + ins, n + 1)
        if j < R:  # reference token without counterpart
            walk(j + 1, k, cost + dl, n + 1)
        if j < R and k < H:
            if ref[j] == hyp[k]:
                walk(j + 1, k + 1, cost, n)
            else:
                walk(j + 1, k + 1, cost + sub, n + 1)

    walk(0, 0, Fraction(0), 0)
    c = min(found)
    return c, frozenset(found[c])


def rate_set(counts, ref_len, hyp_len, norm):
    """The admissible error-rate values (as Fractions) of a pair (or of a hypothesis
    prefix of length hyp_len) given the admissible edit counts."""
    if not norm:
        return {Fraction(c) for c in counts}
    if ref_len == 0:
        return {Fraction(0) if hyp_len == 0 else Fraction(1)}
    return {Fraction(c, ref_len) for c in counts}
