"""Independent per-pair oracles for the string-matching properties (C01-C03).

Plain Python over fractions.Fraction, one pair at a time, fed with the pair's
*own* tokens.  Nothing here imports the library under test.
"""
from fractions import Fraction
from functools import lru_cache
from itertools import product


def seq_of(col, eos, include_eos):
    """The sequence a padded column denotes: tokens up to the first eos
    (exclusive; inclusive when include_eos and an eos is present); the whole
    column when eos is unset or absent."""
    col = list(col)
    if eos is None:
        return col
    for i, t in enumerate(col):
        if t == eos:
            return col[: i + 1] if include_eos else col[:i]
    return col


def trim_col(col, eos):
    """Column cut right after its first eos (no post-eos filler)."""
    col = list(col)
    if eos is None:
        return col
    for i, t in enumerate(col):
        if t == eos:
            return col[: i + 1]
    return col


def table(ref, hyp, ins, dl, sub):
    """D[k][j] = min cost of turning ref[:j] into hyp[:k].
    ins: cost of a hypothesis token with no reference counterpart;
    dl: cost of a reference token with no hypothesis counterpart."""
    ins, dl, sub = Fraction(ins), Fraction(dl), Fraction(sub)
    R, H = len(ref), len(hyp)
    D = [[None] * (R + 1) for _ in range(H + 1)]
    for j in range(R + 1):
        D[0][j] = j * dl
    for k in range(1, H + 1):
        D[k][0] = k * ins
        for j in range(1, R + 1):
            D[k][j] = min(
                D[k - 1][j] + ins,
                D[k][j - 1] + dl,
                D[k - 1][j - 1] + (0 if ref[j - 1] == hyp[k - 1] else sub),
            )
    return D


def table_counts(ref, hyp, ins, dl, sub):
    """Each cell: (min cost, fewest edits, most edits) among min-cost alignments
    of ref[:j] with hyp[:k]."""
    ins, dl, sub = Fraction(ins), Fraction(dl), Fraction(sub)
    R, H = len(ref), len(hyp)
    T = [[None] * (R + 1) for _ in range(H + 1)]
    for j in range(R + 1):
        T[0][j] = (j * dl, j, j)
    for k in range(1, H + 1):
        T[k][0] = (k * ins, k, k)
        for j in range(1, R + 1):
            neq = ref[j - 1] != hyp[k - 1]
            cands = [
                (T[k - 1][j][0] + ins, T[k - 1][j][1] + 1, T[k - 1][j][2] + 1),
                (T[k][j - 1][0] + dl, T[k][j - 1][1] + 1, T[k][j - 1][2] + 1),
                (
                    T[k - 1][j - 1][0] + (sub if neq else 0),
                    T[k - 1][j - 1][1] + (1 if neq else 0),
                    T[k - 1][j - 1][2] + (1 if neq else 0),
                ),
            ]
            c = min(x[0] for x in cands)
            best = [x for x in cands if x[0] == c]
            T[k][j] = (c, min(x[1] for x in best), max(x[2] for x in best))
    return T


def dist(ref, hyp, ins, dl, sub):
    return table(ref, hyp, ins, dl, sub)[len(hyp)][len(ref)]


# ---- optimal completion


def oc_targets_table(ref, prefix, ins, dl, sub):
    """Targets from the table: ref[j] for every j < |ref| at which the row of
    the prefix attains its minimum."""
    D = table(ref, prefix, ins, dl, sub)
    row = D[len(prefix)]
    m = min(row)
    return {ref[j] for j in range(len(ref)) if row[j] == m}


def oc_targets_brute(ref, prefix, alphabet, ins, dl, sub):
    """Definitional: best(p) = min over completions s (|s| <= |ref|+1, tokens
    from `alphabet`) of d(ref, p+s); t is a target iff best(p+[t]) == best(p)."""
    ref = tuple(ref)
    maxlen = len(ref) + 1

    def best(p):
        b = None
        for L in range(maxlen + 1):
            for s in product(alphabet, repeat=L):
                d = dist(ref, list(p) + list(s), ins, dl, sub)
                if b is None or d < b:
                    b = d
        return b

    b0 = best(tuple(prefix))
    out = set()
    for t in alphabet:
        if best(tuple(prefix) + (t,)) == b0:
            out.add(t)
    return out
