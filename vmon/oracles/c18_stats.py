"""Float64 definitions for mean-variance normalisation (C18).

Plain Python/NumPy; never imports the library under test.  Frames are pooled
per coefficient: every element of a tensor whose index along ``dim`` is ``i``
is one observation of coefficient ``i``.
"""
import math

import numpy as np

EPS64 = 2.220446049250313e-16
EPS32 = 1.1920928955078125e-07


def frames_of(arr, dim):
    """(X, n) float64 matrix of the observations of each coefficient in one array."""
    a = np.asarray(arr, dtype=np.float64)
    a = np.moveaxis(a, dim, 0)
    return a.reshape(a.shape[0], -1)


def pool(arrays, dim):
    """Observations of every coefficient over a list of arrays: (X, n_total)."""
    return np.concatenate([frames_of(a, dim) for a in arrays], axis=1)


def pooled_stats(obs, bessel=False):
    """Two-pass, exactly-summed mean and standard deviation of each row of `obs`.

    Returns (mean, std, sumsq_over_n) as lists of Python floats; std is None when
    the estimator is undefined (n - ddof < 1)."""
    X, n = obs.shape
    ddof = 1 if bessel else 0
    means, stds, msq = [], [], []
    for i in range(X):
        row = [float(v) for v in obs[i]]
        m = math.fsum(row) / n
        means.append(m)
        msq.append(math.fsum(v * v for v in row) / n)
        if n - ddof < 1:
            stds.append(None)
        else:
            ss = math.fsum((v - m) * (v - m) for v in row)
            stds.append(math.sqrt(ss / (n - ddof)))
    return means, stds, msq


def std_tolerance(std, msq, rel=1e-6, abs_=1e-9, ulps=64):
    """Allowed |std_observed - std|: `rel`*std + `abs_` plus the conditioning of the
    textbook formula sumsq/n - mean^2 evaluated in double precision: an error of
    `ulps` units in the last place of sumsq/n moves the variance by d, and sqrt by at
    most min(sqrt(d), d / std)."""
    d = ulps * EPS64 * msq
    cond = math.sqrt(d) if std <= 0 else min(math.sqrt(d), d / std)
    return rel * std + abs_ + cond


def normalise(arr, dim, mean, std, eps):
    """y = (x - mean[i]) / max(std[i], eps) in float64."""
    a = np.asarray(arr, dtype=np.float64)
    shape = [1] * a.ndim
    shape[dim] = a.shape[dim]
    m = np.asarray(mean, dtype=np.float64).reshape(shape)
    s = np.maximum(np.asarray(std, dtype=np.float64), eps).reshape(shape)
    with np.errstate(all="ignore"):
        return (a - m) / s


def y_tolerance(arr, dim, mean, std, eps, eps_dtype, rel=1e-5, abs_=1e-6, stat_tol=None):
    """Element-wise tolerance for y computed in the input's own precision: the subtraction
    x - mean is rounded to eps_dtype*(|x| + |mean|), the deviation is (when estimated from the
    centred input) off by the same relative amount, then comes the division.  `stat_tol`
    = (mean tolerances, std tolerances) adds what the statistics themselves may be off by."""
    a = np.abs(np.asarray(arr, dtype=np.float64))
    shape = [1] * a.ndim
    shape[dim] = a.shape[dim]
    m = np.abs(np.asarray(mean, dtype=np.float64)).reshape(shape)
    s = np.maximum(np.asarray(std, dtype=np.float64), eps).reshape(shape)
    y = np.abs(normalise(arr, dim, mean, std, eps))
    with np.errstate(all="ignore"):
        tol = 4 * eps_dtype * (a + m) / s * (1 + y) + rel * y + abs_
        if stat_tol is not None:
            tm = np.asarray(stat_tol[0], dtype=np.float64).reshape(shape)
            ts = np.asarray(stat_tol[1], dtype=np.float64).reshape(shape)
            tol = tol + tm / s + y * ts / s
    return tol
