"""Bound recomputation for SpecAugment draws and the masking reference (C08).

Plain Python (float64 / Fractions); nothing here imports the library under test.
"""
import math
from fractions import Fraction


def warp_window(max_warp, length):
    """W = min(max_warp, length/2): |shift| <= W and W <= centre <= length - W."""
    return min(float(max_warp), float(length) / 2.0)


def prop_cap_range(length, prop):
    """floor(length * prop) under every reading of the product: exact rational value of
    the float64 proportion, of its float32 rounding, and of the shortest decimal that
    prints as the proportion (0.29 * 100 'is' 29 although the double product is
    28.999999999999996).  Returns (lowest, highest) acceptable cap."""
    import struct

    p64 = Fraction(float(prop))
    p32 = Fraction(struct.unpack("f", struct.pack("f", float(prop)))[0])
    pdec = Fraction(repr(float(prop)))
    L = Fraction(int(length))
    caps = [math.floor(L * p) for p in (p64, p32, pdec)]
    # the float32 product itself may round up to the next integer
    f32prod = struct.unpack("f", struct.pack("f", float(L * p32)))[0]
    caps.append(math.floor(f32prod))
    return min(caps), max(caps)


def time_mask_caps(length, max_time_mask, max_prop, num_time_mask, num_prop):
    """(largest admissible width, largest admissible number of non-empty masks)."""
    width = min(int(max_time_mask), prop_cap_range(length, max_prop)[1])
    count = min(int(num_time_mask), prop_cap_range(length, num_prop)[1])
    return max(width, 0), max(count, 0)


def freq_mask_caps(F, max_freq_mask, num_freq_mask):
    return min(int(max_freq_mask), int(F)), int(num_freq_mask)


def band_union(starts, widths, size):
    """set of indices covered by the half-open bands [start, start+width)"""
    cov = set()
    for s, w in zip(starts, widths):
        s, w = int(s), int(w)
        for k in range(max(s, 0), min(s + w, size)):
            cov.add(k)
    return cov


def mask_cells(T, F, t0, t, f0, f):
    """(masked frames, masked coefficients) of one batch row"""
    return band_union(t0, t, T), band_union(f0, f, F)
