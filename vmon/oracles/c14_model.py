"""Reference judgements for C14 (batching loses nothing).  Pure Python / torch; nothing of the
library under test is imported here.  Every function takes the monitor and *recorded* values
(what a sampler produced, what batches came out, what a collation call received and returned).
"""
import math

import torch


# --------------------------------------------------------------------------
# batches vs. what the underlying sampler produced


def judge_batches(mon, produced, batches, idx2bucket, bucket2size, drop, ordered=True, tag=""):
    """`produced`: the indices the underlying sampler yielded, in order.  `batches`: lists of
    indices in the order delivered.  Property: every batch is non-empty, of a single bucket, holds
    the next indices of that bucket in sampler order, has the bucket's size except a trailing
    remainder (kept only if not `drop`); hence every produced index is in exactly one batch, or in
    none only if it belongs to a dropped remainder."""
    per_bucket = {}
    for pos, i in enumerate(produced):
        mon.check(i in idx2bucket, "harness-bucket-map", index=i)
        per_bucket.setdefault(idx2bucket[i], []).append(i)
    seen = {}
    for k, batch in enumerate(batches):
        batch = list(batch)
        mon.check(len(batch) > 0, "batch-nonempty", batch_no=k, tag=tag)
        bs = {idx2bucket.get(i, "<unknown index %r>" % (i,)) for i in batch}
        mon.check(len(bs) == 1, "batch-single-bucket", batch_no=k, batch=batch,
                  buckets=sorted(map(str, bs)), tag=tag)
        b = next(iter(bs))
        mon.check(b in bucket2size, "batch-single-bucket", batch_no=k, bucket=str(b), tag=tag)
        size = bucket2size[b]
        sub = per_bucket.get(b, [])
        at = seen.get(b, 0)
        want = sub[at:at + len(batch)]
        same = (batch == want) if ordered else (sorted(batch) == sorted(want))
        mon.check(same, "batch-in-sampler-order", batch_no=k, bucket=str(b), observed=batch, expected=want,
                  ordered=ordered, tag=tag)
        at += len(batch)
        seen[b] = at
        if len(batch) != size:
            # only a trailing remainder may be short, and only if remainders are kept
            mon.check(len(batch) < size and not drop and at == len(sub), "batch-size", batch_no=k,
                      bucket=str(b), observed=len(batch), bucket_size=size, drop=drop,
                      remaining_in_bucket=len(sub) - at, tag=tag)
            mon.stat("short_trailing_batches")
    n_lost = 0
    for b, sub in per_bucket.items():
        size = bucket2size[b]
        got = seen.get(b, 0)
        if drop:
            want = len(sub) - len(sub) % size
        else:
            want = len(sub)
        mon.check(got == want, "conservation", bucket=str(b), delivered=got, expected=want,
                  produced_in_bucket=len(sub), bucket_size=size, drop=drop, tag=tag)
        n_lost += len(sub) - got
    mon.check(sum(len(b) for b in batches) + n_lost == len(produced), "conservation", what="totals",
              delivered=sum(len(b) for b in batches), lost=n_lost, produced=len(produced), tag=tag)
    if n_lost:
        mon.stat("indices_in_dropped_remainders", n_lost)
    return n_lost


def expected_num_batches(produced, idx2bucket, bucket2size, drop):
    cnt = {}
    for i in produced:
        cnt[idx2bucket[i]] = cnt.get(idx2bucket[i], 0) + 1
    n = 0
    for b, c in cnt.items():
        s = bucket2size[b]
        n += c // s if drop else -(-c // s)
    return n


def judge_length_buckets(mon, lengths, idx2bucket, bucket2size, batch_size, num_buckets, dynamic):
    """Bucket identity must be a monotone function of length; sizes per the documentation:
    x is the greatest value with x * y <= Y * batch_size (y: longest in the bucket, Y: longest)."""
    N = len(lengths)
    mon.check(sorted(idx2bucket) == list(range(N)), "bucket-map-total", observed=sorted(idx2bucket), N=N)
    order = sorted(range(N), key=lambda i: lengths[i])
    for a, b in zip(order, order[1:]):
        if lengths[a] == lengths[b]:
            mon.check(idx2bucket[a] == idx2bucket[b], "bucket-monotone-in-length", what="equal lengths split",
                      length=lengths[a], buckets=[idx2bucket[a], idx2bucket[b]])
        else:
            mon.check(idx2bucket[a] <= idx2bucket[b], "bucket-monotone-in-length", what="longer in lower bucket",
                      lengths=[lengths[a], lengths[b]], buckets=[idx2bucket[a], idx2bucket[b]])
    used = sorted(set(idx2bucket.values()))
    mon.check(len(used) <= num_buckets, "bucket-count", observed=len(used), requested=num_buckets)
    mon.observe("buckets_used", len(used))
    Y = max(lengths)
    for b in used:
        mon.check(b in bucket2size, "bucket-size-known", bucket=b)
        y = max(lengths[i] for i in range(N) if idx2bucket[i] == b)
        if dynamic:
            want = (Y * batch_size) // y
            mon.check(bucket2size[b] == want, "dynamic-batch-size", bucket=b, observed=bucket2size[b],
                      expected=want, longest_in_bucket=y, longest=Y, batch_size=batch_size)
            mon.check(bucket2size[b] * y <= Y * batch_size < (bucket2size[b] + 1) * y, "dynamic-batch-size",
                      bucket=b, observed=bucket2size[b], longest_in_bucket=y, longest=Y)
            if want != batch_size:
                mon.stat("dynamic_sizes_ne_batch_size")
        else:
            mon.check(bucket2size[b] == batch_size, "static-batch-size", bucket=b, observed=bucket2size[b],
                      expected=batch_size)
    return used


# --------------------------------------------------------------------------
# collation: padded rows cut back to their size are the inputs, the rest is padding


def _same(a, b):
    return a.dtype == b.dtype and a.shape == b.shape and torch.equal(a, b)


def judge_padded(mon, padded, sizes, rows, pad, batch_first, what, tag=""):
    """`padded`: the returned tensor; `rows`: the expected original tensors in ROW order."""
    B = len(rows)
    if not batch_first:
        mon.check(padded.dim() >= 2, "collate-shape", what=what, shape=list(padded.shape), tag=tag)
        padded = padded.transpose(0, 1)
    mon.check(padded.size(0) == B, "collate-shape", what=what, shape=list(padded.shape), rows=B, tag=tag)
    mon.check(sizes is not None and [int(x) for x in sizes] == [r.size(0) for r in rows], "collate-sizes",
              what=what, observed=sizes, expected=[r.size(0) for r in rows], tag=tag)
    mx = max(r.size(0) for r in rows)
    mon.check(padded.size(1) == mx and tuple(padded.shape[2:]) == tuple(rows[0].shape[1:]), "collate-shape",
              what=what, shape=list(padded.shape), longest=mx, trailing=list(rows[0].shape[1:]), tag=tag)
    mon.check(padded.dtype == rows[0].dtype, "collate-dtype", what=what, observed=str(padded.dtype),
              expected=str(rows[0].dtype), tag=tag)
    for n, r in enumerate(rows):
        L = r.size(0)
        mon.check(torch.equal(padded[n, :L], r), "collate-lossless", what=what, row=n, observed=padded[n, :L],
                  expected=r, tag=tag)
        rest = padded[n, L:]
        mon.check(bool((rest == pad).all()), "collate-padding", what=what, row=n, pad=pad, observed=rest, tag=tag)
        if rest.numel():
            mon.stat("padding_cells_checked", rest.numel())


def _match_rows(mon, items, out_first, out_sizes, out_ids, batch_first, sort, what, tag):
    """Which input item sits in which output row?  Matched by content (first tensor cut back to the
    reported size, and the id when there is one); equal items are interchangeable."""
    first = out_first if batch_first else out_first.transpose(0, 1)
    B = len(items)
    mon.check(first.size(0) == B and len(out_sizes) == B, "collate-shape", what=what, rows=B,
              shape=list(out_first.shape), tag=tag)
    used = [False] * B
    perm = []
    for n in range(B):
        L = int(out_sizes[n])
        row = first[n, :L]
        hit = None
        for j, it in enumerate(items):
            if used[j]:
                continue
            if it["first"].size(0) == L and torch.equal(it["first"], row) and (
                    out_ids is None or it["id"] == out_ids[n]):
                hit = j
                break
        mon.check(hit is not None, "collate-lossless", what=what + ": row matches no input (ids stay attached)",
                  row=n, reported_size=L, observed=row, id=None if out_ids is None else out_ids[n], tag=tag)
        used[hit] = True
        perm.append(hit)
    if sort:
        sz = [int(x) for x in out_sizes]
        mon.check(all(a >= b for a, b in zip(sz, sz[1:])), "sort-descending", what=what, sizes=sz, tag=tag)
    else:
        mon.check(perm == list(range(B)), "collate-keeps-order", what=what, observed=perm, tag=tag)
    return perm


def judge_spect_call(mon, seq, out, batch_first, sort, has_alis, has_uttids, pad, tag="call"):
    """One call of spect_seq_to_batch: `seq` is what it received, `out` what it returned."""
    B = len(seq)
    items = []
    for tup in seq:
        tup = list(tup)
        it = {"first": tup[0], "ali": tup[1] if has_alis else None,
              "ref": tup[2] if has_alis else tup[1], "id": tup[-1] if has_uttids else None}
        items.append(it)
    out = list(out)
    mon.check(len(out) == 4 + int(has_alis) + int(has_uttids), "collate-arity", observed=len(out), tag=tag)
    feats = out[0]
    if has_alis:
        alis, refs, feat_sizes, ref_sizes = out[1:5]
    else:
        alis = None
        refs, feat_sizes, ref_sizes = out[1:4]
    ids = out[-1] if has_uttids else None
    if has_uttids:
        mon.check(isinstance(ids, tuple) and len(ids) == B, "collate-ids", observed=ids, tag=tag)
    perm = _match_rows(mon, items, feats, feat_sizes, ids, batch_first, sort, "feats", tag)
    rows = [items[j] for j in perm]
    judge_padded(mon, feats, feat_sizes, [r["first"] for r in rows], 0, batch_first, "feats", tag)
    if has_alis and all(r["ali"] is not None for r in rows):
        mon.check(alis is not None, "collate-lossless", what="alis dropped", tag=tag)
        judge_padded(mon, alis, feat_sizes, [r["ali"] for r in rows], pad, batch_first, "alis", tag)
    elif has_alis:
        mon.check(alis is None, "collate-none", what="alis", tag=tag)
    if all(r["ref"] is not None for r in rows):
        mon.check(refs is not None and ref_sizes is not None, "collate-lossless", what="refs dropped", tag=tag)
        judge_padded(mon, refs, ref_sizes, [r["ref"] for r in rows], pad, batch_first, "refs", tag)
    else:
        mon.check(refs is None and ref_sizes is None, "collate-none", what="refs", tag=tag)
    return perm


def judge_lang_call(mon, seq, out, batch_first, sort, has_uttids, pad, tag="call"):
    B = len(seq)
    items = [{"first": (x[0] if has_uttids else x), "id": (x[1] if has_uttids else None)} for x in seq]
    out = list(out)
    mon.check(len(out) == 2 + int(has_uttids), "collate-arity", observed=len(out), tag=tag)
    refs, ref_sizes = out[0], out[1]
    ids = out[2] if has_uttids else None
    if has_uttids:
        mon.check(isinstance(ids, tuple) and len(ids) == B, "collate-ids", observed=ids, tag=tag)
    perm = _match_rows(mon, items, refs, ref_sizes, ids, batch_first, sort, "refs", tag)
    judge_padded(mon, refs, ref_sizes, [items[j]["first"] for j in perm], pad, batch_first, "refs", tag)
    return perm


def judge_cw_call(mon, seq, out, has_uttids, tag="call"):
    """context_window_seq_to_batch concatenates: windows (sum T, C, F), alis (sum T,) or None."""
    out = list(out)
    mon.check(len(out) == (4 if has_uttids else 2), "collate-arity", observed=len(out), tag=tag)
    wins = [t[0] for t in seq]
    alis = [t[1] for t in seq]
    total = sum(w.size(0) for w in wins)
    windows, oalis = out[0], out[1]
    mon.check(windows.size(0) == total and tuple(windows.shape[1:]) == tuple(wins[0].shape[1:]), "collate-shape",
              what="windows", shape=list(windows.shape), total=total, tag=tag)
    at = 0
    for n, w in enumerate(wins):
        mon.check(torch.equal(windows[at:at + w.size(0)], w), "collate-lossless", what="windows", row=n,
                  observed=windows[at:at + w.size(0)], expected=w, tag=tag)
        at += w.size(0)
    if all(a is not None for a in alis):
        mon.check(oalis is not None and oalis.shape == (total,), "collate-lossless", what="alis dropped", tag=tag)
        at = 0
        for n, a in enumerate(alis):
            mon.check(torch.equal(oalis[at:at + a.size(0)], a), "collate-lossless", what="alis", row=n,
                      observed=oalis[at:at + a.size(0)], expected=a, tag=tag)
            at += a.size(0)
    else:
        mon.check(oalis is None, "collate-none", what="alis", tag=tag)
    if has_uttids:
        sizes, ids = out[2], out[3]
        mon.check([int(x) for x in sizes] == [w.size(0) for w in wins], "collate-sizes", what="window_sizes",
                  observed=sizes, expected=[w.size(0) for w in wins], tag=tag)
        mon.check(tuple(ids) == tuple(t[2] for t in seq), "collate-ids", observed=ids,
                  expected=[t[2] for t in seq], tag=tag)


# --------------------------------------------------------------------------
# context windows


def window_model(feat, t, left, right, reverse):
    T = feat.size(0)
    rows = [feat[min(max(t - left + i, 0), T - 1)] for i in range(left + right + 1)]
    if reverse:
        rows = rows[::-1]
    return torch.stack(rows)


def judge_window(mon, feat, t, left, right, reverse, out, tag="call"):
    want = window_model(feat, t, left, right, reverse)
    mon.check(tuple(out.shape) == tuple(want.shape), "window-shape", observed=list(out.shape),
              expected=list(want.shape), T=feat.size(0), t=t, left=left, right=right, tag=tag)
    mon.check(torch.equal(out, want), "window-edge-replicated", observed=out, expected=want, T=feat.size(0), t=t,
              left=left, right=right, reverse=reverse, tag=tag)
