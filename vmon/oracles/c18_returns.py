"""Float64 definition of discounted returns (C18):  R_t = r_t + gamma * R_{t+1},  R_T = 0.

Plain Python; never imports the library under test.
"""


def returns(r_tn, gamma):
    """r_tn: list (T) of lists (N) of floats, time-major.  Returns (R, A) of the same
    layout: R the returns, A the same recursion on |r| and |gamma| (the magnitude of
    the sum that a finite-precision implementation has to form; used for tolerances)."""
    T = len(r_tn)
    N = len(r_tn[0]) if T else 0
    R = [[0.0] * N for _ in range(T)]
    A = [[0.0] * N for _ in range(T)]
    nxt, nxa = [0.0] * N, [0.0] * N
    g, ga = float(gamma), abs(float(gamma))
    for t in range(T - 1, -1, -1):
        row = r_tn[t]
        cur = [float(row[n]) + g * nxt[n] for n in range(N)]
        cua = [abs(float(row[n])) + ga * nxa[n] for n in range(N)]
        R[t], A[t] = cur, cua
        nxt, nxa = cur, cua
    return R, A
