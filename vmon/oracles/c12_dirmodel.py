"""In-memory model of a SpectDataSet directory (DESIGN 3/C12).  Pure Python; never
imports the library under test (nor torch).

A *tensor spec* is ``{"dtype": "int64", "shape": [R, 3], "data": nested lists}``; a stored
object which is not a tensor is ``{"py": <json value>}``.

A *model* is::

    {"prefix": str, "suffix": str,
     "dirs": {"feat": name, "ali": name | None, "ref": name | None},   # what the data set is told
     "subset": [utt ids] | None,
     "files": {subdir name: {file name: spec}}}                        # everything on disk

The predicates below are written from the numbered lists in the docstring of
``pydrobert.torch.data.validate_spect_data_set``:

  valid iff  (1) all tensors on the CPU [not modelled: no other device exists here],
  (2) features are tensors of one dtype, (3) two-dimensional, (4) of one width,
  (5) alignments are long, one-dimensional, as long as their features,
  (6) references are long, all 1-D or all 2-D; 2-D ones have width 3 and every row has either
      both boundaries negative or 0 <= start <= end <= T.

  with ``fix = k`` (not None) permitted instead of an error:
  (f2) byte / 32-bit integer alignments and references are up-cast to long,
  (f3) a row with exactly one negative boundary loses the other one,
  (f4) an end with T < end <= T + k is lowered to T provided start <= T,
  (f5) an alignment with T < len <= T + k is cropped to T.

The documentation names "bytes or 32-bit integers" for (f2); whether int8/int16 belong to it
is left open, so ``repair`` takes the set of up-castable dtypes and the monitor accepts both
readings (``UPCAST_NARROW`` / ``UPCAST_WIDE``).
"""
import copy

UPCAST_NARROW = ("uint8", "int32")
UPCAST_WIDE = ("uint8", "int8", "int16", "int32")
LONG = "int64"


# ---------------------------------------------------------------- specs


def tspec(dtype, shape, data):
    return {"dtype": dtype, "shape": list(shape), "data": data}


def is_tensor(spec):
    return isinstance(spec, dict) and "dtype" in spec and "shape" in spec


def ndim(spec):
    return len(spec["shape"])


def same(a, b):
    """Exact equality of two stored objects (dtype, shape and values)."""
    if is_tensor(a) != is_tensor(b):
        return False
    if not is_tensor(a):
        return a == b
    return a["dtype"] == b["dtype"] and list(a["shape"]) == list(b["shape"]) and a["data"] == b["data"]


# ---------------------------------------------------------------- utterance discovery


def _ids(files, prefix, suffix):
    out = {}
    for fn in files:
        if fn.startswith(prefix) and fn.endswith(suffix):
            out[fn[len(prefix): len(fn) - len(suffix)]] = fn
    return out


def discover(model):
    """-> dict(utts=[sorted ids], has_ali, has_ref, names={role: subdir name})

    Utterances are the file names carrying prefix and suffix that occur in the feature
    directory, in the alignment directory (when that one is named, exists and holds at least
    one such file) and likewise in the reference directory, restricted to ``subset`` if any.
    """
    p, s = model["prefix"], model["suffix"]
    dirs = model["dirs"]
    files = model["files"]
    feat = _ids(files.get(dirs["feat"], {}), p, s)
    utts = set(feat)
    subset = model.get("subset")
    if subset:
        utts &= set(subset)
    has = {}
    for role in ("ali", "ref"):
        name = dirs.get(role)
        has[role] = False
        if name and name in files:
            ids = _ids(files[name], p, s)
            if ids:
                has[role] = True
                utts &= set(ids)
    return {"utts": sorted(utts), "has_ali": has["ali"], "has_ref": has["ref"]}


def fname(model, utt):
    return model["prefix"] + utt + model["suffix"]


def members(model):
    """[(subdir, file name)] of the files that belong to the data set."""
    d = discover(model)
    out = []
    for u in d["utts"]:
        out.append((model["dirs"]["feat"], fname(model, u)))
        if d["has_ali"]:
            out.append((model["dirs"]["ali"], fname(model, u)))
        if d["has_ref"]:
            out.append((model["dirs"]["ref"], fname(model, u)))
    return out


def triple(model, utt, d=None):
    d = d or discover(model)
    f = model["files"]
    fn = fname(model, utt)
    feat = f[model["dirs"]["feat"]][fn]
    ali = f[model["dirs"]["ali"]][fn] if d["has_ali"] else None
    ref = f[model["dirs"]["ref"]][fn] if d["has_ref"] else None
    return feat, ali, ref


def frames(feat):
    """T of an utterance, None if its feature entry has no frame axis to speak of."""
    if is_tensor(feat) and ndim(feat) == 2:
        return feat["shape"][0]
    return None


# ---------------------------------------------------------------- well-formedness


def feature_reasons(model, d=None):
    d = d or discover(model)
    why = []
    dtype, width = None, None
    for u in d["utts"]:
        feat = triple(model, u, d)[0]
        if not is_tensor(feat):
            why.append((u, "feat", "not a tensor"))
            continue
        if dtype is None:
            dtype = feat["dtype"]
        elif feat["dtype"] != dtype:
            why.append((u, "feat", "dtype %s, others %s" % (feat["dtype"], dtype)))
        if ndim(feat) != 2:
            why.append((u, "feat", "%d-dimensional" % ndim(feat)))
            continue
        if width is None:
            width = feat["shape"][1]
        elif feat["shape"][1] != width:
            why.append((u, "feat", "width %d, others %d" % (feat["shape"][1], width)))
    return why


def row_ok(row, T):
    tok, s, e = row
    if s < 0 and e < 0:
        return True
    return 0 <= s <= e <= T


def ali_reasons(ali, T):
    if not is_tensor(ali):
        return ["not a tensor"]
    why = []
    if ali["dtype"] != LONG:
        why.append("dtype " + ali["dtype"])
    if ndim(ali) != 1:
        why.append("%d-dimensional" % ndim(ali))
    elif T is not None and ali["shape"][0] != T:
        why.append("length %d, frames %d" % (ali["shape"][0], T))
    return why


def ref_reasons(ref, T):
    if not is_tensor(ref):
        return ["not a tensor"]
    why = []
    if ref["dtype"] != LONG:
        why.append("dtype " + ref["dtype"])
    if ndim(ref) == 2:
        if ref["shape"][1] != 3:
            why.append("width %d" % ref["shape"][1])
        elif T is not None:
            for i, row in enumerate(ref["data"]):
                if not row_ok(row, T):
                    why.append("row %d boundaries (%s, %s), frames %d" % (i, row[1], row[2], T))
    elif ndim(ref) != 1:
        why.append("%d-dimensional" % ndim(ref))
    return why


def ref_ndims(model, d=None):
    d = d or discover(model)
    if not d["has_ref"]:
        return set()
    return {ndim(r) if is_tensor(r) else None for r in (triple(model, u, d)[2] for u in d["utts"])}


def reasons(model):
    """Every violated condition of the documented list; empty <=> well-formed."""
    d = discover(model)
    why = feature_reasons(model, d)
    for u in d["utts"]:
        feat, ali, ref = triple(model, u, d)
        T = frames(feat)
        if ali is not None:
            why += [(u, "ali", w) for w in ali_reasons(ali, T)]
        if ref is not None:
            why += [(u, "ref", w) for w in ref_reasons(ref, T)]
    nd = ref_ndims(model, d)
    if len(nd - {None}) > 1:
        why.append(("*", "ref", "mixed dimensionalities %s" % sorted(nd - {None})))
    return why


def well_formed(model):
    return not reasons(model)


# ---------------------------------------------------------------- repair


def _to_long(spec, upcast):
    if spec["dtype"] == LONG:
        return spec, False
    if spec["dtype"] in upcast:
        out = dict(spec)
        out["dtype"] = LONG
        return out, True
    return None, False


def repair_ali(ali, T, k, upcast):
    """-> (repaired spec | None, [names of the repairs applied])"""
    if not is_tensor(ali) or T is None:
        return None, []
    done = []
    ali, changed = _to_long(ali, upcast)
    if ali is None:
        return None, []
    if changed:
        done.append("upcast")
    if ndim(ali) != 1:
        return None, []
    n = ali["shape"][0]
    if n != T:
        if T < n <= T + k:
            ali = tspec(LONG, [T], list(ali["data"][:T]))
            done.append("crop")
        else:
            return None, []
    return ali, done


def repair_ref(ref, T, k, upcast):
    """-> (repaired spec | None, [repairs], rows whose boundaries were removed (f3))"""
    if not is_tensor(ref):
        return None, [], []
    done, removed = [], []
    ref, changed = _to_long(ref, upcast)
    if ref is None:
        return None, [], []
    if changed:
        done.append("upcast")
    if ndim(ref) == 1:
        return ref, done, removed
    if ndim(ref) != 2 or ref["shape"][1] != 3 or T is None:
        return None, [], []
    rows = []
    for i, (tok, s, e) in enumerate(ref["data"]):
        if s < 0 and e < 0:
            pass
        elif s < 0 or e < 0:
            s, e = -1, -1
            removed.append(i)
            if "unpair" not in done:
                done.append("unpair")
        elif s > e:
            return None, [], []
        elif e > T:
            if s <= T and e - k <= T:
                e = T
                if "lower" not in done:
                    done.append("lower")
            else:
                return None, [], []
        rows.append([tok, s, e])
    return tspec(LONG, ref["shape"], rows), done, removed


def repair(model, k, upcast=UPCAST_WIDE):
    """Outcome of a validation with ``fix=k`` on the directory.

    -> dict(ok, model=<repaired model, only if ok>, per_file={(subdir, fn): spec | None},
            removed={(subdir, fn): rows}, repairs=[sorted names], why=[...])

    ``per_file`` gives, for every alignment/reference file of the data set, what that file
    looks like once its own documented small defects are repaired (None: it has a defect no
    tolerance repairs).  Features are never repaired.
    """
    d = discover(model)
    why = list(feature_reasons(model, d))
    per_file, removed_rows, repairs = {}, {}, set()
    for u in d["utts"]:
        feat, ali, ref = triple(model, u, d)
        T = frames(feat)
        fn = fname(model, u)
        if ali is not None:
            fixed, done = repair_ali(ali, T, k, upcast)
            per_file[(model["dirs"]["ali"], fn)] = fixed
            repairs.update(done)
            if fixed is None:
                why.append((u, "ali", "not repairable: %s" % ali_reasons(ali, T)))
        if ref is not None:
            fixed, done, removed = repair_ref(ref, T, k, upcast)
            per_file[(model["dirs"]["ref"], fn)] = fixed
            removed_rows[(model["dirs"]["ref"], fn)] = removed
            repairs.update(done)
            if fixed is None:
                why.append((u, "ref", "not repairable: %s" % ref_reasons(ref, T)))
    nd = ref_ndims(model, d)
    if len(nd - {None}) > 1:
        why.append(("*", "ref", "mixed dimensionalities"))
    out = {"ok": not why, "per_file": per_file, "removed": removed_rows,
           "repairs": sorted(repairs), "why": why}
    if out["ok"]:
        m = copy.deepcopy(model)
        for (sub, fn), spec in per_file.items():
            m["files"][sub][fn] = spec
        out["model"] = m
    return out


def same_repaired(observed, expected, removed_rows=()):
    """Observed file equals the repaired one; in rows whose unpaired boundary was removed
    any pair of negative numbers is accepted ("the existing one is removed")."""
    if not removed_rows:
        return same(observed, expected)
    if not (is_tensor(observed) and is_tensor(expected)):
        return False
    if observed["dtype"] != expected["dtype"] or list(observed["shape"]) != list(expected["shape"]):
        return False
    for i, (o, e) in enumerate(zip(observed["data"], expected["data"])):
        if i in removed_rows:
            if not (o[0] == e[0] and o[1] < 0 and o[2] < 0):
                return False
        elif o != e:
            return False
    return True


# ---------------------------------------------------------------- the statistics report


def recount(model):
    """The info report recounted from the stored tensors of a *valid* directory.

    -> (exact: {key: value}, either: {key: set of acceptable values})

    ``either`` holds the ``rcount_<i>`` of classes that own an empty segment
    (start == end): the text defines -1 for missing boundaries only, the sum reading adds 0.
    """
    d = discover(model)
    info = {"num_utterances": len(d["utts"]), "total_frames": 0,
            "max_ali_class": -1, "max_ref_class": -1}
    counts, segs, rsum, rsegs = {}, {}, {}, {}
    missing, empty = set(), set()
    total_tokens = 0
    for u in d["utts"]:
        feat, ali, ref = triple(model, u, d)
        info["num_filts"] = feat["shape"][1]
        info["total_frames"] += feat["shape"][0]
        if ali is not None:
            last = None
            for c in ali["data"]:
                counts[c] = counts.get(c, 0) + 1
                if c != last:
                    segs[c] = segs.get(c, 0) + 1
                last = c
        if ref is not None:
            for row in ref["data"]:
                tok, s, e = (row, -1, -1) if ndim(ref) == 1 else row
                total_tokens += 1
                rsegs[tok] = rsegs.get(tok, 0) + 1
                if s < 0 or e < 0:
                    missing.add(tok)
                else:
                    rsum[tok] = rsum.get(tok, 0) + (e - s)
                    if e == s:
                        empty.add(tok)
    info["total_tokens"] = total_tokens if d["has_ref"] else -1
    either = {}
    if counts:
        m = max(counts)
        info["max_ali_class"] = m
        w = len(str(m))
        for c in range(m + 1):
            info["count_%0*d" % (w, c)] = counts.get(c, 0)
            info["segs_%0*d" % (w, c)] = segs.get(c, 0)
    if rsegs:
        m = max(rsegs)
        info["max_ref_class"] = m
        w = len(str(m))
        for c in range(m + 1):
            key = "rcount_%0*d" % (w, c)
            info["rsegs_%0*d" % (w, c)] = rsegs.get(c, 0)
            if c not in rsegs or c in missing:
                info[key] = -1
            elif c in empty:
                either[key] = {-1, rsum[c]}
            else:
                info[key] = rsum[c]
    return info, either


# ---------------------------------------------------------------- sos / eos views


def ref_view(ref, sos, eos, tokens_only):
    """What reading a stored reference must return: [sos] + transcript + [eos]."""
    two_d = ndim(ref) == 2 and not tokens_only
    rows = ref["data"]
    if ndim(ref) == 2 and tokens_only:
        rows = [r[0] for r in rows]
    width = ref["shape"][1] if two_d else None

    def sym(v):
        return [v] + [-1] * (width - 1) if two_d else v

    out = ([sym(sos)] if sos is not None else []) + list(rows) + ([sym(eos)] if eos is not None else [])
    shape = [len(out), width] if two_d else [len(out)]
    return tspec(ref["dtype"], shape, out)


def bare(ref, tokens_only):
    """The transcript without the symbols, as a hypothesis file must hold it (long)."""
    if ndim(ref) == 2 and tokens_only:
        return tspec(LONG, [ref["shape"][0]], [r[0] for r in ref["data"]])
    return tspec(LONG, ref["shape"], ref["data"])
