"""Reference models for C05 (CTC prefix search).  Pure Python, float64, no library import.

Three structurally different judges of the mass of a label sequence ("prefix"):

* ``enumerate_masses``  - brute force over all (V+1)^T frame alignments, collapsing each;
* ``alpha_mass``        - the classical CTC forward recursion over the blank-interleaved labels
                          of ONE given label sequence (any T);
* ``prefix_beam``       - dictionary-keyed prefix-beam search of a given width (the "standard
                          prefix-beam recursion"): merging an extension into an identical existing
                          prefix is nothing but a dictionary update.

Fusion with a language model enters only through ``ext(prefix, t) -> [score of appending v]``:
the score of emitting a *new* label v after the collapsed prefix at frame t.  Staying on the same
label (no blank in between) costs the plain frame probability, a blank costs the blank probability.

A frame is ``(p_labels: list[V], p_blank)``.
"""
import itertools
import math

SIGNIFICANT = 1e-25  # masses below are not compared (float32 underflow region of the library)
BOUNDARY_MIN = 1e-30  # a pruning boundary below this mass cannot influence significant masses
PRUNE_MIN = 1e-35  # dropping candidates lighter than this is not "pruning" (cannot change a significant mass)


def softmax(row):
    m = max(row)
    e = [math.exp(x - m) for x in row]
    s = math.fsum(e)
    return [x / s for x in e]


def frames_from_logits(logits_tv):
    """logits_tv: T x (V+1) nested list (blank last) -> list of (p_labels, p_blank)."""
    out = []
    for row in logits_tv:
        p = softmax([float(x) for x in row])
        out.append((p[:-1], p[-1]))
    return out


def make_ext(frames, lm_probs=None, beta=0.0, valid_mixture=False):
    """Score of appending label v to `prefix` at frame t (documented fusion formulas).

    plain:          p_ctc(v) * p_lm(v | prefix) ** beta
    valid mixture:  (1 - beta) * p_ctc(v) + beta * p_lm(v | prefix) * (1 - p_blank)
    """
    cache = {}

    def ext(prefix, t):
        key = (prefix, t)
        r = cache.get(key)
        if r is not None:
            return r
        p, pb = frames[t]
        if lm_probs is None or not beta:
            r = list(p)
        else:
            q = lm_probs(prefix)
            if valid_mixture:
                r = [(1.0 - beta) * p[v] + beta * q[v] * (1.0 - pb) for v in range(len(p))]
            else:
                r = [p[v] * (q[v] ** beta) for v in range(len(p))]
        cache[key] = r
        return r

    return ext


def collapse(path, blank):
    out = []
    prev = blank
    for s in path:
        if s != blank and s != prev:
            out.append(s)
        prev = s
    return tuple(out)


def enumerate_masses(frames, ext):
    """dict label tuple -> exact mass, by enumerating every alignment."""
    T = len(frames)
    V = len(frames[0][0]) if T else 0
    masses = {}
    if T == 0:
        return {(): 1.0}
    for path in itertools.product(range(V + 1), repeat=T):
        m = 1.0
        prefix = ()
        prev = V
        for t, s in enumerate(path):
            p, pb = frames[t]
            if s == V:
                m *= pb
            elif s == prev:
                m *= p[s]
            else:
                m *= ext(prefix, t)[s]
                prefix = prefix + (s,)
            prev = s
            if m == 0.0:
                break
        if m:
            key = collapse(path, V)
            masses[key] = masses.get(key, 0.0) + m
    return masses


def alpha_mass(label, frames, ext):
    """Exact mass of `label` (tuple) by the CTC forward recursion."""
    T, L = len(frames), len(label)
    if L > T:
        return 0.0
    # a_b[i]: paths that emitted label[:i] and end in blank (or nothing yet, i=0 at t=-1)
    # a_n[i]: paths that emitted label[:i] (i>=1) and end in label[i-1]
    a_b = [0.0] * (L + 1)
    a_n = [0.0] * (L + 1)
    a_b[0] = 1.0
    for t in range(T):
        p, pb = frames[t]
        n_b = [0.0] * (L + 1)
        n_n = [0.0] * (L + 1)
        for i in range(L + 1):
            n_b[i] = (a_b[i] + a_n[i]) * pb
            if i >= 1:
                v = label[i - 1]
                stay = a_n[i] * p[v]
                enter = a_b[i - 1]
                if i >= 2 and label[i - 2] != v:
                    enter += a_n[i - 1]
                n_n[i] = stay + enter * ext(label[: i - 1], t)[v]
        a_b, a_n = n_b, n_n
    return a_b[L] + a_n[L]


class BeamResult:
    __slots__ = ("final", "steps", "tie", "pruned_positive", "insignificant_boundary", "max_cands",
                 "history", "min_cands_late", "tie_step")

    def __init__(self):
        self.final = []  # [(prefix, nb, b)] best first
        self.steps = []  # per frame: dict prefix -> (nb, b) of the kept beam
        self.tie = False  # a (near-)tie of positive masses sat on a pruning boundary
        self.tie_step = None  # first frame at which that happened
        self.pruned_positive = False  # some candidate of positive mass was dropped
        self.insignificant_boundary = False
        self.max_cands = 0  # largest number of positive-mass candidates at a step
        self.min_cands_late = None  # smallest number of positive-mass candidates at a step >= 2
        self.history = []  # per frame (merges of positive mass, pruned?, positive candidates)


def prefix_beam(frames, width, ext, tie_rel=1e-4, tie_abs=0.0):
    res = BeamResult()
    beam = {(): (0.0, 1.0)}
    for t in range(len(frames)):
        p, pb = frames[t]
        nxt = {}

        def add(key, nb, b):
            cur = nxt.get(key)
            if cur is None:
                nxt[key] = (nb, b)
            else:
                nxt[key] = (cur[0] + nb, cur[1] + b)

        merges = 0
        for prefix, (nb, b) in beam.items():
            tot = nb + b
            add(prefix, 0.0, tot * pb)
            if prefix:
                add(prefix, nb * p[prefix[-1]], 0.0)
            e = ext(prefix, t)
            for v in range(len(p)):
                src = b if (prefix and prefix[-1] == v) else tot
                if src * e[v] > 0.0 and (prefix + (v,)) in beam:
                    merges += 1
                add(prefix + (v,), src * e[v], 0.0)
        cands = sorted(((nb + b, k) for k, (nb, b) in nxt.items() if nb + b > 0.0), reverse=True)
        res.max_cands = max(res.max_cands, len(cands))
        if t >= 1 and (res.min_cands_late is None or len(cands) < res.min_cands_late):
            res.min_cands_late = len(cands)
        res.history.append((merges, len(cands) > width, len(cands)))
        if len(cands) > width:
            if cands[width][0] > PRUNE_MIN:
                res.pruned_positive = True
            lo, hi = cands[width][0], cands[width - 1][0]
            if hi <= BOUNDARY_MIN:
                res.insignificant_boundary = True
            elif lo >= hi * (1.0 - tie_rel) - tie_abs:
                res.tie = True
                if res.tie_step is None:
                    res.tie_step = t
            cands = cands[:width]
        beam = {k: nxt[k] for _, k in cands}
        res.steps.append(dict(beam))
    res.final = sorted(((nb + b, k, nb, b) for k, (nb, b) in beam.items()), reverse=True)
    res.final = [(k, nb, b) for _, k, nb, b in res.final]
    return res


def is_prefix(a, b):
    return len(a) <= len(b) and tuple(b[: len(a)]) == tuple(a)
