"""Per-row reference model for C09: textbook pad-and-slice on Python lists.

A *row* is the valid part of one sequence, ``x[n, :lens[n]]``, as a Python list
whose items are numbers or (for trailing dimensions) nested lists.  Nothing
here imports the library under test or torch; every function works on one row
alone, so by construction the expectation for a row cannot depend on the other
rows of the batch or on whatever is stored beyond the row's length.
"""

MODES = ("constant", "reflect", "replicate")


class Illegal(Exception):
    """The (row, pads, mode) triple is outside the documented domain."""


def fill_like(item, value):
    """`value` broadcast to the (nested-list) shape of one time step."""
    if isinstance(item, list):
        return [fill_like(v, value) for v in item]
    return value


def legal(length, left, right, mode):
    """Domain of the padding rules: any non-negative amount for constant and
    replicate (replicate needs something to replicate), strictly less than
    the length for reflect."""
    if left < 0 or right < 0 or length < 0:
        return False
    if mode == "constant":
        return True
    if mode == "reflect":
        return left < length and right < length
    if mode == "replicate":
        return length >= 1
    return False


def pad_row(seq, left, right, mode, value=0.0, proto=None):
    """`seq` padded by `left`/`right` elements.

    constant   value ... value  s0 .. s(L-1)  value ... value
    reflect    s(left) .. s2 s1 s0 .. s(L-1)  s(L-2) s(L-3) ..   (edge not repeated)
    replicate  s0 ..... s0      s0 .. s(L-1)  s(L-1) ... s(L-1)

    `proto` gives the item shape for the constant fill when `seq` is empty.
    """
    seq = list(seq)
    L = len(seq)
    if not legal(L, left, right, mode):
        raise Illegal("len=%d left=%d right=%d mode=%s" % (L, left, right, mode))
    if mode == "constant":
        if L:
            proto = seq[0]
        f = fill_like(proto, value) if proto is not None else value
        return [f] * left + seq + [f] * right
    if mode == "reflect":
        # the i-th padded element counted *away from* the sequence mirrors the
        # element i+1 steps inside it
        lp = [seq[1 + i] for i in range(left)][::-1]
        rp = [seq[L - 2 - i] for i in range(right)]
        return lp + seq + rp
    lp = [seq[0]] * left
    rp = [seq[L - 1]] * right
    return lp + seq + rp


def slice_pads(length, start, end):
    """Pad amounts a slice [start, end) of a length-`length` row asks for:
    what sticks out on the left of index 0 and on the right of `length`.
    Empty and inverted slices ask for nothing."""
    if end <= start:
        return 0, 0
    return max(-start, 0), max(end - length, 0)


def chunk_len(start, end):
    return max(end - start, 0)


def chunk_row(seq, start, end, mode, value=0.0, proto=None):
    """Pad the row alone by what the slice sticks out, then cut the slice
    (indices are relative to the start of the *unpadded* row)."""
    seq = list(seq)
    if end <= start:
        return []
    left, right = slice_pads(len(seq), start, end)
    padded = pad_row(seq, left, right, mode, value, proto)
    out = padded[start + left: end + left]
    assert len(out) == end - start
    return out


def chunk_legal(length, start, end, mode):
    """A slice is in the domain iff the pads it asks for are legal for the mode.
    Empty and inverted slices ask for pads (0, 0): legal for constant always,
    for reflect/replicate only on a non-empty row (0 is not < 0; nothing to
    replicate) -- exactly the documented preconditions of the padding modes."""
    left, right = slice_pads(length, start, end)
    return legal(length, left, right, mode)


def compact_row(seq, mask, value, width=None, proto=None):
    """Masked compaction of one row: selected elements in order, then the
    padding value up to `width` (default: the row's own length); returns
    (row, count)."""
    seq, mask = list(seq), list(mask)
    assert len(seq) == len(mask)
    sel = [s for s, m in zip(seq, mask) if m]
    width = len(seq) if width is None else width
    if seq:
        proto = seq[0]
    fill = fill_like(proto, value) if proto is not None else value
    return sel + [fill] * max(width - len(sel), 0), len(sel)


def shift_candidates(length, extra, cap_left, cap_right):
    """All (left, right) with left + right == extra, 0 <= left <= cap_left,
    0 <= right <= cap_right (caps are real numbers: prop * length)."""
    out = []
    for left in range(0, extra + 1):
        right = extra - left
        if left <= cap_left and right <= cap_right:
            out.append((left, right))
    return out
