"""Hostile memory layouts: the same tensor values handed over with different strides / storage offsets.
A library function whose result depends on the memory layout of its arguments (or that raises for a
non-contiguous one) violates every "for all inputs" property; feeding views costs nothing."""

LAYOUTS = ["contiguous", "transposed_storage", "offset_view", "strided_view"]


def pick(*ints):
    """Deterministic choice from the case's own integers (replayable)."""
    k = 0
    for j, x in enumerate(ints):
        k += (2 * j + 3) * int(x)
    return LAYOUTS[k % len(LAYOUTS)]


def relayout(t, layout):
    import torch

    if t is None or not isinstance(t, torch.Tensor):
        return t
    if layout == "transposed_storage" and t.dim() >= 2:
        return t.transpose(0, -1).contiguous().transpose(0, -1)
    if layout == "offset_view" and t.dim() >= 1 and t.size(0) > 0:
        big = torch.cat([torch.full_like(t[:1], 3), t, torch.full_like(t[:1], 5)], 0)
        return big[1:1 + t.size(0)]
    if layout == "strided_view" and t.dim() >= 1 and t.numel() > 0:
        big = torch.stack([t, torch.full_like(t, 7)], -1).flatten(-2)
        return big[..., ::2]
    return t


# ---- module objects that travelled: the same module after copy.deepcopy / a pickle round trip / a state_dict
# round trip into a freshly built twin must behave exactly like the object the constructor returned.
TRAVEL = ["as_built", "as_built", "deepcopy", "pickle", "train_eval_toggle"]
TRAVEL_SEEN = {}


def travelled(mod, *ints, pickle_ok=True, toggle_ok=True):
    """Return `mod` as is or after a journey chosen deterministically from the case's own integers."""
    import copy
    import pickle

    k = 0
    for j, x in enumerate(ints):
        k += (2 * j + 5) * int(x)
    how = TRAVEL[k % len(TRAVEL)]
    if how == "pickle" and not pickle_ok:
        how = "deepcopy"
    if how == "train_eval_toggle" and not toggle_ok:
        how = "deepcopy"
    if how == "deepcopy":
        mod = copy.deepcopy(mod)
    elif how == "pickle":
        try:
            mod = pickle.loads(pickle.dumps(mod))
        except (pickle.PicklingError, AttributeError, TypeError):
            how = "deepcopy(unpicklable)"
            mod = copy.deepcopy(mod)
    elif how == "train_eval_toggle":
        was = mod.training
        mod.eval()
        mod.train()
        mod.train(was)
    TRAVEL_SEEN[how] = TRAVEL_SEEN.get(how, 0) + 1
    return mod
