"""C13 helper: what ONE rank observes of the real epoch samplers.

`collect(cfg)` drives the real `EpochRandomSampler` / `EpochSequentialSampler` of the
current working tree inside whatever `torch.distributed` state the calling process is in
and returns a JSON-able record of everything that was yielded.  It judges nothing (the
offline checker lives in c13.py) and imports nothing of vmon, so it can also be executed
as a script by a *real* rank process of a gloo group:

    python _c13_rank.py <repo-src> <init-file> <rank> <world> <cfgs.json> <out.json>
"""
import json
import sys


class SizedOnly:
    """A data source that is *only* Sized (the samplers may use nothing but len())."""

    def __init__(self, n):
        self._n = n

    def __len__(self):
        return self._n


def _source(cfg):
    n = cfg["N"]
    how = cfg.get("source", "list")
    if how == "sized":
        return SizedOnly(n)
    if how == "range":
        return range(n)
    return [None] * n


def _make(cfg, init_epoch, seed="cfg"):
    import torch
    from pydrobert.torch.data import EpochRandomSampler, EpochSequentialSampler

    src = _source(cfg)
    if cfg["kind"] == "random":
        if seed == "cfg":
            seed = cfg["seed"]
        if seed is None:
            torch.manual_seed(cfg.get("torch_seed", 0))
        return EpochRandomSampler(src, init_epoch=init_epoch, base_seed=seed,
                                  on_uneven_distributed=cfg["mode"])
    return EpochSequentialSampler(src, init_epoch=init_epoch, on_uneven_distributed=cfg["mode"])


def _ints(it):
    return [int(x) for x in it]


def collect(cfg):
    """Everything rank-local that the offline checker needs (see c13.judge)."""
    import torch.distributed as dist

    rec = {"ctor": "ok", "n_ctor": 0, "n_epochs": 0}
    if dist.is_available() and dist.is_initialized():
        rec["rank_seen"], rec["world_seen"] = dist.get_rank(), dist.get_world_size()
    else:
        rec["rank_seen"], rec["world_seen"] = None, None
    E = cfg["E"]
    try:
        s0 = _make(cfg, 0)
        rec["n_ctor"] += 1
    except ValueError as e:
        rec["ctor"] = "ValueError"
        rec["ctor_msg"] = str(e)[:200]
        # the constructor must refuse on every path, also when resuming
        rec["ctor_other"] = []
        for e0 in range(1, E):
            try:
                _make(cfg, e0)
                rec["ctor_other"].append("ok")
            except ValueError:
                rec["ctor_other"].append("ValueError")
            except Exception as e2:  # pragma: no cover
                rec["ctor_other"].append("other:" + type(e2).__name__)
        return rec
    except Exception as e:
        rec["ctor"] = "other:%s: %s" % (type(e).__name__, str(e)[:200])
        return rec
    try:
        rec["base_seed"] = getattr(s0, "base_seed", None)
        # ---- baseline: one object iterated from epoch zero
        base = {"len_before": [], "len_after": [], "lists": [], "epoch_attr": []}
        for e in range(E):
            base["epoch_attr"].append(int(s0.epoch))
            base["len_before"].append(len(s0))
            base["lists"].append(_ints(s0))
            base["len_after"].append(len(s0))
            rec["n_epochs"] += 1
        rec["base"] = base
        # ---- direct queries on the used object (state must not matter)
        rec["direct"] = [_ints(s0.get_samples_for_epoch(e)) for e in range(E)]
        rec["direct_full"] = [_ints(s0.get_samples_for_epoch_ignoring_distributed(e)) for e in range(E)]
        # ---- resumed objects: start at e0, consume c epochs, then one more
        starts = []
        for e0, c in cfg["starts"]:
            s = _make(cfg, e0)
            rec["n_ctor"] += 1
            lists, lens = [], []
            for _ in range(c + 1):
                lens.append(len(s))
                lists.append(_ints(s))
                rec["n_epochs"] += 1
            starts.append({"e0": e0, "c": c, "lists": lists, "lens": lens, "epoch_after": int(s.epoch)})
        rec["starts"] = starts
        # ---- the `epoch` attribute is the next epoch to be yielded
        sets = []
        s = _make(cfg, 0)
        rec["n_ctor"] += 1
        for e in cfg.get("set_epochs", []):
            s.epoch = e
            ln = len(s)
            sets.append({"e": e, "len": ln, "list": _ints(s), "epoch_after": int(s.epoch)})
            rec["n_epochs"] += 1
        rec["sets"] = sets
        # ---- the current epoch is looked at without being consumed (what len() of a bucketing loader does), THEN
        # the epoch attribute is moved (resuming from a checkpoint): what comes next is the epoch the attribute names
        peeks = []
        s = _make(cfg, 0)
        rec["n_ctor"] += 1
        for e in cfg.get("set_epochs", []):
            _ints(s.get_samples_for_epoch(int(s.epoch)))
            s.epoch = e
            peeks.append({"e": e, "list": _ints(s), "epoch_after": int(s.epoch)})
            rec["n_epochs"] += 1
        rec["peeks"] = peeks
        # ---- the object is serialised between epochs (checkpointing: pickle; copying a loader: deepcopy); the LIVE
        # object goes on exactly as before and the copy continues from the same state
        import copy
        import pickle

        s = _make(cfg, 0)
        rec["n_ctor"] += 1
        ser = {"live": [], "copies": []}
        for e in range(min(E, 3)):
            if e % 2 == 0:
                twin = pickle.loads(pickle.dumps(s))
            else:
                twin = copy.deepcopy(s)
            ser["copies"].append({"e": int(twin.epoch), "len": len(twin), "list": _ints(twin)})
            ser["live"].append({"e": int(s.epoch), "len": len(s), "list": _ints(s)})
            rec["n_epochs"] += 2
        rec["serialised"] = ser
        # ---- resuming at an epoch number that arrives as a numpy scalar of a narrow type (read from an array of
        # checkpoint metadata): six epochs on, across the type's own range, it is still the epoch it says
        try:
            import numpy as np
        except ImportError:  # pragma: no cover
            np = None
        if np is not None and cfg["N"] <= 64:
            s = _make(cfg, np.uint8(252))
            rec["n_ctor"] += 1
            nx = {"lists": [], "direct": [], "epoch_attr": []}
            for k in range(6):
                nx["epoch_attr"].append(int(s.epoch))
                nx["lists"].append(_ints(s))
                nx["direct"].append(_ints(s0.get_samples_for_epoch(252 + k)))
                rec["n_epochs"] += 1
            rec["numpy_epoch"] = nx
        # ---- an abandoned iterator consumes its epoch
        p = cfg.get("partial")
        if p is not None:
            e0, take = p
            s = _make(cfg, e0)
            rec["n_ctor"] += 1
            it = iter(s)
            head = []
            for _ in range(take):
                try:
                    head.append(int(next(it)))
                except StopIteration:
                    break
            del it
            e_next = int(s.epoch)  # the state says which epoch comes next
            rec["partial"] = {"e0": e0, "head": head, "e_next": e_next, "next": _ints(s),
                              "epoch_after": int(s.epoch)}
            rec["n_epochs"] += 2
        # ---- a consumer that pulls exactly len(s) indices per epoch (never provoking StopIteration): every
        # index of the epoch has been yielded, so the epoch is over and the next pull is the next epoch
        if p is not None:
            s = _make(cfg, p[0])
            rec["n_ctor"] += 1
            pulls = []
            for _ in range(2):
                n = len(s)
                it = iter(s)
                pulls.append([int(next(it)) for _ in range(n)])
                del it
            rec["exact"] = {"e0": p[0], "pulls": pulls}
            rec["n_epochs"] += 2
        # ---- two live iterators of one object do not disturb each other
        il = cfg.get("interleave")
        if il is not None:
            s = _make(cfg, il)
            rec["n_ctor"] += 1
            it1 = iter(s)
            e_second = int(s.epoch)
            it2 = iter(s)
            a, b = [], []
            live1 = live2 = True
            while live1 or live2:
                if live1:
                    try:
                        a.append(int(next(it1)))
                    except StopIteration:
                        live1 = False
                if live2:
                    try:
                        b.append(int(next(it2)))
                    except StopIteration:
                        live2 = False
            rec["interleave"] = {"e0": il, "e_second": e_second, "first": a, "second": b}
            rec["n_epochs"] += 2
        # ---- observation only: does (seed+1, epoch-1) alias (seed, epoch)?  (the 0.3 seeding did)
        if cfg["kind"] == "random" and cfg["seed"] is not None and cfg["seed"] < 2 ** 31 - 1 and cfg["N"] >= 6:
            alt = _make(cfg, 0, seed=cfg["seed"] + 1)
            rec["n_ctor"] += 1
            rec["alias"] = [_ints(alt.get_samples_for_epoch_ignoring_distributed(e)) for e in range(E - 1)]
        # ---- an unset seed is drawn from torch's default generator: the object then
        #      behaves as one built with that seed explicitly
        if cfg["kind"] == "random" and cfg["seed"] is None:
            tw = _make(cfg, 0, seed=int(s0.base_seed))
            rec["n_ctor"] += 1
            rec["twin"] = [_ints(tw) for _ in range(min(E, 2))]
            again = _make(cfg, 0)
            rec["n_ctor"] += 1
            rec["again_seed"] = int(again.base_seed)
    except Exception as e:
        import traceback

        rec["error"] = "%s: %s" % (type(e).__name__, str(e)[:300])
        rec["traceback"] = traceback.format_exc(limit=-5)
    return rec


def main(argv):
    src, init_file, rank, world, cfgs_path, out = argv[:6]
    rank, world = int(rank), int(world)
    import warnings

    warnings.filterwarnings("ignore")
    sys.path.insert(0, src)
    from datetime import timedelta

    import torch
    import torch.distributed as dist

    torch.set_num_threads(1)
    with open(cfgs_path) as f:
        cfgs = json.load(f)
    res = {"rank": rank, "world": world, "stage": "init"}
    try:
        dist.init_process_group("gloo", init_method="file://" + init_file, rank=rank,
                                world_size=world, timeout=timedelta(seconds=60))
    except Exception as e:
        res["init_error"] = "%s: %s" % (type(e).__name__, str(e)[:300])
        with open(out, "w") as f:
            json.dump(res, f)
        return 3
    try:
        res["stage"] = "collect"
        # a real collective, so that the group is known to be live and complete
        t = torch.tensor([rank + 1])
        dist.all_reduce(t)
        res["allreduce"] = int(t.item())
        import pydrobert.torch

        res["pkg"] = pydrobert.torch.__file__
        res["records"] = [collect(c) for c in cfgs]
        dist.barrier()
        res["stage"] = "done"
    except Exception as e:
        res["run_error"] = "%s: %s" % (type(e).__name__, str(e)[:300])
    finally:
        try:
            dist.destroy_process_group()
        except Exception:
            pass
    with open(out, "w") as f:
        json.dump(res, f)
    return 0


if __name__ == "__main__":
    sys.exit(main(sys.argv[1:]))
