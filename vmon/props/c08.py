"""C08 - SpecAugment draws stay within bounds and masking touches only masked cells.

Mechanisms (DESIGN 2.1): A (boundary contracts on draw/apply/__call__, module and functional
forms), D (interposed `torch.rand`/`torch.rand_like` with hostile outcomes; interposed module
globals `_img.warp_1d_grid` and `_img.spec_augment_draw_parameters` so that the grid and the
parameters *actually used* inside a call are observed; `torch.nn.functional.grid_sample` is
shadowed as well to see the grid that finally reaches the resampler).

Only what the property states is a hard assertion:
  draw   : warp centre/shift window, mask width/count caps (absolute and proportional), masks inside
           the valid frames / coefficients;
  apply  : same shape; masked bands are zero; without a drawn warp everything else is bit-identical;
           with a warp (any order) every value finite and inside the range of its batch row;
           order 1: the time grid reads the valid frames in non-decreasing order and begins / ends
           within half a frame of the first / last valid frame;
  eval   : input returned unchanged.
The distance of an order-1 grid to the analytic three-knot piecewise-linear map is *recorded*
(evidence: max deviation) and used by the D17b classifier; it is not itself demanded.
"""
import hashlib
import math
import warnings

from .. import layout as LY
from ..oracles import c08_bounds as B
from ..oracles import c08_warp as W
from . import _c08_live as _live

ID = "C08"
LEVEL = "exploration"
RULE = (
    "class-directed random (N<=5,T,F) batches: T,F from 1, T up to 1000 (quick: mostly <=12, some <=60, "
    "a few 200-1000), lengths 1..T or absent, every zero/non-zero combination of the eight limits, "
    "proportions 0 and 1 and fractional ones whose product with the length is not an integer, warps "
    "larger than half the length, orders 1-3, module and functional forms, hand-set parameter tuples; "
    "torch.rand is interposed with scripted outcomes (all 0, all 1-2^-24, all 1/2, per-element extremes, "
    "per-call mixtures, seeded uniform) or left native under a manual seed; a case is distinct by the hash "
    "of its concrete description (sizes, lengths, configuration, random script, seeds) and non-trivial if "
    "at least one warp or one non-empty mask was drawn and applied"
)
ASSUMPTIONS = [
    "USE_JIT off (library runs as plain Python, globals and torch.rand can be interposed)",
    "float32 features (float64, and float16 with lengths beyond 2048, for configurations without a warp); caps "
    "accept floor(len*prop) under float32, float64 and decimal readings of the product",
    "range clause judged against the whole batch row (padding frames included) with rel. tolerance 1e-5",
    "monotone / end-point clauses judged on the time grid in pixel units with 1e-3 px slack",
    "grid_sample (PyTorch) is trusted to read where the grid says",
]
BUDGET = {
    "quick": dict(cases=640, shards=4, timeout=600),
    "thorough": dict(cases=9000, shards=16, timeout=3600),
}
CLASSES = [
    "all_on", "zero_combo", "prop0", "prop1", "big_warp", "tiny", "long_T", "order23",
    "mask_only", "native_rng", "frac_caps", "handset", "no_lengths", "warp_only", "half_precision",
]
SCRIPT_KINDS = ["zero", "max", "half", "extremes", "mixed", "uniform", "ext4"]
FLOORS = {
    "quick": {
        "events": {
            "draw_parameters(module)": 500, "draw_parameters(functional)": 500,
            "apply_parameters(module)": 500, "apply_parameters(functional)": 500,
            "SpecAugment.__call__": 500, "spec_augment": 500, "eval-mode": 1500,
            "hook:warp_1d_grid": 2000, "hook:grid_sample": 1500, "hook:draw-inside-call": 2000,
            "hook:torch.rand": 8000, "warp_1d_grid(functional)": 400, "Warp1DGrid(module)": 400,
            "assert:warp-window": 3000, "assert:time-mask-width": 3000, "assert:time-mask-count": 1500,
            "assert:time-mask-inside": 3000, "assert:freq-mask-width": 3000, "assert:freq-mask-inside": 3000,
            "assert:masked-zero": 3000, "assert:unmasked-bit-identical": 400, "assert:warp-finite": 2000,
            "assert:warp-range": 2000, "assert:warp-monotone": 2000, "assert:warp-endpoint": 2000,
            "assert:shape": 5000, "assert:eval-identity": 1500,
        },
        "classes": dict({c: 80 for c in CLASSES}, **{"rng:" + k: 150 for k in SCRIPT_KINDS}),
        "stats": {"rows:endpoint-held": 1500, "rows:dest-clamped": 100, "rows:max-width-drawn": 300,
                  "rows:max-count-drawn": 100, "rows:centre-at-window-edge": 300, "rows:shift-at-limit": 300},
        "sets": {"config": 1000, "zero-limit-combination": 60},
        "distinct": 900,
    },
    "thorough": {
        "events": {
            "draw_parameters(module)": 15000, "draw_parameters(functional)": 15000,
            "apply_parameters(module)": 15000, "apply_parameters(functional)": 15000,
            "SpecAugment.__call__": 15000, "spec_augment": 15000, "eval-mode": 60000,
            "hook:warp_1d_grid": 100000, "hook:grid_sample": 50000, "hook:draw-inside-call": 45000,
            "hook:torch.rand": 200000, "warp_1d_grid(functional)": 20000, "Warp1DGrid(module)": 20000,
            "assert:warp-window": 150000, "assert:time-mask-width": 100000, "assert:time-mask-count": 100000,
            "assert:time-mask-inside": 100000, "assert:freq-mask-width": 100000, "assert:freq-mask-inside": 100000,
            "assert:masked-zero": 60000, "assert:unmasked-bit-identical": 7000, "assert:warp-finite": 50000,
            "assert:warp-range": 50000, "assert:warp-monotone": 200000, "assert:warp-endpoint": 200000,
            "assert:shape": 90000, "assert:eval-identity": 90000,
            "hook:apply(repo test)": 8, "hook:draw(repo test)": 5, "SpecAugment.__call__(repo test)": 2,
        },
        "classes": dict({c: 2000 for c in CLASSES}, exhaustive_small=21870, repo_test_apply=8,
                        **{"rng:" + k: 3500 for k in SCRIPT_KINDS}),
        "stats": {"rows:endpoint-held": 150000, "rows:dest-clamped": 100000, "rows:max-width-drawn": 10000,
                  "rows:max-count-drawn": 5000, "rows:centre-at-window-edge": 20000, "rows:shift-at-limit": 20000},
        "sets": {"config": 25000, "zero-limit-combination": 150},
        "distinct": 25000,
    },
}
EXHAUSTIVE = {"quick": False, "thorough": False}

MAXU = 1.0 - 2.0 ** -24  # largest float32 torch.rand can return
LIMITS = ["max_time_warp", "max_freq_warp", "max_time_mask", "max_freq_mask", "max_time_mask_proportion",
          "num_time_mask", "num_time_mask_proportion", "num_freq_mask"]
PX_TOL = 1e-3  # slack (pixels) of the monotone and end-point clauses
AN_TOL = 5e-3  # distance (pixels) up to which a grid "equals" the analytic map (classifier)


# --------------------------------------------------------------------------------------------
# generation


def _sizes(rng, tier, cls):
    big = tier == "thorough"
    if cls == "tiny":
        return rng.randint(1, 3), rng.choice([1, 1, 2, 2, 3]), rng.choice([1, 1, 2, 3])
    if cls == "long_T":
        T = rng.choice([200, 257, 400, 640, 1000] if big else [200, 257, 400, 1000])
        return rng.randint(1, 2), T, rng.randint(1, 3)
    if cls == "half_precision":
        # float16 features (masks only): lengths beyond 2048 are not all representable in the features' own type
        T = rng.choice([rng.randint(1, 40), rng.randint(2049, 2200), 2051, 2055, 4095, 3003])
        return rng.randint(1, 2), T, rng.randint(1, 2)
    r = rng.random()
    if r < 0.6:
        T = rng.randint(1, 12)
    elif r < 0.92:
        T = rng.randint(13, 60)
    else:
        T = rng.randint(61, 200 if big else 120)
    F = rng.randint(1, 8) if rng.random() < 0.8 else rng.randint(9, 24 if big else 12)
    return rng.randint(1, 5), T, F


def _lengths(rng, N, T, cls):
    if cls == "no_lengths":
        return None
    if cls == "tiny" and rng.random() < 0.5:
        return [1] * N
    if cls == "half_precision":
        if rng.random() < 0.3:
            return None
        return [rng.choice([T, T, max(1, T - 1), max(1, T - 4), rng.randint(1, T)]) for _ in range(N)]
    out = []
    for _ in range(N):
        r = rng.random()
        out.append(T if r < 0.25 else 1 if r < 0.35 else min(T, 2) if r < 0.42 else rng.randint(1, T))
    return out


def _cfg(rng, T, F, cls):
    c = dict(
        max_time_warp=rng.choice([0.5, 1.0, 2.0, 3.5, T / 4, T / 2, 80.0]),
        max_freq_warp=rng.choice([0.0, 0.0, 0.5, 1.0, 1.5, F / 2, 20.0]),
        max_time_mask=rng.choice([1, 2, 3, T // 2 + 1, T, T + 5, 100]),
        max_freq_mask=rng.choice([1, 2, F, F + 3, 27]),
        max_time_mask_proportion=rng.choice([0.04, 0.2, 0.37, 0.5, 0.75, 1.0, 1 / 3]),
        num_time_mask=rng.choice([1, 2, 3, 5, 20]),
        num_time_mask_proportion=rng.choice([0.04, 0.2, 0.37, 0.5, 1.0]),
        num_freq_mask=rng.choice([1, 2, 3]),
        interpolation_order=1,
    )
    if cls == "zero_combo":
        for k in LIMITS:
            if rng.random() < 0.5:
                c[k] = 0.0 if isinstance(c[k], float) else 0
    elif cls == "prop0":
        k = rng.choice(["max_time_mask_proportion", "num_time_mask_proportion", "both"])
        if k in ("max_time_mask_proportion", "both"):
            c["max_time_mask_proportion"] = 0.0
        if k in ("num_time_mask_proportion", "both"):
            c["num_time_mask_proportion"] = 0.0
    elif cls == "prop1":
        c["max_time_mask_proportion"] = 1.0
        c["num_time_mask_proportion"] = rng.choice([1.0, 1.0, 0.5])
        c["max_time_mask"] = rng.choice([T, T + 5, 1000])
        c["num_time_mask"] = rng.choice([1, 3, T, T + 2])
        if rng.random() < 0.5:
            c["max_time_warp"] = 0.0
            c["max_freq_warp"] = 0.0
    elif cls == "big_warp":
        c["max_time_warp"] = rng.choice([T / 2 + 0.25, float(T), 2.0 * T, 1e4])
        c["max_freq_warp"] = rng.choice([0.0, F / 2 + 0.5, float(F), 1e3])
    elif cls == "order23":
        c["interpolation_order"] = rng.choice([2, 3])
        c["max_freq_warp"] = rng.choice([0.0, 0.5, 1.0, float(F)])
    elif cls == "half_precision":
        c["max_time_warp"] = 0.0
        c["max_freq_warp"] = 0.0
        c["max_time_mask"] = rng.choice([1, 3, 100])
        c["num_time_mask"] = rng.choice([2, 10, 20])
        c["max_time_mask_proportion"] = rng.choice([0.04, 0.5, 1.0])
        c["num_time_mask_proportion"] = rng.choice([0.04, 0.5, 1.0])
    elif cls == "mask_only":
        c["max_time_warp"] = 0.0
        c["max_freq_warp"] = 0.0
        c["max_time_mask_proportion"] = rng.choice([0.5, 1.0, 0.75])
        c["num_time_mask_proportion"] = rng.choice([0.5, 1.0])
    elif cls == "frac_caps":
        c["max_time_mask"] = 1000
        c["num_time_mask"] = rng.choice([T + 1, 30])
        c["max_time_mask_proportion"] = rng.choice([0.37, 0.29, 0.61, 1 / 3, 0.15, 0.9])
        c["num_time_mask_proportion"] = rng.choice([0.37, 0.29, 0.61, 0.45])
        if rng.random() < 0.5:
            c["max_time_warp"] = 0.0
            c["max_freq_warp"] = 0.0
    elif cls == "warp_only":
        c["max_time_warp"] = rng.choice([0.5, 1.0, 1.5, max(0.5, T / 8), max(0.5, T / 5)])
        c["max_freq_warp"] = rng.choice([0.0, 0.0, 0.5])
        c["max_time_mask"] = 0
        c["max_freq_mask"] = 0
    elif cls == "long_T":
        c["max_time_warp"] = rng.choice([5.0, 40.0, 80.0, T / 4, float(T)])
        c["max_freq_warp"] = rng.choice([0.0, 0.5])
        c["num_time_mask"] = rng.choice([1, 2, 10])
    elif cls == "tiny":
        c["max_time_warp"] = rng.choice([0.25, 0.5, 1.0, 80.0])
        c["max_freq_warp"] = rng.choice([0.0, 0.25, 0.5, 1.0, 20.0])
        c["interpolation_order"] = rng.choice([1, 1, 2, 3])
    return c


def _script(rng, cls, i):
    if cls == "native_rng":
        return {"kind": "native", "seed": rng.randrange(2 ** 31)}
    kind = SCRIPT_KINDS[(i // len(CLASSES) + i) % len(SCRIPT_KINDS)]
    modes = ["zero", "max", "half", "extremes", "uniform", "ext4", "tiny"]
    if kind == "mixed":
        seq = [rng.choice(modes) for _ in range(8)]
    else:
        seq = [kind] * 8
    return {"kind": kind, "seq": seq, "seed": rng.randrange(2 ** 31)}


def _handset(rng, N, T, F, lengths, cfg):
    """A parameter tuple written by hand, inside the documented domain."""
    ls = lengths or [T] * N
    use_none = rng.random() < 0.3
    hs = {"none_for_absent": use_none}
    if rng.random() < 0.6:
        w0, w = [], []
        for L in ls:
            Wd = min(rng.choice([0.5, 1.0, 2.5, L / 2.0]), L / 2.0)
            u = rng.choice([0.0, 1.0, 0.5, rng.random()])
            w0.append(u * (L - 2 * Wd) + Wd)
            w.append(rng.choice([-1.0, 1.0, 0.0, rng.uniform(-1, 1)]) * Wd)
        hs["w_0"], hs["w"] = w0, w
    if rng.random() < 0.3:
        Vd = min(rng.choice([0.5, 1.0, F / 2.0]), F / 2.0)
        hs["v_0"] = [rng.uniform(Vd, F - Vd) for _ in ls]
        hs["v"] = [rng.uniform(-Vd, Vd) for _ in ls]
    if rng.random() < 0.8:
        M = rng.randint(1, 3)
        t = [[rng.randint(0, L) if rng.random() < 0.8 else 0 for _ in range(M)] for L in ls]
        hs["t"] = t
        hs["t_0"] = [[rng.choice([0, L - tt, rng.randint(0, L - tt)]) for tt in row] for row, L in zip(t, ls)]
    if rng.random() < 0.8:
        M = rng.randint(1, 3)
        f = [[rng.randint(0, F) for _ in range(M)] for _ in ls]
        hs["f"] = f
        hs["f_0"] = [[rng.choice([0, F - ff, rng.randint(0, F - ff)]) for ff in row] for row in f]
    return hs


def generate(rng, tier, i):
    cls = CLASSES[i % len(CLASSES)]
    N, T, F = _sizes(rng, tier, cls)
    lengths = _lengths(rng, N, T, cls)
    cfg = _cfg(rng, T, F, cls)
    kinds = ["uniform", "positive", "ints", "wide", "huge_alternating"]
    case = {
        "class": cls, "N": N, "T": T, "F": F, "lengths": lengths, "cfg": cfg,
        "feat_kind": rng.choice(kinds), "feat_seed": rng.randrange(2 ** 31),
        "rng": _script(rng, cls, i),
        "parts_form": rng.choice(["module", "functional"]),
    }
    if cls == "mask_only" and rng.random() < 0.35:
        case["feat_kind"] = "special"
    if cls == "handset":
        case["handset"] = _handset(rng, N, T, F, lengths, cfg)
        case["cfg"]["interpolation_order"] = rng.choice([1, 1, 1, 2, 3])
    return case


def enumerate_cases(tier):
    """thorough: every assignment of {0, 1/2, 1-2^-24} to the six random draws of a call (centre, shift,
    mask widths, mask starts, freq widths, freq starts) for every (T<=5, length<=T) under two
    configurations whose caps bind (warp larger than half the length; fractional proportional caps)."""
    if tier != "thorough":
        return
    import itertools

    presets = [
        dict(max_time_warp=80.0, max_freq_warp=0.0, max_time_mask=2, max_freq_mask=1,
             max_time_mask_proportion=0.5, num_time_mask=2, num_time_mask_proportion=0.75, num_freq_mask=1,
             interpolation_order=1),
        dict(max_time_warp=1.0, max_freq_warp=0.0, max_time_mask=100, max_freq_mask=2,
             max_time_mask_proportion=0.37, num_time_mask=3, num_time_mask_proportion=0.61, num_freq_mask=2,
             interpolation_order=1),
    ]
    for T in range(1, 6):
        for L in range(1, T + 1):
            for pi, cfg in enumerate(presets):
                for seq in itertools.product(["zero", "half", "max"], repeat=6):
                    yield {
                        "class": "exhaustive_small", "N": 1, "T": T, "F": 2, "lengths": [L], "cfg": dict(cfg),
                        "feat_kind": "positive", "feat_seed": 7 * T + L,
                        "rng": {"kind": "enumerated", "seq": list(seq), "seed": 0},
                        "parts_form": "module" if (T + L + pi) % 2 else "functional",
                    }


# --------------------------------------------------------------------------------------------
# interposition (mechanism D)


class _Taps:
    """Shadows torch.rand / rand_like, _img.warp_1d_grid, _img.spec_augment_draw_parameters and
    torch.nn.functional.grid_sample for the duration of one case."""

    def __init__(self, mon, script):
        import torch
        import pydrobert.torch._img as I

        self.mon, self.torch, self.I = mon, torch, I
        self.script = script
        self.ncall = 0
        self.offset = 0
        self.grids = []  # (src, flow, lengths, T, order, returned grid)
        self.used = []  # grids handed to grid_sample
        self.drawn = []  # parameter tuples returned by draw inside a call
        self.gen = torch.Generator().manual_seed(int(script.get("seed", 0)))
        self._saved = None

    # -- scripted random outcomes
    def _outcome(self, shape, dtype):
        torch = self.torch
        seq = self.script["seq"]
        mode = seq[(self.ncall + self.offset) % len(seq)]
        self.ncall += 1
        dtype = dtype or torch.float32
        if mode == "zero":
            out = torch.zeros(shape)
        elif mode == "max":
            out = torch.full(shape, MAXU)
        elif mode == "half":
            out = torch.full(shape, 0.5)
        elif mode == "tiny":
            out = torch.full(shape, 2.0 ** -24)
        elif mode == "extremes":
            pick = torch.randint(0, 2, shape, generator=self.gen)
            out = torch.where(pick == 0, torch.zeros(shape), torch.full(shape, MAXU))
        elif mode == "ext4":
            vals = torch.tensor([0.0, 2.0 ** -24, 0.5, MAXU])
            out = vals[torch.randint(0, 4, shape, generator=self.gen)].reshape(shape)
        else:
            out = self._rand(shape, generator=self.gen)
        return out.to(dtype)

    @staticmethod
    def _shape(size):
        if len(size) == 1 and isinstance(size[0], (list, tuple)):
            size = tuple(size[0])
        return tuple(int(s) for s in size)

    def install(self):
        torch, I = self.torch, self.I
        self._saved = (torch.rand, torch.rand_like, I.warp_1d_grid, I.spec_augment_draw_parameters,
                       torch.nn.functional.grid_sample)
        self._rand = torch.rand
        rand, rand_like, warp, draw, gsample = self._saved
        taps = self

        def fake_rand(*size, **kw):
            taps.mon.ev("hook:torch.rand")
            out = taps._outcome(taps._shape(size), kw.get("dtype"))
            dev = kw.get("device")
            return out.to(dev) if dev is not None else out

        def fake_rand_like(x, **kw):
            taps.mon.ev("hook:torch.rand_like")
            return taps._outcome(tuple(x.shape), kw.get("dtype") or x.dtype).to(x.device)

        def tap_warp(src, flow, lengths, max_length=None, interpolation_order=1):
            grid = warp(src, flow, lengths, max_length, interpolation_order)
            taps.mon.ev("hook:warp_1d_grid")
            taps.grids.append((src.detach().clone(), flow.detach().clone(), lengths.detach().clone(),
                               max_length, interpolation_order, grid.detach().clone()))
            return grid

        def tap_draw(*a, **k):
            params = draw(*a, **k)
            taps.mon.ev("hook:draw-inside-call")
            taps.drawn.append(params)
            return params

        def tap_gsample(input, grid, *a, **k):
            taps.mon.ev("hook:grid_sample")
            taps.used.append(grid.detach().clone())
            return gsample(input, grid, *a, **k)

        if self.script["kind"] != "native":
            torch.rand, torch.rand_like = fake_rand, fake_rand_like
        I.warp_1d_grid = tap_warp
        I.spec_augment_draw_parameters = tap_draw
        torch.nn.functional.grid_sample = tap_gsample

    def remove(self):
        torch, I = self.torch, self.I
        (torch.rand, torch.rand_like, I.warp_1d_grid, I.spec_augment_draw_parameters,
         torch.nn.functional.grid_sample) = self._saved

    def begin_phase(self, offset):
        self.grids, self.used, self.drawn = [], [], []
        self.ncall, self.offset = 0, offset


# --------------------------------------------------------------------------------------------
# inputs


def _feats(case):
    """float32 features; double precision for a third of the configurations that cannot draw a warp (the
    resampler works in single precision, a double batch with a warp is refused by it; masking alone must
    leave every other entry of a double batch bit-identical)"""
    x = _feats32(case)
    cfg = case["cfg"]
    if not cfg["max_time_warp"] and not cfg["max_freq_warp"] and int(case["feat_seed"]) % 3 == 0 \
            and not case.get("handset"):
        x = x.double() * (1.0 + 2.0 ** -40)  # values that are NOT representable in single precision
    if case["class"] == "half_precision":
        x = x.clamp(-6e4, 6e4).half()
    return x


def _feats32(case):
    import torch

    g = torch.Generator().manual_seed(int(case["feat_seed"]))
    shape = (case["N"], case["T"], case["F"])
    kind = case["feat_kind"]
    if kind == "positive":
        return torch.rand(shape, generator=g) + 0.5
    if kind == "ints":
        return torch.randint(-3, 4, shape, generator=g).float()
    if kind == "wide":
        return torch.randn(shape, generator=g) * 1e3
    if kind == "huge_alternating":
        # finite values at the edge of single precision, opposite signs on neighbouring frames: any
        # resampling that forms a difference or a sum of neighbours overflows
        sign = torch.where(torch.arange(shape[1]) % 2 == 0, 1.0, -1.0).view(1, -1, 1)
        return sign * (2.9e38 + 0.4e38 * torch.rand(shape, generator=g))
    x = torch.rand(shape, generator=g) * 2 - 1
    if kind == "special":
        vals = torch.tensor([float("inf"), float("-inf"), float("nan"), -0.0, 3e38, 1e-42, 0.0])
        pick = torch.randint(0, 3 * len(vals), shape, generator=g)
        x = torch.where(pick < len(vals), vals[pick.clamp_max(len(vals) - 1)], x)
    return x


def _cfg_args(cfg):
    return [cfg[k] for k in LIMITS]


def _handset_params(case):
    import torch

    hs = case["handset"]
    absent = None if hs["none_for_absent"] else torch.empty(0)

    def get(k, dtype):
        return torch.tensor(hs[k], dtype=dtype) if k in hs else absent

    return (get("w_0", torch.float), get("w", torch.float), get("v_0", torch.float), get("v", torch.float),
            get("t_0", torch.long), get("t", torch.long), get("f_0", torch.long), get("f", torch.long))


def _numel(p):
    return 0 if p is None else int(p.numel())


# --------------------------------------------------------------------------------------------
# judges


def _judge_draw(mon, case, params, lens, where):
    """Every drawn parameter respects every configured limit (recomputed in float64)."""
    cfg, N, T, F = case["cfg"], case["N"], case["T"], case["F"]
    mon.check(isinstance(params, (tuple, list)) and len(params) == 8, "param-tuple", where=where)
    w_0, w, v_0, v, t_0, t, f_0, f = params
    drew = False
    for name, c0, sh, size_of, lim in (("time", w_0, w, lambda n: lens[n], cfg["max_time_warp"]),
                                       ("freq", v_0, v, lambda n: F, cfg["max_freq_warp"])):
        if not (_numel(c0) and _numel(sh)):
            mon.stat("draw:no-%s-warp" % name)
            continue
        mon.check(_numel(c0) == N and _numel(sh) == N, "param-shape", which=name + "-warp", where=where,
                  observed=[list(c0.shape), list(sh.shape)], N=N)
        cl, sl = c0.reshape(-1).tolist(), sh.reshape(-1).tolist()
        for n in range(N):
            L = float(size_of(n))
            Wd = B.warp_window(lim, L)
            tol = 1e-4 + 1e-6 * L
            ok = (math.isfinite(cl[n]) and math.isfinite(sl[n]) and abs(sl[n]) <= Wd + tol
                  and Wd - tol <= cl[n] <= L - Wd + tol)
            mon.check(ok, "warp-window", which=name, where=where, n=n, size=L, limit=lim, window=Wd,
                      centre=cl[n], shift=sl[n])
            if Wd > 0:
                drew = True
                if abs(abs(sl[n]) - Wd) <= 1e-3 * max(1.0, Wd):
                    mon.stat("rows:shift-at-limit")
                if min(abs(cl[n] - Wd), abs(cl[n] - (L - Wd))) <= 1e-3 * max(1.0, L):
                    mon.stat("rows:centre-at-window-edge")
    if _numel(t_0) and _numel(t):
        mon.check(t.dim() == 2 and t.shape == t_0.shape and t.shape[0] == N, "param-shape", which="time-mask",
                  where=where, observed=[list(t_0.shape), list(t.shape)], N=N)
        tl, t0l = t.tolist(), t_0.tolist()
        for n in range(N):
            L = int(lens[n])
            wcap, ccap = B.time_mask_caps(L, cfg["max_time_mask"], cfg["max_time_mask_proportion"],
                                          cfg["num_time_mask"], cfg["num_time_mask_proportion"])
            widths = [int(x) for x in tl[n]]
            mon.check(all(0 <= x <= wcap for x in widths), "time-mask-width", where=where, n=n, length=L,
                      widths=widths, cap=wcap, max_time_mask=cfg["max_time_mask"],
                      proportion=cfg["max_time_mask_proportion"])
            cnt = sum(1 for x in widths if x > 0)
            mon.check(cnt <= ccap, "time-mask-count", where=where, n=n, length=L, nonempty=cnt, cap=ccap,
                      num_time_mask=cfg["num_time_mask"], proportion=cfg["num_time_mask_proportion"])
            inside = all(x == 0 or (0 <= int(s) and int(s) + x <= L) for s, x in zip(t0l[n], widths))
            mon.check(inside, "time-mask-inside", where=where, n=n, length=L, starts=t0l[n], widths=widths)
            if cnt:
                drew = True
            if wcap > 0 and max(widths) == wcap:
                mon.stat("rows:max-width-drawn")
            if ccap > 0 and cnt == ccap:
                mon.stat("rows:max-count-drawn")
            if any(x > 0 and int(s) + x == L for s, x in zip(t0l[n], widths)):
                mon.stat("rows:time-mask-touches-last-frame")
    else:
        mon.stat("draw:no-time-mask")
    if _numel(f_0) and _numel(f):
        mon.check(f.dim() == 2 and f.shape == f_0.shape and f.shape[0] == N, "param-shape", which="freq-mask",
                  where=where, observed=[list(f_0.shape), list(f.shape)], N=N)
        fl, f0l = f.tolist(), f_0.tolist()
        wcap, ccap = B.freq_mask_caps(F, cfg["max_freq_mask"], cfg["num_freq_mask"])
        for n in range(N):
            widths = [int(x) for x in fl[n]]
            mon.check(all(0 <= x <= wcap for x in widths) and sum(1 for x in widths if x > 0) <= ccap,
                      "freq-mask-width", where=where, n=n, F=F, widths=widths, cap=wcap, count_cap=ccap)
            inside = all(x == 0 or (0 <= int(s) and int(s) + x <= F) for s, x in zip(f0l[n], widths))
            mon.check(inside, "freq-mask-inside", where=where, n=n, F=F, starts=f0l[n], widths=widths)
            if any(widths):
                drew = True
            if wcap > 0 and max(widths) == wcap:
                mon.stat("rows:max-freq-width-drawn")
    else:
        mon.stat("draw:no-freq-mask")
    return drew


def _masks(case, params, lens):
    """Reference mask (N,T,F) from the band description, built cell by cell from python sets."""
    import torch

    N, T, F = case["N"], case["T"], case["F"]
    _, _, _, _, t_0, t, f_0, f = params
    M = torch.zeros((N, T, F), dtype=torch.bool)
    any_band = False
    tl = t.tolist() if _numel(t_0) and _numel(t) else None
    t0l = t_0.tolist() if tl is not None else None
    fl = f.tolist() if _numel(f_0) and _numel(f) else None
    f0l = f_0.tolist() if fl is not None else None
    for n in range(N):
        rows, cols = B.mask_cells(T, F, t0l[n] if tl else [], tl[n] if tl else [],
                                  f0l[n] if fl else [], fl[n] if fl else [])
        for k in rows:
            M[n, k, :] = True
        for k in cols:
            M[n, :, k] = True
        any_band = any_band or bool(rows) or bool(cols)
    return M, any_band


def _bits(x):
    import torch

    return x.contiguous().view({torch.float64: torch.int64, torch.float16: torch.int16}.get(x.dtype, torch.int32))


def _judge_grid_rows(mon, st, which, grid, src, flow, lens, T, order):
    """order-1 time grid: non-decreasing over the valid frames, begins / ends within half a frame.
    End-point failures are collected (raised at the end of the case so that every other clause of the
    case is still evaluated); everything else raises at once."""
    gl = grid.tolist()
    sl, fl = src.reshape(-1).tolist(), flow.reshape(-1).tolist()
    for n in range(len(gl)):
        L = int(lens[n])
        px = [W.to_px(x, T) for x in gl[n][:L]]
        mon.check(all(math.isfinite(p) for p in px), "warp-grid-finite", grid=which, n=n, length=L, T=T,
                  src=sl[n], flow=fl[n])
        bad = [k for k in range(L - 1) if px[k + 1] < px[k] - PX_TOL]
        mon.check(not bad, "warp-monotone", grid=which, n=n, length=L, T=T, src=sl[n], flow=fl[n],
                  first_decrease_at=bad[:3], px=px if L <= 64 else px[:32] + px[-32:])
        an = W.analytic_row(sl[n], fl[n], L, T)
        dev = max(abs(a - b) for a, b in zip(px, an))
        at_first, at_last = W.destination_clamped(sl[n], fl[n], L, T)
        if at_first or at_last:
            mon.stat("rows:dest-clamped")
            mon.dev("grid-vs-analytic-map(px,clamped-destination)", dev, AN_TOL)
        else:
            mon.dev("grid-vs-analytic-map(px)", dev, AN_TOL)
        if dev > AN_TOL:
            mon.stat("rows:grid-off-analytic-map(not demanded)")
        lo_ok = abs(px[0]) <= 0.5 + PX_TOL
        hi_ok = abs(px[-1] - (L - 1)) <= 0.5 + PX_TOL
        mon.ev("assert:warp-endpoint")
        if lo_ok and hi_ok:
            mon.stat("rows:endpoint-held")
        else:
            mon.stat("rows:endpoint-missed")
            key = (st["phase"], n, tuple(px))
            if key in st["seen"]:
                continue  # the grid handed to grid_sample is the returned one: already on record
            st["seen"].add(key)
            st["endpoint"].append({
                "where": st["phase"],
                "grid": which, "n": n, "length": L, "T": T, "order": order, "src": sl[n], "flow": fl[n],
                "first_reads_px": px[0], "last_reads_px": px[-1], "fails_first": not lo_ok,
                "fails_last": not hi_ok, "px": px, "max_dev_from_analytic_px": dev,
                "destination_clamped": [bool(at_first), bool(at_last)],
            })


def _soft_grid(mon, which, grid, src, flow, size_of, T, order):
    """freq grids / higher orders: observations only (the property states nothing about them)."""
    gl = grid.tolist()
    sl, fl = src.reshape(-1).tolist(), flow.reshape(-1).tolist()
    for n in range(len(gl)):
        L = int(size_of(n))
        px = [W.to_px(x, T) for x in gl[n][:L]]
        if not all(math.isfinite(p) for p in px):
            mon.stat("obs:%s-nonfinite" % which)
            continue
        if any(px[k + 1] < px[k] - PX_TOL for k in range(L - 1)):
            mon.stat("obs:%s-not-monotone" % which)
        if abs(px[0]) > 0.5 + PX_TOL or abs(px[-1] - (L - 1)) > 0.5 + PX_TOL:
            mon.stat("obs:%s-endpoint-missed" % which)
        if order == 1:
            an = W.analytic_row(sl[n], fl[n], L, T)
            mon.dev("freq-grid-vs-analytic-map(px,observation)", max(abs(a - b) for a, b in zip(px, an)), AN_TOL)


def _judge_apply(mon, st, case, x0, params, lens, out, taps, where, order):
    """Masked bands zero; bit-identical elsewhere without a warp; finite / in range / monotone /
    pinned with one."""
    import torch

    N, T, F = case["N"], case["T"], case["F"]
    mon.check(isinstance(out, torch.Tensor) and tuple(out.shape) == (N, T, F), "shape", where=where,
              observed=list(getattr(out, "shape", [])), expected=[N, T, F])
    w_0, w, v_0, v = params[:4]
    twarp = bool(_numel(w_0) and _numel(w))
    fwarp = bool(_numel(v_0) and _numel(v))
    M, any_band = _masks(case, params, lens)
    z = out[M]
    mon.check(bool((z == 0).all()), "masked-zero", where=where, nonzero_cells=int((z != 0).sum()),
              masked_cells=int(M.sum()))
    if not (twarp or fwarp):
        same = _bits(out)[~M] == _bits(x0)[~M]
        idx = []
        if not bool(same.all()):
            idx = (~M & (_bits(out) != _bits(x0))).nonzero()[:5].tolist()
        mon.check(not idx, "unmasked-bit-identical", where=where, cells=idx,
                  observed=[float(out[tuple(i)]) for i in idx], expected=[float(x0[tuple(i)]) for i in idx])
        if taps.grids or taps.used:
            mon.stat("obs:resampled-although-no-warp-drawn")
        return any_band
    # ---- a warp was drawn
    fin = torch.isfinite(out)
    mon.check(bool(fin.all()), "warp-finite", where=where, order=order, nonfinite_cells=int((~fin).sum()),
              first=(~fin).nonzero()[:3].tolist())
    for n in range(N):
        lo, hi = float(x0[n].min()), float(x0[n].max())
        tol = 1e-5 * max(abs(lo), abs(hi), 1e-30)
        vals = out[n][~M[n]]
        if vals.numel():
            vmin, vmax = float(vals.min()), float(vals.max())
            mon.check(vmin >= lo - tol and vmax <= hi + tol, "warp-range", where=where, order=order, n=n,
                      row_min=lo, row_max=hi, observed_min=vmin, observed_max=vmax)
            mon.dev("warp-range-excess(rel)", max(lo - vmin, vmax - hi, 0.0) / max(abs(lo), abs(hi), 1e-30), 1e-5)
    # ---- the grids that were used
    # (if the hooks do not see what is expected nothing is judged here: the event floors
    # hook:warp_1d_grid / hook:grid_sample then make the run inconclusive, never a false alarm)
    calls = list(taps.grids)
    want = int(twarp) + int(fwarp)
    if len(calls) != want:
        mon.stat("unjudged:warp_1d_grid-calls-%d-expected-%d" % (len(calls), want))
        return True
    tcall = calls[0] if twarp else None
    fcall = calls[-1] if fwarp else None
    used = taps.used[-1] if taps.used else None
    if used is not None and tuple(used.shape) != (N, T, F, 2):
        mon.stat("unjudged:grid_sample-grid-layout")
        used = None
    if tcall is not None:
        src, flow, glens, gT, gorder, grid = tcall
        if gT != T or tuple(grid.shape) != (N, T) or _numel(src) != N or _numel(flow) != N:
            mon.stat("unjudged:time-grid-layout")
            if used is not None and order == 1 and _numel(w_0) == N and _numel(w) == N:
                # however the grid was put together: what the resampler is handed decides which frames are read
                for fi in sorted({0, F - 1}):
                    _judge_grid_rows(mon, st, "handed-to-grid_sample[f=%d]" % fi, used[:, :, fi, 1],
                                     w_0.reshape(-1), w.reshape(-1), lens, T, 1)
        elif gorder == 1:
            _judge_grid_rows(mon, st, "returned-by-warp_1d_grid", grid, src, flow, lens, T, gorder)
            if used is not None:
                for fi in sorted({0, F - 1}):
                    _judge_grid_rows(mon, st, "handed-to-grid_sample[f=%d]" % fi, used[:, :, fi, 1], src, flow,
                                     lens, T, gorder)
        else:
            _soft_grid(mon, "time-grid-order%d" % gorder, grid, src, flow, lambda n: lens[n], T, gorder)
    elif used is not None:
        # no time warp: the resampler must read every frame at its own position
        ident = torch.tensor([W.to_norm(k, T) for k in range(T)])
        d = float((used[..., 1] - ident.view(1, T, 1)).abs().max()) * T / 2
        mon.dev("time-grid-without-time-warp-vs-identity(px,observation)", d, PX_TOL)
    if fcall is not None:
        src, flow, glens, gF, gorder, grid = fcall
        if gF == F and tuple(grid.shape) == (N, F) and _numel(src) == N and _numel(flow) == N:
            _soft_grid(mon, "freq-grid-order%d" % gorder, grid, src, flow, lambda n: F, F, gorder)
    return True


# --------------------------------------------------------------------------------------------
# driving the real code


def execute(case, mon):
    if "live" in case:  # an observed call of a repository test (mechanism B), judged without re-driving
        return _live.execute_live(case, mon)
    import torch
    import pydrobert.torch.functional as Fn
    import pydrobert.torch.modules as Mo

    N, T, F, cfg = case["N"], case["T"], case["F"], case["cfg"]
    order = int(cfg["interpolation_order"])
    x0 = _feats(case)
    lens = case["lengths"] or [T] * N
    lengths = None if case["lengths"] is None else torch.tensor(case["lengths"], dtype=torch.long)
    script = case["rng"]
    mon.cls("rng:" + script["kind"], "order%d" % order)
    mon.observe("config", hashlib.sha1((repr(sorted(cfg.items())) + repr((N, T, F, case["lengths"]))).encode())
                .hexdigest()[:12])
    if any(L == 1 for L in lens):
        mon.cls("has_len1")
    if any(cfg["max_time_warp"] > L / 2 for L in lens) and cfg["max_time_warp"]:
        mon.cls("warp_gt_half_len")
    zeros = tuple(k for k in LIMITS if not cfg[k])
    mon.observe("zero-limit-combination", ",".join(zeros) or "none")
    st = {"endpoint": [], "seen": set(), "phase": ""}
    nontrivial = False
    taps = _Taps(mon, script if script["kind"] != "native" else dict(script, seq=["uniform"]))
    sa = Mo.SpecAugment(*_cfg_args(cfg), interpolation_order=order)
    sa.train()
    sa = LY.travelled(sa, N, T, F)
    if N > 1 and (N + T + F) % 2 == 0:
        # a history of calls on ONE module object: first a smaller batch (other N and T), result discarded
        with torch.random.fork_rng():
            torch.manual_seed(12345)
            with warnings.catch_warnings():
                warnings.simplefilter("ignore")
                mon.lib("SpecAugment(warm-up call on the same object)",
                        lambda: sa(x0[:1, : max(1, T // 2)].clone().float()))
        mon.cls("module_object_reused")
    if script["kind"] == "native":
        torch.manual_seed(int(script["seed"]))
    forms = [case["parts_form"], "functional" if case["parts_form"] == "module" else "module"]
    with warnings.catch_warnings():
        warnings.simplefilter("ignore")
        taps.install()
        try:
            # ---- phase A/B: explicit draw, then apply
            taps.begin_phase(0)
            x = x0.clone()
            if "handset" in case:
                params = _handset_params(case)
                mon.stat("handset-parameters")
            elif forms[0] == "module":
                params = mon.lib("draw_parameters(module)", sa.draw_parameters, x, lengths)
            else:
                params = mon.lib("draw_parameters(functional)", Fn.spec_augment_draw_parameters, x,
                                 *_cfg_args(cfg), lengths)
            if "handset" not in case:
                nontrivial |= _judge_draw(mon, case, params, lens, "draw_parameters(%s)" % forms[0])
            params0 = params
            taps.begin_phase(0)
            if forms[0] == "module":
                out = mon.lib("apply_parameters(module)", sa.apply_parameters, x, params, lengths)
            else:
                out = mon.lib("apply_parameters(functional)", Fn.spec_augment_apply_parameters, x, params,
                              order, lengths)
            st["phase"] = "apply_parameters(%s)" % forms[0]
            nontrivial |= _judge_apply(mon, st, case, x0, params, lens, out, taps, st["phase"], order)
            if not bool((_bits(x) == _bits(x0)).all()):
                mon.stat("obs:apply-modified-its-input-in-place")
            # ---- phase C: the whole call in the other form; parameters and grids observed inside
            taps.begin_phase(3)
            x = x0.clone()
            if forms[1] == "module":
                out = mon.lib("SpecAugment.__call__", sa, x, lengths)
            else:
                out = mon.lib("spec_augment", Fn.spec_augment, x, *_cfg_args(cfg), order, lengths, True)
            mon.check(isinstance(out, torch.Tensor) and tuple(out.shape) == (N, T, F), "shape",
                      where="%s call" % forms[1], observed=list(getattr(out, "shape", [])), expected=[N, T, F])
            if len(taps.drawn) == 1:
                params = taps.drawn[0]
                st["phase"] = "inside %s call" % forms[1]
                nontrivial |= _judge_draw(mon, case, params, lens, st["phase"])
                nontrivial |= _judge_apply(mon, st, case, x0, params, lens, out, taps, "%s call" % forms[1], order)
            else:  # floor hook:draw-inside-call makes the run inconclusive
                mon.stat("unjudged:draws-seen-inside-call-%d" % len(taps.drawn))
            # ---- phase E: the grid function called directly (functional and module form) on the
            #      explicit parameters of phase A
            pw0, pw = (params0[0], params0[1])
            if order == 1 and _numel(pw0) == N and _numel(pw) == N:
                st["phase"] = "warp_1d_grid called directly"
                fl = torch.tensor([float(L) for L in lens])
                for name, fn in (("warp_1d_grid(functional)", lambda: Fn.warp_1d_grid(pw0, pw, fl, T, 1)),
                                 ("Warp1DGrid(module)", lambda: Mo.Warp1DGrid(T, 1)(pw0, pw, fl))):
                    g = mon.lib(name, fn)
                    if tuple(g.shape) == (N, T):
                        _judge_grid_rows(mon, st, name, g, pw0, pw, lens, T, 1)
                    else:
                        mon.stat("unjudged:direct-grid-layout")
            # ---- phase D: evaluation mode returns the input unchanged (both forms)
            taps.begin_phase(5)
            x = x0.clone()
            sa.eval()
            y = mon.lib("eval-mode", sa, x, lengths)
            mon.check(y is x or (tuple(y.shape) == tuple(x0.shape) and bool((_bits(y) == _bits(x0)).all())),
                      "eval-identity", form="module")
            y = mon.lib("eval-mode", Fn.spec_augment, x, *_cfg_args(cfg), order, lengths, False)
            mon.check(y is x or (tuple(y.shape) == tuple(x0.shape) and bool((_bits(y) == _bits(x0)).all())),
                      "eval-identity", form="functional")
            mon.check(bool((_bits(x) == _bits(x0)).all()), "eval-identity", form="input left unchanged")
        finally:
            taps.remove()
    if not nontrivial:
        mon.trivial()
    if st["endpoint"]:
        rows = st["endpoint"]
        mon.fail("warp-endpoint", rows=rows, failing_rows=len(rows),
                 note="linear time warp does not begin/end within half a frame of the first/last valid frame")


# --------------------------------------------------------------------------------------------
# mechanism B: the repository's own SpecAugment / warp tests as a workload (thorough tier)

PYTEST_FILES = ["tests/test_img.py"]
PYTEST_ARGS = ["-k", "spec_augment or warp_1d_grid"]
hook_case = _live.hook_case


def setup(mon):
    import os

    if os.environ.get("VMON_OUT") and os.environ.get("VMON_PROP", "").upper() == ID:
        _live.install(mon)  # session-long, jit-transparent taps (pytest plugin only)


# --------------------------------------------------------------------------------------------
# known findings


def _explained_by_d17b(row):
    """The row's end-point failure is the clamped-destination mechanism and nothing else: recomputed
    from the recorded observation (arguments of warp_1d_grid and the grid itself), never from flags."""
    L, T = int(row["length"]), int(row["T"])
    if int(row.get("order", 1)) != 1:
        return False
    px = [float(p) if not isinstance(p, str) else float("nan") for p in row["px"]]
    if len(px) != L or not all(math.isfinite(p) for p in px):
        return False
    fails_first = abs(px[0]) > 0.5 + PX_TOL
    fails_last = abs(px[-1] - (L - 1)) > 0.5 + PX_TOL
    if not (fails_first or fails_last):
        return False
    at_first, at_last = W.destination_clamped(row["src"], row["flow"], L, T)
    if (fails_first and not at_first) or (fails_last and not at_last):
        return False
    an = W.analytic_row(row["src"], row["flow"], L, T)
    return max(abs(a - b) for a, b in zip(px, an)) <= AN_TOL


def classify(entry_id, vrec):
    if entry_id != "D17b" or vrec.get("monitor") != "warp-endpoint":
        return False
    d = vrec.get("details", {})
    rows = d.get("rows") or []
    if not rows or int(d.get("failing_rows", -1)) != len(rows):
        return False  # every failing row must be on record and explained
    return all(_explained_by_d17b(r) for r in rows)
