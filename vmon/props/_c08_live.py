"""C08, mechanism A/B on the repository's own tests (thorough tier, pytest plugin).

Under the pytest plugin the monitors cannot drive the calls; they can only watch.  Three module
globals of `_img` are shadowed for the whole session by *jit-transparent* wrappers (they carry the
`__original_fn` / `__script_if_tracing_wrapper` marks of `torch.jit.script_if_tracing`, so
`torch.jit.script` of a test still compiles the real function):

  spec_augment_draw_parameters   every draw (direct or inside a call) is judged against the limits
                                 it was called with;
  spec_augment_apply_parameters  every application is judged on the very tensors the test used
                                 (masking exactness / finite, in range, monotone, pinned);
  warp_1d_grid                   the grid actually used by that application.

The plugin's global forward hook additionally sees every `SpecAugment.__call__` (shape, evaluation
mode).  The judged tensors are kept in a side table; the case dict only carries their description
(sizes, lengths, configuration, digest), so such a case cannot be replayed without the test.
`torch.rand` and `grid_sample` are left alone here (TorchScript resolves them by identity).
"""
import hashlib

GRIDS = []  # warp_1d_grid calls since the last apply began
LIVE = {}  # key -> observation, consumed by execute_live()
_STATE = {"installed": False, "n": 0, "busy": False}
CFG_KEYS = ("max_time_warp", "max_freq_warp", "max_time_mask", "max_freq_mask", "max_time_mask_proportion",
            "num_time_mask", "num_time_mask_proportion", "num_freq_mask")


def _transparent(wrapper, orig):
    for a in ("__original_fn", "__script_if_tracing_wrapper"):
        if hasattr(orig, a):
            setattr(wrapper, a, getattr(orig, a))
    wrapper.__name__ = getattr(orig, "__name__", wrapper.__name__)
    wrapper.__doc__ = getattr(orig, "__doc__", None)
    return wrapper


def _describe(feats, lengths, cls, cfg, **extra):
    _STATE["n"] += 1
    N, T, F = feats.shape
    case = {
        "class": cls, "live": "live%d" % _STATE["n"], "N": int(N), "T": int(T), "F": int(F),
        "lengths": None if lengths is None else [int(v) for v in lengths.tolist()],
        "cfg": cfg, "rng": {"kind": "native(test's own)"},
        "feat_digest": hashlib.sha1(feats.detach().contiguous().numpy().tobytes()).hexdigest()[:16],
    }
    case.update(extra)
    return case


def _judgeable(feats, lengths):
    import torch

    return (isinstance(feats, torch.Tensor) and feats.dim() == 3 and feats.dtype == torch.float32
            and feats.device.type == "cpu" and not torch.jit.is_tracing() and not _STATE["busy"]
            and (lengths is None or (isinstance(lengths, torch.Tensor) and lengths.dim() == 1
                                     and lengths.numel() == feats.shape[0])))


def _run(mon, case, obs):
    from . import c08 as P

    LIVE.clear()
    LIVE[case["live"]] = obs
    _STATE["busy"] = True
    try:
        mon.stat("judged:" + case["class"])
        mon.run_case(P, case, "pytest")
    finally:
        _STATE["busy"] = False
        LIVE.clear()


def install(mon):
    if _STATE["installed"]:
        return
    import torch
    import pydrobert.torch._img as I

    draw, apply_, warp = I.spec_augment_draw_parameters, I.spec_augment_apply_parameters, I.warp_1d_grid

    def tap_draw(feats, *a, **k):
        params = draw(feats, *a, **k)
        try:
            vals = list(a) + [None] * 9
            cfg = {key: k.get(key, vals[i]) for i, key in enumerate(CFG_KEYS)}
            lengths = k.get("lengths", vals[8])
            if _judgeable(feats, lengths) and all(v is not None for v in cfg.values()):
                mon.ev("hook:draw(repo test)")
                cfg["interpolation_order"] = 1
                _run(mon, _describe(feats, lengths, "repo_test_draw", cfg), {"params": params})
        except Exception:
            mon.stat("hook_error:draw")
        return params

    def tap_apply(feats, params, interpolation_order, lengths=None):
        if not _STATE["busy"]:
            del GRIDS[:]
        out = apply_(feats, params, interpolation_order, lengths)
        try:
            if _judgeable(feats, lengths) and isinstance(out, torch.Tensor):
                mon.ev("hook:apply(repo test)")
                case = _describe(feats, lengths, "repo_test_apply", {"interpolation_order": int(interpolation_order)})
                _run(mon, case, {"x": feats.detach(), "out": out.detach(), "params": params, "grids": list(GRIDS)})
        except Exception:
            mon.stat("hook_error:apply")
        return out

    def tap_warp(src, flow, lengths, max_length=None, interpolation_order=1):
        grid = warp(src, flow, lengths, max_length, interpolation_order)
        if not torch.jit.is_tracing():
            mon.ev("hook:warp_1d_grid")
            GRIDS.append((src.detach().clone(), flow.detach().clone(), lengths.detach().clone(),
                          max_length, interpolation_order, grid.detach().clone()))
            del GRIDS[:-8]
        return grid

    I.spec_augment_draw_parameters = _transparent(tap_draw, draw)
    I.spec_augment_apply_parameters = _transparent(tap_apply, apply_)
    I.warp_1d_grid = _transparent(tap_warp, warp)
    _STATE["installed"] = True


class Seen:
    """what `_judge_apply` expects of the taps"""

    def __init__(self, grids):
        self.grids, self.used = grids, []


def hook_case(module, args, kwargs, output):
    """plugin's global forward hook: every SpecAugment.__call__ (shape, evaluation mode)"""
    import torch

    if type(module).__name__ != "SpecAugment" or isinstance(module, torch.jit.ScriptModule):
        return None
    if not args:
        return None
    feats = args[0]
    lengths = args[1] if len(args) > 1 else kwargs.get("lengths")
    if not _judgeable(feats, lengths):
        return None
    cfg = {k: getattr(module, k) for k in CFG_KEYS + ("interpolation_order",)}
    case = _describe(feats, lengths, "repo_test_call", cfg, training=bool(module.training))
    LIVE.clear()
    LIVE[case["live"]] = {"x": feats.detach(), "out": output, "same_object": output is feats}
    return case


def execute_live(case, mon):
    """Judge one observed call of a repository test (no re-driving)."""
    import torch
    from . import c08 as P

    obs = LIVE.pop(case["live"], None)
    if obs is None:
        mon.ood("live observation of a repository test cannot be replayed")
        return
    N, T, F = case["N"], case["T"], case["F"]
    lens = case["lengths"] or [T] * N
    cls = case["class"]
    if cls == "repo_test_draw":
        if not P._judge_draw(mon, case, obs["params"], lens, "draw in repo test"):
            mon.trivial()
        return
    x, out = obs["x"], obs["out"]
    if cls == "repo_test_call":
        mon.ev("SpecAugment.__call__(repo test)")
        mon.check(isinstance(out, torch.Tensor) and tuple(out.shape) == (N, T, F), "shape", where="repo test call",
                  observed=list(getattr(out, "shape", [])), expected=[N, T, F])
        if not case["training"]:
            mon.ev("eval-mode")
            mon.check(obs["same_object"] or bool((P._bits(out.detach()) == P._bits(x)).all()), "eval-identity",
                      form="module (repo test)")
        mon.trivial()
        return
    order = int(case["cfg"]["interpolation_order"])
    st = {"endpoint": [], "seen": set(), "phase": "apply in repo test"}
    if not P._judge_apply(mon, st, case, x, obs["params"], lens, out, Seen(obs["grids"]), st["phase"], order):
        mon.trivial()
    if st["endpoint"]:
        rows = st["endpoint"]
        mon.fail("warp-endpoint", rows=rows, failing_rows=len(rows),
                 note="linear time warp does not begin/end within half a frame of the first/last valid frame")
