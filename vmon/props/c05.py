"""C05 - CTC prefix search reports true prefix mass, never more, never NaN.

Monitors (DESIGN 3/C05):
  * boundary contract on ``CTCPrefixSearch.__call__`` (and a hand-driven loop over
    ``functional.ctc_prefix_search_advance``): result invariants, comparison with a
    dictionary-keyed float64 prefix-beam search, upper bound by the exact CTC mass (forward
    recursion, cross-checked with brute-force alignment enumeration), solo == batched;
  * step hook on ``_decoding.ctc_prefix_search_advance``: carried (nb, b) masses never NaN and
    equal to the reference beam of that frame, ``next_is_prefix`` equals the prefix relation of
    the label tuples;
  * instrumented collaborator ``HashLM``: the state the model is handed is the state of exactly
    the prefix it is asked about (judged offline on live slots only).
"""
import math

from ..oracles import c05_ref as R
from . import _c05_lm as LM
from .. import layout as LY

ID = "C05"
LEVEL = "exploration"
RULE = (
    "class-directed random searches: T 0..7 frames, V 1..4 labels + blank, N 1..6, widths 1..100 "
    "(far beyond the reachable prefixes), lens mixing 0/small/T, logit scales 1/3/30/200 and all-equal "
    "logits, float32/float64, no LM / instrumented stateful HashLM with beta in {0,0.3,0.5,0.7,1} in "
    "plain and valid-mixture fusion, module form and a hand-driven loop over the step function; a case "
    "is distinct by the hash of its concrete inputs and non-trivial if some element has >=2 valid "
    "frames and its reference beam ends with >=2 prefixes of positive mass (cases with a tie on a "
    "pruning boundary are ambiguous and not counted)"
)
ASSUMPTIONS = [
    "oracles: float64 dictionary-keyed prefix-beam search, CTC forward recursion per label sequence, "
    "brute-force enumeration of all (V+1)^T alignments when <= 1024 (cross-checked in every run)",
    "fusion scores only extensions: plain p_ctc*p_lm^beta, valid mixture (1-beta)p_ctc+beta*p_lm*(1-p_blank); "
    "repeats without a blank cost p_ctc, blanks p_blank (as documented for CTCPrefixSearch)",
    "float32 masses compared with rel 2e-4 (valid mixture additionally abs 5e-6 because of 1-p_blank); "
    "masses below 1e-25 (float32 underflow region) are not compared; near-ties (rel 2e-3) on a pruning "
    "boundary make the case ambiguous",
    "LM-state and step invariants are judged only on slots of positive mass of elements with t < lens[n]",
    "USE_JIT off (library runs as plain Python)",
]
BUDGET = {
    "quick": dict(cases=300, shards=4, timeout=1800),
    "thorough": dict(cases=6000, shards=16, timeout=5400, time=1500),
}
_BASE = ["small", "wide", "lens_mixed", "lm_plain", "saturated", "lm_mixture", "peaky", "wide_lm", "T0",
         "manual", "uniform", "lm_batch_lens", "f64", "beta0", "wide_sat", "big_working_set", "long_pow2_vocab", "very_long"]
FLOORS = {
    "quick": {
        "events": {"CTCPrefixSearch": 1500, "ctc_prefix_search_advance": 5000,
                   "ctc_prefix_search_advance-loop": 40, "lm.calc_idx_log_probs": 2000,
                   "lm.extract_by_src": 4000, "lm.mix_by_mask": 2000, "step-is-prefix-pairs": 500000,
                   "assert:no-nan": 2000, "assert:non-increasing": 2000, "assert:distinct": 12000,
                   "assert:never-more-than-exact": 12000, "assert:mass-vs-reference": 10000,
                   "assert:exact-when-unpruned": 3000, "assert:oracle-crosscheck": 12000,
                   "assert:step-no-nan": 6000, "assert:step-is-prefix": 6000, "assert:step-nb-mass": 30000,
                   "assert:lm-state": 10000, "assert:batch-equals-solo": 800},
        "classes": dict({c: 40 for c in _BASE}, merge=300, pruned=250, unpruned=250,
                        width_exceeds_candidates_late=200, len0_element=100),
        "stats": {"enumerated_elements": 800},
        "sets": {"merge_prune_history": 120},
        "distinct": 400,
    },
    "thorough": {
        "events": {"CTCPrefixSearch": 30000, "ctc_prefix_search_advance": 100000,
                   "lm.calc_idx_log_probs": 40000, "assert:lm-state": 200000,
                   "assert:mass-vs-reference": 200000, "assert:step-nb-mass": 600000,
                   "assert:never-more-than-exact": 250000, "assert:exact-when-unpruned": 60000},
        "classes": dict({c: 800 for c in _BASE}, grid=620, merge=6000, pruned=5000, unpruned=5000,
                        width_exceeds_candidates_late=4000, len0_element=2000),
        "stats": {"enumerated_elements": 16000},
        "sets": {"merge_prune_history": 400},
        "distinct": 8000,
    },
}
EXHAUSTIVE = {"thorough": False}
CLASSES = list(_BASE)
WIDE = [8, 12, 20, 40, 100]


# --------------------------------------------------------------------------- generation


def _logits(rng, T, N, V, scale):
    out = []
    for t in range(T):
        s = scale(t) if callable(scale) else scale
        out.append([[round(rng.gauss(0.0, 1.0) * s, 4) for _ in range(V + 1)] for _ in range(N)])
    return out


def _mixed_lens(rng, T, N):
    lens = [rng.randint(0, T) for _ in range(N)]
    lens[0] = 0
    if N > 1:
        lens[1] = T
    if N > 2:
        lens[2] = min(T, 1)
    rng.shuffle(lens)
    return lens


def _lm(rng, N, beta, vm):
    # "raw": the model hands back UNNORMALISED scores (row-wise shifted logits); the search normalises them
    # itself (softmax / log_softmax), so P_lm - and hence every reported mass - is unchanged
    return {"seed": rng.randrange(10 ** 6), "scale": rng.choice([1.0, 1.0, 4.0]), "beta": beta,
            "valid_mixture": vm, "conds": [rng.randrange(1000) for _ in range(N)], "raw": rng.random() < 0.5}


def generate(rng, tier, i):
    cls = CLASSES[i % len(CLASSES)]
    T, V, N = rng.randint(1, 5), rng.randint(1, 3), rng.choice([1, 1, 2])
    width, scale, lens, lm, form, dtype = rng.randint(1, 8), rng.choice([1.0, 2.0]), None, None, "module", "f32"
    if cls == "small":
        pass
    elif cls == "wide":
        T, V, N = rng.randint(2, 7), rng.randint(1, 4), rng.choice([1, 2, 3])
        width, scale = rng.choice(WIDE), rng.choice([1.0, 3.0])
    elif cls == "lens_mixed":
        T, V, N = rng.randint(2, 7), rng.randint(1, 4), rng.randint(2, 6)
        width = rng.choice([1, 2, 3, 5, 10, 30])
        lens = _mixed_lens(rng, T, N)
    elif cls == "lm_plain":
        T, V, N = rng.randint(1, 6), rng.randint(1, 4), rng.choice([1, 2, 3])
        lm = _lm(rng, N, rng.choice([0.3, 1.0, 0.7]), False)
    elif cls == "lm_mixture":
        T, V, N = rng.randint(1, 6), rng.randint(1, 4), rng.choice([1, 2, 3])
        lm = _lm(rng, N, rng.choice([0.3, 1.0, 0.5]), True)
    elif cls in ("saturated", "wide_sat"):
        T, V = rng.randint(2, 6), rng.randint(1, 4)
        width = rng.randint(1, 12) if cls == "saturated" else rng.choice([20, 100])
        pat = [rng.choice([200.0, 200.0, 1.0]) for _ in range(T)]
        pat[rng.randrange(T)] = 200.0
        scale = lambda t: pat[t]  # noqa: E731
        if rng.random() < 0.3:
            lm = _lm(rng, N, rng.choice([0.3, 1.0]), rng.random() < 0.5)
    elif cls == "peaky":
        T, V = rng.randint(2, 7), rng.randint(1, 4)
        width, scale = rng.choice([1, 2, 4, 8, 20]), 30.0
    elif cls == "wide_lm":
        T, V, N = rng.randint(2, 7), rng.randint(1, 4), rng.choice([1, 2, 3])
        width = rng.choice([12, 30, 100])
        lm = _lm(rng, N, rng.choice([0.3, 1.0]), rng.random() < 0.5)
    elif cls == "T0":
        T, N, width = 0, rng.choice([1, 2, 3]), rng.choice([1, 3, 100])
        lens = [0] * N if rng.random() < 0.5 else None
        if rng.random() < 0.4:
            lm = _lm(rng, N, 0.3, rng.random() < 0.5)
    elif cls == "manual":
        T, V, N = rng.randint(1, 6), rng.randint(1, 4), rng.choice([1, 2, 3])
        width, form = rng.choice([1, 2, 3, 5, 8, 30]), "manual"
    elif cls == "uniform":
        T, V = rng.randint(1, 5), rng.randint(1, 3)
        scale = 0.0
    elif cls == "lm_batch_lens":
        T, V, N = rng.randint(2, 7), rng.randint(1, 4), rng.randint(2, 6)
        width = rng.choice([1, 2, 4, 8, 20])
        lens = _mixed_lens(rng, T, N)
        lm = _lm(rng, N, rng.choice([0.3, 1.0, 0.7]), rng.random() < 0.5)
    elif cls == "f64":
        dtype = "f64"
        T, V, N = rng.randint(1, 7), rng.randint(1, 4), rng.choice([1, 2, 3])
        width, scale = rng.choice([1, 2, 4, 8, 40]), rng.choice([1.0, 3.0, 30.0])
        if rng.random() < 0.5:
            lm = _lm(rng, N, rng.choice([0.3, 1.0]), rng.random() < 0.5)
        if rng.random() < 0.4:
            lens = _mixed_lens(rng, T, N)
    elif cls == "beta0":
        T, V, N = rng.randint(1, 6), rng.randint(1, 4), rng.choice([1, 2])
        lm = _lm(rng, N, 0.0, rng.random() < 0.5)
    logits = _logits(rng, T, N, V, scale)
    if cls == "big_working_set":
        # batch x beam x beam x vocabulary runs to millions of entries, none of the sizes a round number
        # (block-wise walks over any of these dimensions)
        cells = rng.choice([2 ** 20, 2 ** 21, 2 ** 22]) * rng.uniform(1.0, 1.9)
        if rng.random() < 0.5:
            # large vocabulary of which a handful of tokens carries the mass (as acoustic models do)
            V, width, T = rng.choice([61, 130, 257, 300]), rng.choice([24, 31, 40, 64]), rng.randint(4, 6)
            N = max(1, min(6, int(cells / (width * width * V)) + 1))
            strong = rng.sample(range(V + 1), rng.randint(2, 4))
            logits = []
            for t in range(T):
                if rng.random() < 0.3:
                    strong[rng.randrange(len(strong))] = rng.randrange(V + 1)
                frame = []
                for n in range(N):
                    row = [round(rng.gauss(-7.0, 0.5), 3) for _ in range(V + 1)]
                    for v in strong:
                        row[v] = round(rng.gauss(0.0, 1.0), 3)
                    frame.append(row)
                logits.append(frame)
        else:
            V, T = rng.choice([3, 4]), rng.randint(5, 6)
            N = rng.choice([1, 1, 2])
            width = int(math.sqrt(cells / (N * V))) + rng.randint(1, 9)
            logits = _logits(rng, T, N, V, rng.choice([0.5, 1.0, 2.0]))
    if cls == "long_pow2_vocab":
        # many frames over a vocabulary whose size is a power of two; near-deterministic frames (so that a narrow
        # beam follows long hypotheses) with a few frames, mostly late ones, where two labels compete: hypotheses
        # that share a long beginning and differ near the end
        V, T, N = rng.choice([8, 16, 16, 32, 64, 256]), rng.randint(14, 26), rng.choice([1, 1, 2])
        width = rng.randint(2, 8)
        amb = {rng.randrange(T // 2, T) for _ in range(rng.randint(1, 3))}
        logits = []
        for t in range(T):
            frame = []
            for n in range(N):
                row = [round(rng.gauss(0.0, 1.0), 3) for _ in range(V + 1)]
                top = rng.randrange(V + 1) if rng.random() < 0.8 else V
                row[top] += 12.0
                if t in amb:
                    row[rng.randrange(V)] += 12.0 + rng.choice([-1.0, 0.0, 0.5])
                frame.append(row)
            logits.append(frame)
        if N == 2 and rng.random() < 0.5:
            lens = [T, rng.randint(T // 2, T)]
            rng.shuffle(lens)
    if cls == "very_long":
        # utterances of 64..160 frames (periodic bookkeeping, drift), ragged batches in which some element ends long
        # before the others; confident frames so that the masses stay well inside single precision
        V, N = rng.choice([1, 1, 2, 3]), rng.choice([1, 2, 2, 3])
        T = rng.choice([64, 65, 70, 80, 128, 129, 160, rng.randint(64, 160)])
        width = rng.choice([70, 100, T + 5]) if (V == 1 and rng.random() < 0.6) else rng.randint(1, 6)
        logits = []
        for t in range(T):
            frame = []
            for n in range(N):
                row = [round(rng.gauss(0.0, 0.7), 3) for _ in range(V + 1)]
                row[rng.randrange(V + 1) if rng.random() < 0.5 else V] += rng.choice([3.0, 4.0, 6.0])
                frame.append(row)
            logits.append(frame)
        if N > 1:
            lens = [T] + [rng.choice([rng.randint(1, 63), rng.randint(1, T), 20]) for _ in range(N - 1)]
            rng.shuffle(lens)
        if rng.random() < 0.25:
            lm = _lm(rng, N, rng.choice([0.3, 1.0]), rng.random() < 0.5)
    return {"class": cls, "T": T, "N": N, "V": V, "width": width, "dtype": dtype, "logits": logits,
            "lens": lens, "lm": lm, "form": form}


def enumerate_cases(tier):
    """thorough: every sequence of <=3 frames over a 5-point grid of frame distributions (V=2),
    each at widths 1, 2, 4 and 16 (a small scope searched exhaustively, not the whole domain)."""
    if tier != "thorough":
        return
    import itertools

    grid = [[0.0, 0.0, 0.0], [3.0, 0.0, 0.0], [0.0, 3.0, 0.0], [0.0, 0.0, 3.0], [3.0, 3.0, 0.0]]
    for T in (1, 2, 3):
        for frames in itertools.product(grid, repeat=T):
            for width in (1, 2, 4, 16):
                yield {"class": "grid", "T": T, "N": 1, "V": 2, "width": width, "dtype": "f32",
                       "logits": [[list(f)] for f in frames], "lens": None, "lm": None, "form": "module"}


# --------------------------------------------------------------------------- step recorder

_ORIG = {}
_REC = None


def _wrap(orig):
    def ctc_prefix_search_advance(probs_t, width, probs_prev, y_prev, y_prev_last, y_prev_lens,
                                  prev_is_prefix):
        out = orig(probs_t, width, probs_prev, y_prev, y_prev_last, y_prev_lens, prev_is_prefix)
        if _REC is not None:
            _REC.append({
                "nb_prev": probs_prev[0].clone(), "b_prev": probs_prev[1].clone(),
                "y": out[0].clone(), "lens": out[2].clone(), "nb": out[3][0].clone(),
                "b": out[3][1].clone(), "isp": out[4].clone(),
            })
        return out

    ctc_prefix_search_advance.__wrapped__ = orig
    return ctc_prefix_search_advance


def setup(mon):
    import pydrobert.torch._decoding as D
    import pydrobert.torch.functional as F

    orig = D.ctc_prefix_search_advance
    _ORIG["D"], _ORIG["F"] = orig, F.ctc_prefix_search_advance
    w = _wrap(orig)
    D.ctc_prefix_search_advance = w
    F.ctc_prefix_search_advance = w


def teardown(mon):
    import pydrobert.torch._decoding as D
    import pydrobert.torch.functional as F

    if _ORIG:
        D.ctc_prefix_search_advance = _ORIG["D"]
        F.ctc_prefix_search_advance = _ORIG["F"]
        _ORIG.clear()


# --------------------------------------------------------------------------- driving the code


def _tols(case):
    vm = bool(case["lm"] and case["lm"]["valid_mixture"] and case["lm"]["beta"])
    if case["dtype"] == "f64":
        return dict(rel=1e-9, abs=(1e-13 if vm else 1e-300), tie_rel=1e-7, tie_abs=(1e-12 if vm else 0.0))
    return dict(rel=2e-4, abs=(5e-6 if vm else 1e-30), tie_rel=2e-3, tie_abs=(2e-5 if vm else 0.0))


def _search(mon, case, logits, lens, conds, name):
    """Run one search on the real code; returns (y, y_lens, y_probs, steps, lm)."""
    global _REC
    import torch
    import pydrobert.torch.modules as M
    import pydrobert.torch.functional as F

    V, W = case["V"], case["width"]
    lmc = case["lm"]
    lm, init, beta, vm = None, None, 0.2, False
    if lmc is not None:
        table = LM.make_table(lmc["seed"], V, lmc["scale"])
        lm = LM.hashlm_class()(V, table, logits.dtype, raw=bool(lmc.get("raw")))
        if lmc.get("raw"):
            mon.cls("lm_unnormalised_scores")
        if (lmc["seed"] + V + W) % 3 == 1:
            lm.rebuild = True
            mon.cls("lm_rebuilds_start_state_on_every_update_input")
        init = {"cond": torch.tensor(conds, dtype=torch.long)}
        beta, vm = lmc["beta"], lmc["valid_mixture"]
    _REC = steps = []
    try:
        if case["form"] == "manual":
            def run():
                T, N = logits.shape[:2]
                probs = logits.softmax(2)
                nb = torch.zeros((N, 1), dtype=logits.dtype)
                b = torch.ones((N, 1), dtype=logits.dtype)
                y = torch.empty((0, N, 1), dtype=torch.long)
                ylens = last = torch.zeros((N, 1), dtype=torch.long)
                isp = torch.ones((N, 1, 1), dtype=torch.bool)
                for t in range(T):
                    ext = probs[t, :, :V].unsqueeze(1).expand(N, nb.size(1), V)
                    y, last, ylens, (nb, b), isp, _, _ = F.ctc_prefix_search_advance(
                        (ext, probs[t, :, :V], probs[t, :, V]), W, (nb, b), y, last, ylens, isp)
                return y, ylens, nb + b

            out = mon.lib(name, run)
        else:
            search = LY.travelled(M.CTCPrefixSearch(W, beta, lm, vm), W, V, case["T"], pickle_ok=False)
            lm = search.lm
            if lm is None and logits.size(1) > 1 and (W + logits.size(0)) % 2 == 0:
                # a history of calls on ONE module object: first a search over the first element alone
                # (other batch size, unrecorded), then the judged call
                rec, _REC = _REC, None
                try:
                    mon.lib(name + "(warm-up call on the same object)",
                            lambda: search(logits[:, :1], None if lens is None else lens[:1]))
                finally:
                    _REC = rec
                mon.cls("module_object_reused")
            if init is None:
                out = mon.lib(name, lambda: search(logits, lens))
            else:
                out = mon.lib(name, lambda: search(logits, lens, init))
    finally:
        _REC = None
    return out[0], out[1], out[2], steps, lm


def _rows(y, y_lens, y_probs, n):
    """[(prefix tuple, mass)] of batch element n, in slot order."""
    out = []
    probs = y_probs[n].tolist()
    lens = y_lens[n].tolist()
    for k, (p, L) in enumerate(zip(probs, lens)):
        pre = tuple(y[:L, n, k].tolist()) if 0 <= L <= y.size(0) else None
        out.append((pre, p, L))
    return out


def _judge_result(mon, rows, ref, frames, ext, V, tol, tag, enum):
    """Invariants + oracle comparison for one element's result."""
    Tn = len(frames)
    masses = [p for _, p, _ in rows]
    mon.check(all(p == p for p in masses), "no-nan", masses=masses, where=tag)
    mon.check(all(masses[k] >= masses[k + 1] for k in range(len(masses) - 1)), "non-increasing",
              masses=masses, where=tag)
    mon.check(all(p > 0 or p == 0 or p == float("-inf") for p in masses), "empty-slot-mass",
              masses=masses, where=tag)
    seen = {}
    for k, (pre, p, L) in enumerate(rows):
        if not p > 0:
            continue
        mon.check(p != float("inf"), "finite-mass", slot=k, mass=p, where=tag)
        mon.check(pre is not None and L <= Tn, "prefix-length", slot=k, length=L, frames=Tn, where=tag)
        mon.check(all(0 <= v < V for v in pre), "blank-free", slot=k, prefix=pre, where=tag)
        mon.check(pre not in seen, "distinct", slot=k, other=seen.get(pre), prefix=pre, mass=p,
                  masses=masses, where=tag)
        seen[pre] = k
        # never more than the exact mass of all alignments collapsing to the prefix
        exact = R.alpha_mass(pre, frames, ext)
        if enum is not None:
            e2 = enum.get(pre, 0.0)
            mon.check(abs(e2 - exact) <= 1e-12 + 1e-9 * exact, "oracle-crosscheck", prefix=pre,
                      enumeration=e2, forward=exact)
        mon.check(p <= exact * (1 + tol["rel"]) + tol["abs"], "never-more-than-exact", slot=k,
                  prefix=pre, observed=p, exact=exact, where=tag)
        if exact > 0:
            mon.dev("excess-over-exact", max(0.0, p - exact - tol["abs"]) / exact if exact > R.SIGNIFICANT else 0.0,
                    tol["rel"])
    if ref.tie:
        return
    # reference prefix-beam search of the same width
    want = {k: nb + b for k, nb, b in ref.final}
    lib_floor = max(R.SIGNIFICANT, 4 * tol["abs"])
    for pre, m in want.items():
        if m <= R.SIGNIFICANT:
            continue
        if pre not in seen:
            mon.check(m <= lib_floor, "reference-prefix-missing", prefix=pre, expected=m,
                      observed=[[list(a), b] for a, b, _ in rows if b > 0], where=tag)
            continue
        mon.close(rows[seen[pre]][1], m, tol["abs"], "mass-vs-reference", rel=tol["rel"], prefix=pre, where=tag)
    for pre, k in seen.items():
        p = rows[k][1]
        if p > lib_floor:
            mon.check(pre in want and want[pre] > 0, "prefix-not-in-reference", prefix=pre, observed=p,
                      expected=want.get(pre, 0.0), where=tag)
    if not ref.pruned_positive:
        # nothing had to be pruned: every label sequence of positive mass, with its exact mass
        for pre, m in want.items():
            exact = R.alpha_mass(pre, frames, ext)
            mon.check(abs(m - exact) <= 1e-12 + 1e-9 * exact, "oracle-crosscheck", prefix=pre, beam=m, forward=exact)
            if exact > R.SIGNIFICANT and pre in seen:
                mon.close(rows[seen[pre]][1], exact, tol["abs"], "exact-when-unpruned", rel=tol["rel"],
                          prefix=pre, where=tag)
        if enum is not None:
            for pre, m in enum.items():
                if m > lib_floor:
                    mon.check(pre in seen, "exact-when-unpruned-missing", prefix=pre, exact=m, where=tag)


def _judge_steps(mon, steps, n, ref, Tn, tol, tag):
    """Invariant at the step hook for batch element n (frames t < Tn only)."""
    for t, st in enumerate(steps[:Tn]):
        nb, b = st["nb"][n].tolist(), st["b"][n].tolist()
        mon.check(all(x == x for x in nb) and all(x == x for x in b), "step-no-nan", t=t, nb=nb, b=b, where=tag)
        y, lens, isp = st["y"], st["lens"][n].tolist(), st["isp"][n].tolist()
        live = [k for k in range(len(nb)) if nb[k] + b[k] > 0]
        yn = y[:, n].t().tolist()
        pres = {k: tuple(yn[k][: lens[k]]) for k in live}
        bad = [(k, k2, pres[k], pres[k2], isp[k][k2]) for k in live for k2 in live
               if isp[k][k2] != (pres[k2][: len(pres[k])] == pres[k])]
        mon.ev("step-is-prefix-pairs", len(live) ** 2)
        mon.check(not bad, "step-is-prefix", t=t, mismatches=bad[:5], where=tag)
        if ref.tie and t >= ref.tie_step:
            continue
        beam = ref.steps[t]
        for k in live:
            tot = nb[k] + b[k]
            if tot <= max(R.SIGNIFICANT, 4 * tol["abs"]):
                continue
            r = beam.get(pres[k])
            mon.check(r is not None, "step-prefix-not-in-reference", t=t, prefix=pres[k], observed=tot, where=tag)
            mon.close(nb[k], r[0], max(tol["abs"], 1e-30), "step-nb-mass", rel=tol["rel"], t=t, prefix=pres[k], where=tag)
            mon.close(b[k], r[1], max(tol["abs"], 1e-30), "step-b-mass", rel=tol["rel"], t=t, prefix=pres[k], where=tag)


def _judge_lm(mon, lm, steps, lens_n, conds, V, N, tag):
    """Offline: the state handed to the model is the state of the prefix it is asked about."""
    if lm is None:
        return
    mon.ev("lm.calc_idx_log_probs", len(lm.calls))
    mon.ev("lm.extract_by_src", lm.counts["extract_by_src"])
    mon.ev("lm.mix_by_mask", lm.counts["mix_by_mask"])
    if len(lm.calls) != len(steps):
        if lm.calls:
            mon.stat("lm_log_not_joinable")
        return
    for c, (hist, idx, h, cnt) in enumerate(lm.calls):
        st = steps[c]
        Kp = st["nb_prev"].shape[1]
        mon.check(hist.size(1) == N * Kp and h.numel() == N * Kp, "lm-call-shape", call=c,
                  rows=hist.size(1), state_rows=h.numel(), expected=N * Kp, where=tag)
        tot = (st["nb_prev"] + st["b_prev"]).tolist()
        idx = idx.expand(N * Kp).tolist()
        for n in range(N):
            if c >= lens_n[n]:
                continue
            for k in range(Kp):
                if not tot[n][k] > 0:
                    continue
                j = n * Kp + k
                pre = tuple(hist[: idx[j], j].tolist())
                eh, ec = LM.py_state(conds[n], V, pre)
                mon.check(int(h[j]) == eh and int(cnt[j]) == ec, "lm-state", call=c, element=n, slot=k,
                          prefix=pre, observed=[int(h[j]), int(cnt[j])], expected=[eh, ec], where=tag)


def execute(case, mon):
    import torch

    T, N, V, W = case["T"], case["N"], case["V"], case["width"]
    dtype = torch.float64 if case["dtype"] == "f64" else torch.float32
    logits = torch.tensor(case["logits"], dtype=dtype).reshape(T, N, V + 1)
    logits = LY.relayout(logits, case.get("layout") or LY.pick(T, N, V, case["width"]))
    lens = case["lens"]
    lens_t = None if lens is None else torch.tensor(lens, dtype=torch.long)
    if lens_t is not None and max(lens, default=0) < 128 and (sum(lens) + case["width"]) % 3 == 0:
        # the lengths in another integer type ("a tensor of shape (N,)")
        lens_t = lens_t.to(torch.int32 if sum(lens) % 2 else torch.uint8)
        mon.cls("lens_dtype_" + str(lens_t.dtype).replace("torch.", ""))
    lens_n = [T] * N if lens is None else list(lens)
    lmc = case["lm"]
    conds = lmc["conds"] if lmc else [0] * N
    tol = _tols(case)
    name = "CTCPrefixSearch" if case["form"] == "module" else "ctc_prefix_search_advance-loop"

    y, y_lens, y_probs, steps, lm = _search(mon, case, logits, lens_t, conds, name)
    mon.ev("ctc_prefix_search_advance", len(steps))
    mon.check(y.dim() == 3 and tuple(y.shape[1:]) == (N, W) and y.size(0) <= T, "shape",
              y=list(y.shape), expected=["<=%d" % T, N, W])
    mon.check(tuple(y_lens.shape) == (N, W) and tuple(y_probs.shape) == (N, W), "shape",
              y_lens=list(y_lens.shape), y_probs=list(y_probs.shape))
    joinable = len(steps) == max(lens_n)  # one step per frame (harness assumption, not the property)
    if not joinable:
        mon.stat("steps_not_joinable")
    else:
        _judge_lm(mon, lm, steps, lens_n, conds, V, N, "batch")

    lf = logits.to(torch.float64).tolist()  # exactly the values the library saw
    nontrivial = False
    for n in range(N):
        Tn = lens_n[n]
        frames = R.frames_from_logits([lf[t][n] for t in range(Tn)])
        lmp = None
        if lmc is not None:
            lmp = LM.py_probs(LM.make_table(lmc["seed"], V, lmc["scale"]), conds[n], V)
        ext = R.make_ext(frames, lmp, lmc["beta"] if lmc else 0.0, bool(lmc and lmc["valid_mixture"]))
        ref = R.prefix_beam(frames, W, ext, tol["tie_rel"], tol["tie_abs"])
        enum = R.enumerate_masses(frames, ext) if (V + 1) ** Tn <= 1024 else None
        if enum is not None:
            mon.stat("enumerated_elements")
        # what kind of history was this?
        sig = "|".join("%d%s%s" % (min(m, 3), "p" if p else "", "f" if c < W else "") for m, p, c in ref.history)
        mon.observe("merge_prune_history", sig)
        if any(m for m, _, _ in ref.history):
            mon.cls("merge")
        mon.cls("pruned" if ref.pruned_positive else "unpruned")
        if ref.min_cands_late is not None and ref.min_cands_late < W:
            mon.cls("width_exceeds_candidates_late")
        if Tn == 0:
            mon.cls("len0_element")
        if ref.insignificant_boundary:
            mon.stat("insignificant_boundary")
        if ref.tie:
            mon.ambiguous("tie-at-pruning-boundary")
        if Tn >= 2 and sum(1 for _, nb, b in ref.final if nb + b > 0) >= 2:
            nontrivial = True
        rows = _rows(y, y_lens, y_probs, n)
        _judge_result(mon, rows, ref, frames, ext, V, tol, "batch[%d]" % n, enum)
        if joinable:
            _judge_steps(mon, steps, n, ref, Tn, tol, "batch[%d]" % n)
        # an element's result equals that of searching its own valid frames alone
        if N > 1 or lens is not None:
            solo_case = dict(case, form="module")
            y1, l1, p1, steps1, lm1 = _search(mon, solo_case, logits[:Tn, n:n + 1].clone(), None, [conds[n]],
                                              "CTCPrefixSearch")
            mon.ev("ctc_prefix_search_advance", len(steps1))
            rows1 = _rows(y1, l1, p1, 0)
            _judge_result(mon, rows1, ref, frames, ext, V, tol, "solo[%d]" % n, enum)
            if len(steps1) == Tn:
                _judge_steps(mon, steps1, 0, ref, Tn, tol, "solo[%d]" % n)
                _judge_lm(mon, lm1, steps1, [Tn], [conds[n]], V, 1, "solo[%d]" % n)
            else:
                mon.stat("steps_not_joinable")
            if not ref.tie:
                floor = max(R.SIGNIFICANT, 4 * tol["abs"])
                a = {pre: p for pre, p, _ in rows if p > floor}
                b = {pre: p for pre, p, _ in rows1 if p > floor}
                mon.check(set(a) == set(b), "batch-equals-solo", element=n, batch=[[list(k), v] for k, v in a.items()],
                          solo=[[list(k), v] for k, v in b.items()])
                for pre in a:
                    mon.close(a[pre], b[pre], tol["abs"], "batch-equals-solo-mass", rel=tol["rel"], element=n, prefix=pre)
                mon.check([r[0] for r in rows if r[1] > floor] == [r[0] for r in rows1 if r[1] > floor]
                          or _has_close_pair(a, tol), "batch-equals-solo-order", element=n)
    if not nontrivial:
        mon.trivial()


def _has_close_pair(masses, tol):
    """two kept prefixes of (nearly) equal mass may legitimately swap places"""
    v = sorted(masses.values())
    return any(v[i + 1] - v[i] <= tol["abs"] + 10 * tol["rel"] * v[i + 1] for i in range(len(v) - 1))
