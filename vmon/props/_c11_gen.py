"""Class-directed generators for C11 (transcript file formats).

Every case is JSON-able; tuples of the library's transcript structures are encoded as

* plain token            -> "tok" (or an int for id-less token transcripts)
* timed token            -> {"t": [tok, start, end]}
* alternates (trn only)  -> {"alt": [[elem, ...], [elem, ...]]}   (elements nest)

and turned back into the library's own shapes by :func:`decode_trn` / :func:`decode_timed`.
"""

# tokens that avoid only the delimiters of the trn format: ( ) { } / and white space
TRN_TOKENS = [
    "a", "b", "the", "cat", "xyz", "a1b", "abc", "42", "007", "3.5", "-1", "1e3", "@", ";;", ";;x",
    "é", "ñandú", "日本", "語", "☃", "Ω", "ß", "\U0001d11e",
    "it's", '"q"', "<unk>", "[noise]", "a-b", "a_b", "a.b", "a,b", "*", "#", "%hes", "&", "!", "?",
    "=", "+", "~", "^", "|", "\\", "a:b", "`", "$", "-", "_", "…", "A", "B'", "0",
]
_TRN_CHARS = "abcXYZ019@;.,'\"-_<>[]*#%&!?=+~^|\\:`$éß日☃"
# trn only: the format's one blank delimiter is the ASCII space; other Unicode space characters are ordinary
# token characters (e.g. the no-break space of French numbers)
TRN_SPACEY = ["10\u00a0000", "a\u3000b", "x\u202fy"]  # never at a token edge: lines are str.strip()ped
# ctm: white-space separated fields, ';;' starts a comment
CTM_TOKENS = [t for t in TRN_TOKENS if ";;" not in t] + ["(", ")", "{x}", "a/b", "/"]
_CTM_CHARS = _TRN_CHARS.replace(";", "") + "(){}/"
# TextGrid: only the double quote delimits a label; blanks and the empty label are legal
TG_TOKENS = [t for t in TRN_TOKENS if '"' not in t] + [
    "", " ", "a b", " lead", "trail ", "(x)", "{a / b}", "a/b", "two  blanks", "12", "0.5", "1",
]
_TG_CHARS = _TRN_CHARS.replace(chr(34), "") + " (){}/"
TG_TIER_NAMES = ["transcript", "words", "my tier", "", "12", "étage", "a.b", "IntervalTier", "t(1)"]

CLASSES = [
    "trn_plain", "tg_interval", "ctm_default", "tok_shift",
    "trn_alt", "tg_point", "ctm_map", "tok_frames",
    "trn_nested", "tg_prec0", "ctm_bigtimes", "tok_unk",
    "trn_timed", "tg_bigtimes", "ctm_equal_start", "tok_skip",
    "trn_empty", "tg_equal_start", "ctm_shared_wave", "tok_point",
    "trn_mp", "tg_gaps", "ctm_float", "tok_noid",
    "trn_mp", "tg_edge_gaps", "ctm_chan", "tok_bigtimes",
]
HOSTILE = ["tg_bigtimes", "tg_equal_start", "tg_prec0", "ctm_bigtimes", "ctm_equal_start"]
MP_CONFIGS = [(k, c) for k in (1, 2, 4) for c in (1, 3, 1000)]


def _tok(rng, pool, chars):
    if rng.random() < 0.75:
        return rng.choice(pool)
    return "".join(rng.choice(chars) for _ in range(rng.randint(1, 5)))


def _uniq_ids(rng, n, chars="abcuttUTT0123456789-_.é", spaces=False):
    out = []
    while len(out) < n:
        s = "".join(rng.choice(chars) for _ in range(rng.randint(1, 6)))
        if spaces and rng.random() < 0.4:
            s = s + " " + "".join(rng.choice(chars) for _ in range(rng.randint(1, 3)))
        if spaces and rng.random() < 0.15:
            # what stands between the last pair of parentheses IS the id, blanks at its ends included
            s = rng.choice([" " + s, s + " ", " " + s + " "])
        if s not in out:
            out.append(s)
    return out


# ----------------------------------------------------------------------------- trn


def _gen_alt(rng, depth):
    """Alternates tree: >= 1 alternative, no empty alternative (not expressible)."""
    nalt = rng.choice([1, 2, 2, 3, 4])
    alts = []
    force = rng.randrange(nalt) if depth > 1 and rng.random() < 0.8 else -1
    for a in range(nalt):
        alt = []
        for j in range(rng.randint(1, 3)):
            if depth > 1 and (rng.random() < 0.25 or (a == force and j == 0)):
                alt.append({"alt": _gen_alt(rng, depth - 1)})
            else:
                alt.append(_tok(rng, TRN_TOKENS + TRN_SPACEY, _TRN_CHARS))
        alts.append(alt)
    return alts


def _max_depth(elem):
    if isinstance(elem, dict) and "alt" in elem:
        return 1 + max((max((_max_depth(e) for e in alt), default=0) for alt in elem["alt"]), default=0)
    return 0


def gen_trn(rng, tier, cls, i):
    big = tier == "thorough"
    nmax = 12 if cls == "trn_mp" else 8
    n = rng.randint(0 if cls == "trn_empty" else 1, nmax)
    if cls == "trn_mp":
        n = rng.randint(3, 16 if big else 12)
    ids = _uniq_ids(rng, n, spaces=True)
    if cls == "trn_empty" and n and rng.random() < 0.5:
        ids[rng.randrange(n)] = ""
    utts = []
    for u in ids:
        R = rng.randint(0, 8)
        if cls == "trn_empty" and rng.random() < 0.6:
            R = 0
        tr = []
        for _ in range(R):
            r = rng.random()
            if cls in ("trn_alt", "trn_mp") and r < 0.3:
                tr.append({"alt": _gen_alt(rng, 1)})
            elif cls == "trn_nested" and r < 0.4:
                tr.append({"alt": _gen_alt(rng, rng.choice([2, 2, 3, 3, 4 if big else 3]))})
            elif cls == "trn_timed" and r < 0.6:
                s = rng.randint(0, 800) / 8
                tr.append({"t": [_tok(rng, TRN_TOKENS, _TRN_CHARS), s, s + rng.randint(0, 40) / 8]})
            elif cls == "trn_timed" and r < 0.7:
                # a placeholder-timed alternate next to timed tokens
                tr.append({"alt": _gen_alt(rng, 1)})
            else:
                tr.append(_tok(rng, TRN_TOKENS + TRN_SPACEY, _TRN_CHARS))
        utts.append([u, tr])
    case = {"family": "trn", "class": cls, "utts": utts, "warn": rng.random() < 0.3,
            "blank_lines": rng.random() < 0.3}
    if cls == "trn_mp":
        k, c = MP_CONFIGS[(i // 4) % len(MP_CONFIGS)]  # 7 is coprime to 9: every (k, c) comes round
        pattern = rng.choice(["random", "first_slow", "alternate", "none"])
        delays = []
        for j in range(n):
            if pattern == "random":
                d = rng.choice([0, 0, 1, 2, 4, 8])
            elif pattern == "first_slow":
                d = 10 if j < max(1, n // 4) else 0
            elif pattern == "alternate":
                d = 5 if j % 2 == 0 else 0
            else:
                d = 0
            delays.append(d)
        case["mp"] = {"processes": k, "chunk_size": c, "delays_ms": delays, "pattern": pattern,
                      "via": rng.choice(["file", "file", "path"])}
    return case


def decode_trn(tr, for_write=True):
    """JSON transcript -> the library's structure.  for_write=False gives what a reader must
    return: timed tokens lose their times (trn has none)."""
    out = []
    for e in tr:
        if isinstance(e, dict) and "alt" in e:
            out.append((_decode_alts(e["alt"]), -1, -1))
        elif isinstance(e, dict):
            tok, s, t = e["t"]
            out.append((tok, s, t) if for_write else tok)
        else:
            out.append(e)
    return out


def _decode_alts(alts):
    return [[_decode_alts(e["alt"]) if isinstance(e, dict) else e for e in alt] for alt in alts]


def trn_depth(tr):
    return max((_max_depth(e) for e in tr), default=0)


# ----------------------------------------------------------------------------- times


def _grid_value(rng, kind):
    if kind == "dyadic":
        return rng.randint(0, 64) / 64
    if kind == "decimal":
        return rng.randint(0, 1000) / 1000
    return rng.random()


def gen_segments(rng, n, kind="dyadic", big=False, equal_start=False, gaps=False, points=False,
                 zero_len=0.1, start0=None):
    """Non-decreasing, non-overlapping segments (tok-less): [(start, end)]."""
    t = start0 if start0 is not None else (rng.choice([0.0, 0.0, _grid_value(rng, kind) * 4]))
    if big and start0 is None:
        t = rng.choice([8.0, 9.0, 9.5, 7.25, 98.5, 0.0]) + (0 if kind == "dyadic" else _grid_value(rng, kind) / 4)
    segs = []
    for j in range(n):
        if gaps and rng.random() < 0.5:
            t = t + (_grid_value(rng, kind) + (1 / 64 if kind == "dyadic" else 0.01)) * (3 if not big else 6)
        elif not gaps and not equal_start and rng.random() < 0.15:
            t = t + _grid_value(rng, kind)
        if points:
            segs.append((t, t))
            if not (equal_start and rng.random() < 0.4):
                t = t + (_grid_value(rng, kind) + 1 / 64) * (rng.choice([1, 1, 30, 95]) if big else 2)
            continue
        if rng.random() < (0.5 if equal_start else zero_len):
            d = 0.0
        else:
            d = (_grid_value(rng, kind) + (1 / 64 if kind == "dyadic" else 0.004))
            d = d * (rng.choice([1, 1, 4, 30, 95, 95]) if big else rng.choice([1, 1, 2]))
        segs.append((t, t + d))
        t = t + d
    return segs


# ----------------------------------------------------------------------------- ctm


def gen_ctm(rng, tier, cls, i):
    n = rng.randint(1, 8)
    utts_ids = _uniq_ids(rng, n)
    kind = {"ctm_float": "float"}.get(cls, rng.choice(["dyadic", "dyadic", "decimal", "float"]))
    if cls in ("ctm_bigtimes", "ctm_equal_start"):
        kind = rng.choice(["dyadic", "decimal"])
    utts = []
    for u in utts_ids:
        R = rng.randint(0 if rng.random() < 0.15 else 1, 8)
        segs = gen_segments(rng, R, kind, big=cls == "ctm_bigtimes", equal_start=cls == "ctm_equal_start",
                            gaps=rng.random() < 0.5)
        if rng.random() < 0.5:
            rng.shuffle(segs)  # the writer must order by start itself
        toks = [[_tok(rng, CTM_TOKENS, _CTM_CHARS), s, e] for s, e in segs]
        if kind == "dyadic" and rng.random() < 0.2:
            toks = [[t, int(s) if float(s).is_integer() else s, e] for t, s, e in toks]
        utts.append([u, toks])
    if rng.random() < 0.5:
        rng.shuffle(utts)
    case = {"family": "ctm", "class": cls, "utts": utts, "kind": kind, "utt2wc": None, "chan": None,
            "read_map": True}
    chans = ["A", "B", "1", "2", "ch☃", "a"]
    if cls in ("ctm_map", "ctm_shared_wave") or (cls not in ("ctm_default", "ctm_chan") and rng.random() < 0.5):
        nw = max(1, n // 2) if cls == "ctm_shared_wave" else rng.randint(1, n)
        waves = _uniq_ids(rng, nw, chars="wavWAV0123456789_.-")
        k = 0
        while len(set(waves)) * len(chans) < n:
            k += 1
            if "wav%d" % k not in waves:
                waves.append("wav%d" % k)
        waves = list(dict.fromkeys(waves))  # the (wave, channel) pairs must be distinct: utt2wc is a bijection
        pairs = rng.sample([[w, c] for w in waves for c in chans], n)
        case["utt2wc"] = dict(zip(utts_ids, pairs))
    elif cls == "ctm_chan" or rng.random() < 0.3:
        case["chan"] = rng.choice(chans)
        case["read_map"] = rng.random() < 0.5
    return case


# ----------------------------------------------------------------------------- TextGrid


def gen_tg(rng, tier, cls, i):
    n = rng.randint(1, 8)
    p = rng.randint(0, 6)
    kind = rng.choice(["dyadic", "decimal", "float"])
    points = cls == "tg_point" or (cls in ("tg_bigtimes", "tg_equal_start", "tg_prec0") and rng.random() < 0.3)
    if cls == "tg_prec0":
        p = 0
    if cls == "tg_bigtimes":
        p = rng.choice([0, 1, 2, 3, 3, 6])
        n = rng.randint(3, 8)
    segs = gen_segments(
        rng, n, kind, big=cls == "tg_bigtimes", equal_start=cls == "tg_equal_start",
        gaps=cls in ("tg_gaps", "tg_edge_gaps") or rng.random() < 0.3, points=points,
        start0=(rng.choice([9.0, 9.5, 8.75, 99.0, 7.0]) if cls == "tg_bigtimes" and rng.random() < 0.6 else None),
    )
    tiny = cls == "tg_gaps" and rng.random() < 0.5
    if tiny:
        # gaps of a few units of the LAST PRINTED DIGIT (sub-millisecond for p >= 4): still gaps, and
        # still to be filled on request; all times lie exactly on the printed grid
        p, points = rng.choice([3, 4, 4, 5, 6]), False
        u, segs = rng.randint(0, 3000), []
        for _ in range(n):
            if segs and rng.random() < 0.7:
                u += rng.choice([1, 1, 2, 5, 8])
            d = rng.choice([1, 3, 40, 700, 2500])
            segs.append((u / 10 ** p, (u + d) / 10 ** p))
            u += d
    if cls == "tg_prec0":
        # spread over several seconds so that rounding to whole seconds both merges and separates
        segs = [(s * 3, e * 3) for s, e in segs]
    if points and rng.random() < 0.3 and p >= 2:
        # "length 0 within precision": ends differ below the printed digits
        segs = [(s, s + 10.0 ** (-p - 2) * rng.choice([0, 1, 3])) for s, e in segs]
        segs.sort()  # entries sharing a start must stay a tier: ordered by end as well
    tr = [[_tok(rng, TG_TOKENS, _TG_CHARS), s, e] for s, e in segs]
    point_tier = None
    r = rng.random()
    if points:
        point_tier = True if r < 0.35 else (False if r < 0.5 else None)
        if point_tier is True:
            tr = [[t, s, s] for t, s, e in tr]
    else:
        point_tier = False if r < 0.35 else None
    lo, hi = min(s for _, s, _ in tr), max(e for _, _, e in tr)
    case = {
        "family": "tg", "class": cls, "transcript": tr, "precision": p, "point_tier": point_tier,
        "tier_name": rng.choice(TG_TIER_NAMES) if rng.random() < 0.6 else None,
        "by_name": rng.random() < 0.5,
        "start_time": None, "end_time": None, "fill": None, "edge_gaps": cls == "tg_edge_gaps",
        "default_precision": rng.random() < 0.1 and not tiny, "tiny_gaps": tiny,
    }
    if cls == "tg_edge_gaps" or rng.random() < 0.4:
        case["start_time"] = max(0.0, lo - rng.choice([0.0, 0.5, 1.0, 2.25]))
        case["end_time"] = hi + rng.choice([0.0, 0.5, 1.0, 12.75, 100.0])
    if cls == "tg_edge_gaps":
        case["start_time"] = max(0.0, lo - rng.choice([0.5, 1.0, 2.25]))
        case["end_time"] = hi + rng.choice([0.5, 1.0, 12.75, 100.0])
    if cls in ("tg_gaps", "tg_edge_gaps") or rng.random() < 0.5:
        case["fill"] = rng.choice(["<fill>", "sil", "", "#gap"])
        # the filler must be recognisable: never one of the labels
        while any(t == case["fill"] for t, _, _ in tr):
            case["fill"] += "~"
    case["write_shuffled"] = rng.random() < 0.25
    return case


# ----------------------------------------------------------------------------- tokens


FRAME_SHIFTS = [1, 10, 12.5, 1000 / 16000]


def gen_tok(rng, tier, cls, i):
    R = rng.randint(0 if rng.random() < 0.1 else 1, 8)
    vocab = []
    while len(vocab) < rng.randint(1, 6):
        t = _tok(rng, TRN_TOKENS, _TRN_CHARS)
        if t not in vocab:
            vocab.append(t)
    ids = rng.sample(range(0, 50), len(vocab))
    if rng.random() < 0.2:
        ids = rng.sample([0, 1, 2, 3, 2 ** 31 + 7, 2 ** 40, 99, 1000], len(vocab))
    token2id = dict(zip(vocab, ids))
    shift = None if cls == "tok_frames" else FRAME_SHIFTS[(i // len(CLASSES)) % 4]
    if cls in ("tok_unk", "tok_skip", "tok_noid") and rng.random() < 0.4:
        shift = None
    kind = rng.choice(["dyadic", "decimal", "float"])
    big = cls == "tok_bigtimes"
    segs = gen_segments(rng, R, kind, big=big, gaps=rng.random() < 0.5, points=cls == "tok_point" and rng.random() < 0.5,
                        zero_len=0.5 if cls == "tok_point" else 0.1)
    if shift is None:
        segs = [(int(s * 16), int(s * 16) + int((e - s) * 16)) for s, e in segs]
    unk = None
    oov = []
    if cls == "tok_unk":
        mode = rng.choice(["in_vocab", "in_vocab", "id_only"])
        if mode == "in_vocab":
            unk = rng.choice(vocab)
        else:
            unk = rng.choice([51, 77, 2 ** 33])
        oov = ["<oov1>", "oové", "zzz"]
    tr = []
    for s, e in segs:
        if cls == "tok_noid":
            t = rng.choice([60, 61, 75, 2 ** 35, 300])  # never an id of the vocabulary
        elif oov and rng.random() < 0.4:
            t = rng.choice(oov)
        else:
            t = rng.choice(vocab)
        if rng.random() < (0.5 if cls == "tok_skip" else 0.15):
            tr.append(t)
        else:
            tr.append({"t": [t, s, e]})
    if cls == "tok_noid":
        # ids used directly: either no map at all, or a map that does not know these ints and no unk
        token2id = None if rng.random() < 0.6 else token2id
    return {"family": "tok", "class": cls, "transcript": tr, "token2id": token2id, "unk": unk,
            "frame_shift_ms": shift, "skip": cls == "tok_skip" and rng.random() < 0.7}


def decode_timed(tr):
    return [tuple(e["t"]) if isinstance(e, dict) else e for e in tr]


# ----------------------------------------------------------------------------- dispatch


def generate(rng, tier, i):
    cls = CLASSES[i % len(CLASSES)]
    fam = cls.split("_")[0]
    return {"trn": gen_trn, "ctm": gen_ctm, "tg": gen_tg, "tok": gen_tok}[fam](rng, tier, cls, i)
