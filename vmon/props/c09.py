"""C09 - variable-length padding and chunking equal per-sequence pad-and-slice.

Monitored entry points (boundary contract, DESIGN 2.1 A/B/D):
  functional.pad_variable / modules.PadVariable
  functional.chunk_by_slices / modules.ChunkBySlices
  functional.pad_masked_sequence / modules.PadMaskedSequence
  functional.random_shift / modules.RandomShift  (torch.rand_like and the pad_variable
  global of _img interposed for the duration of the call)

Judge: vmon/oracles/c09_pad.py, one row at a time on Python lists; torch's own
F.pad on the single row is a second opinion on the oracle where torch defines it.
"""
import warnings
from fractions import Fraction

from ..oracles import c09_pad as O
from . import _c09_gen as G
from .. import layout as LY

ID = "C09"
LEVEL = "exploration"
RULE = (
    "class-directed random batches (N<=5, T<=9 incl. T=0, trailing dims (), (1), (3), (2,2); float32/float64/int64; "
    "NaN or sentinel filler beyond each row's length; contiguous and strided x; functional and module forms): "
    "pad_variable with pads up to 3T, reflect pads up to len-1 and =len (documented error), empty rows; "
    "chunk_by_slices with negative starts, ends beyond the length, slices wholly in the left/right padding, empty, "
    "inverted, far-away empty slices, lens omitted; pad_masked_sequence in both layouts; RandomShift with scripted "
    "torch.rand_like outcomes (random 24-bit, and the extremes 0 and 1-2^-24 with prop 0/1/2), real RNG, eval mode; "
    "plus every (len,left,right,mode) and (len,start,end,mode) for T<=2 (quick) / T<=4 (thorough) solo and inside a "
    "3-row batch.  A case is distinct by the hash of its concrete inputs; it is non-trivial if at least one "
    "non-empty row really gets padded / cut to something other than itself (masked: a selected element moves; "
    "shift: training mode)."
)
ASSUMPTIONS = [
    "oracle: per-row textbook constant/reflect/replicate padding and slicing on Python lists (no torch, no library)",
    "comparison is exact (the functions only move values); constant fill values are exactly representable",
    "the valid part of an output row is its first `reported length` entries; nothing is asserted beyond it "
    "(pad_masked_sequence: the whole row is specified)",
    "reflect pads >= len, and replicate/reflect on an empty row, are outside the domain: the documented "
    "NotImplementedError / RuntimeError makes the case out-of-domain; returning instead is not judged",
    "RandomShift proportions are dyadic so that prop*len is exact in float32 and in the judge; the bound is read "
    "inclusively (pad <= prop*len), the weaker of the two readings of the documentation",
    "USE_JIT off (library runs as plain Python, so torch.rand_like can be interposed)",
]
BUDGET = {
    "quick": dict(cases=900, shards=4, timeout=600),
    "thorough": dict(cases=45000, shards=16, timeout=3000),
}
_HOSTILE = ["pad_gt_T", "wholly_right", "wholly_right_reflect", "wholly_left", "negative_start", "end_beyond",
            "empty_slice", "inverted_slice", "len0_row", "all_rows_empty", "extra_dims", "module_form", "noncontig",
            "zero_T", "lens_omitted", "reflect_pad_len_minus_1", "rng_extreme_hi", "rng_extreme_lo", "prop_zero",
            "shift_hits_cap"]
FLOORS = {
    "quick": {
        "events": {"pad_variable": 1000, "chunk_by_slices": 1500, "pad_masked_sequence": 200, "random_shift": 400,
                   "hook:rand_like": 150, "hook:pad_variable_from_shift": 200,
                   "assert:pad-row": 2500, "assert:chunk-row": 4000, "assert:chunk-len": 4000,
                   "assert:masked-row": 500, "assert:masked-len": 500, "assert:shift-embed": 500,
                   "assert:shift-eval-identity": 50, "assert:oracle-vs-torch-pad": 3000},
        "classes": dict({c: 40 for c in G.CLASSES}, **{c: 15 for c in _HOSTILE},
                        exhaustive_solo=2946, exhaustive_batch=1903),  # = the whole enumeration
        "stats": {"ood:NotImplementedError": 100, "ood:RuntimeError": 50, "rows_judged": 10000,
                  "shift_rows_really_padded": 300},
        "sets": {"pad_state": 1200, "chunk_state": 2500, "shift_state": 150},
        "distinct": 3000,
    },
    "thorough": {
        "events": {"pad_variable": 50000, "chunk_by_slices": 80000, "pad_masked_sequence": 15000,
                   "random_shift": 25000, "hook:rand_like": 10000, "hook:pad_variable_from_shift": 15000},
        "classes": dict({c: 3000 for c in G.CLASSES}, **{c: 1000 for c in _HOSTILE},
                        exhaustive_solo=25104, exhaustive_batch=17757),  # = the whole enumeration
        "stats": {"ood:NotImplementedError": 5000, "ood:RuntimeError": 2000},
        "sets": {"pad_state": 8000, "chunk_state": 15000},
        "distinct": 100000,
    },
}
EXHAUSTIVE = {"quick": False, "thorough": False}
CLASSES = G.CLASSES

generate = G.generate
enumerate_cases = G.enumerate_cases


# ---------------------------------------------------------------------------
# concrete inputs <-> tensors


def _flat(x, out):
    if isinstance(x, list):
        for v in x:
            _flat(v, out)
    else:
        out.append(float("nan") if x is None else x)
    return out


def _tensor(nested, shape, dtype):
    import torch

    dt = getattr(torch, dtype)
    return torch.tensor(_flat(nested, []), dtype=dt).reshape(shape)


def _cast(value, dtype):
    """The constant the library can at best store for `value` in a tensor of `dtype`."""
    if dtype == "int64":
        return int(value)
    if dtype == "bool":
        return bool(value)
    return float(value)


def _x(case):
    x = _tensor(case["x"], case["shape"], case["dtype"])
    x = LY.relayout(x, case.get("layout") or LY.pick(x.numel(), x.dim(), len(str(case.get("fn")))))
    if case.get("noncontig") and x.dim() >= 2:
        x = x.transpose(0, 1).contiguous().transpose(0, 1)  # same values, strided layout
    return x


def _rows(case):
    """Valid part of every row as plain lists (what the oracle is allowed to see)."""
    lens = case["lens"]
    return [case["x"][n][: (case["T"] if lens is None else lens[n])] for n in range(case["N"])]


def _proto(case):
    def rec(dims):
        return 0 if not dims else [rec(dims[1:]) for _ in range(dims[0])]

    return rec(case["rest"])


def _long(v):
    import torch

    return torch.tensor(v, dtype=torch.long)


# ---------------------------------------------------------------------------
# second opinion on the oracle: torch's own padding of the single row


def _torch_opinion(mon, case, row, left, right, mode, want):
    import torch

    if case["dtype"] not in ("float32", "float64") or len(row) == 0:
        return
    r = _tensor(row, [len(row), -1], case["dtype"])  # (L, F)
    r3 = r.t().unsqueeze(0)  # (1, F, L)
    if mode == "constant":
        p = torch.nn.functional.pad(r3, (left, right), "constant", _cast(case["value"], case["dtype"]))
    else:
        p = torch.nn.functional.pad(r3, (left, right), mode)
    p = p.squeeze(0).t()
    w = _tensor(want, [len(want), -1], case["dtype"])
    mon.check(p.shape == w.shape and bool((p == w).all()), "oracle-vs-torch-pad",
              oracle=want, torch=p, left=left, right=right, mode=mode)


# ---------------------------------------------------------------------------
# judges (take the library's output; also used on outputs observed in the repo tests)


def _common(mon, case, out, need_T):
    exp_tail = case["shape"][2:]
    mon.check(out.dim() == len(case["shape"]) and out.shape[0] == case["N"] and list(out.shape[2:]) == exp_tail
              and out.shape[1] >= need_T, "out-shape", observed=list(out.shape),
              expected=[case["N"], ">=%d" % need_T] + exp_tail)
    _dtype_obs(mon, case, out)


def _dtype_obs(mon, case, out):
    # the property speaks about values, not storage types: a changed dtype is recorded, never judged
    if str(out.dtype) != "torch." + case["dtype"]:
        mon.stat("output_dtype_differs_from_input")


def _judge_pv(mon, case, out):
    rows, pad, mode, T = _rows(case), case["pad"], case["mode"], case["T"]
    value = _cast(case["value"], case["dtype"])
    want = [O.pad_row(rows[n], pad[0][n], pad[1][n], mode, value, _proto(case)) for n in range(case["N"])]
    _common(mon, case, out, max(len(w) for w in want))
    nontrivial = False
    for n, w in enumerate(want):
        L, a, b = len(rows[n]), pad[0][n], pad[1][n]
        got = out[n, : len(w)].tolist()
        mon.check(got == w, "pad-row", n=n, observed=got, expected=w, length=L, left=a, right=b, mode=mode,
                  fn=case["fn"], T=T)
        mon.stat("rows_judged")
        mon.observe("pad_state", "%s/%d/%d/%d/%d" % (mode, T, L, a, b))
        _torch_opinion(mon, case, rows[n], a, b, mode, w)
        if L and (a or b):
            nontrivial = True
        if max(a, b) > T:
            mon.cls("pad_gt_T")
        if mode == "reflect" and L >= 2 and max(a, b) == L - 1:
            mon.cls("reflect_pad_len_minus_1")
    return nontrivial


def _judge_cb(mon, case, out):
    chunks, clens = out
    rows, sl, mode, T, N = _rows(case), case["slices"], case["mode"], case["T"], case["N"]
    value = _cast(case["value"], case["dtype"])
    want = [O.chunk_row(rows[n], sl[n][0], sl[n][1], mode, value, _proto(case)) for n in range(N)]
    mon.check(list(clens.shape) == [N] and not clens.is_floating_point(), "chunk-len-shape",
              observed=list(clens.shape), dtype=str(clens.dtype))
    got_l = clens.tolist()
    nontrivial = False
    for n in range(N):
        mon.check(got_l[n] == O.chunk_len(*sl[n]), "chunk-len", n=n, observed=got_l, expected=[len(w) for w in want],
                  slices=sl, T=T, fn=case["fn"], chunks_shape=list(chunks.shape))
    _common(mon, case, chunks, max(len(w) for w in want))
    for n, w in enumerate(want):
        L, (s, e) = len(rows[n]), sl[n]
        got = chunks[n, : len(w)].tolist()
        mon.check(got == w, "chunk-row", n=n, observed=got, expected=w, length=L, start=s, end=e, mode=mode, T=T,
                  fn=case["fn"])
        mon.stat("rows_judged")
        mon.observe("chunk_state", "%s/%d/%d/%d/%d" % (mode, T, L, s, e))
        a, b = O.slice_pads(L, s, e)
        if w:
            full = O.pad_row(rows[n], a, b, mode, value, _proto(case))
            _torch_opinion(mon, case, rows[n], a, b, mode, full)
        if w and w != rows[n] and L:
            nontrivial = True
        if max(a, b) > T:
            mon.cls("pad_gt_T")
        if e > s:
            if s < 0:
                mon.cls("negative_start")
            if e > L:
                mon.cls("end_beyond")
            if e <= 0:
                mon.cls("wholly_left")
            if s >= L:
                mon.cls("wholly_right")
                if mode == "reflect" and s > L:
                    mon.cls("wholly_right_reflect")  # the offset-correction branch
        elif e == s:
            mon.cls("empty_slice")
        else:
            mon.cls("inverted_slice")
    return nontrivial


def _judge_pm(mon, case, out):
    import torch

    x_, lens = out
    N, T, bf = case["N"], case["T"], case["batch_first"]
    value = _cast(case["value"], case["dtype"])
    counts = [sum(1 for m in case["mask"][n] if m) for n in range(N)]
    if not bf:
        x_ = x_.transpose(0, 1)
    # documented: same shape as x; demanded: one row per sequence, room for every selected element
    mon.check(x_.dim() == len(case["shape"]) and x_.shape[0] == N and list(x_.shape[2:]) == case["rest"]
              and x_.shape[1] >= max(counts + [0]), "masked-shape", observed=list(x_.shape), expected=case["shape"])
    if x_.shape[1] != T:
        mon.stat("masked_width_differs_from_input")
    _dtype_obs(mon, case, x_)
    mon.check(list(lens.shape) == [N] and lens.dtype not in (torch.float32, torch.float64, torch.bool),
              "masked-len-shape", observed=list(lens.shape), dtype=str(lens.dtype))
    got_l = lens.tolist()
    nontrivial = False
    for n in range(N):
        w, cnt = O.compact_row(case["x"][n], case["mask"][n], value, width=int(x_.shape[1]), proto=_proto(case))
        mon.check(got_l[n] == cnt, "masked-len", n=n, observed=got_l[n], expected=cnt, mask=case["mask"][n])
        got = x_[n].tolist()
        mon.check(got == w, "masked-row", n=n, observed=got, expected=w, mask=case["mask"][n])
        mon.stat("rows_judged")
        m = case["mask"][n]
        if any(m) and m != sorted(m, reverse=True):
            nontrivial = True  # some selected element has to move
    return nontrivial


def _judge_rs(mon, case, out, spied=None):
    import torch

    y, out_lens = out
    x = _x(case)
    N, T, mode = case["N"], case["T"], case["mode"]
    value = _cast(case["value"], case["dtype"])
    rows = _rows(case)
    if not case["training"]:
        same = (y.shape == x.shape) and bool(((y == x) | ((y != y) & (x != x))).all())
        mon.check(same and out_lens.tolist() == case["lens"], "shift-eval-identity", observed=y,
                  observed_lens=out_lens, expected_lens=case["lens"])
        return False
    mon.check(list(out_lens.shape) == [N] and not out_lens.is_floating_point(), "shift-len-shape",
              observed=list(out_lens.shape), dtype=str(out_lens.dtype))
    ol = out_lens.tolist()
    _common(mon, case, y, max(ol) if ol else 0)
    for n in range(N):
        L = len(rows[n])
        extra = ol[n] - L
        capl, capr = Fraction(case["prop"][0]) * L, Fraction(case["prop"][1]) * L
        mon.check(extra >= 0 and extra <= capl + capr, "shift-out-len", n=n, observed=ol[n], length=L,
                  prop=case["prop"], max_total=float(capl + capr))
        got = y[n, : ol[n]].tolist()
        cands = [c for c in O.shift_candidates(L, extra, capl, capr) if O.legal(L, c[0], c[1], mode)]
        fits = [c for c in cands if O.pad_row(rows[n], c[0], c[1], mode, value, _proto(case)) == got]
        mon.check(bool(fits), "shift-embed", n=n, observed=got, row=rows[n], length=L, out_len=ol[n], mode=mode,
                  prop=case["prop"], admissible_pads=cands, rand=case.get("rand"))
        mon.stat("rows_judged")
        # which admissible pads explain the output: unique unless the row cannot tell (one-element replicate rows,
        # a row value equal to the constant); then what the layer handed to pad_variable, if it is among them
        a, b = fits[0]
        if spied is not None:
            sp = (int(spied[0][n]), int(spied[1][n]))
            if sp in fits:
                a, b = sp
            else:
                mon.stat("spied_pads_not_among_explanations")  # pure observability; never a verdict
        if (a >= 1 and a == int(capl)) or (b >= 1 and b == int(capr)):
            mon.cls("shift_hits_cap")
        if a or b:
            mon.stat("shift_rows_really_padded")
        mon.observe("shift_state", "%s/%d/%d/%d" % (mode, L, a, b))
    if case.get("rand"):
        flat = case["rand"][0] + case["rand"][1]
        if G.ONE_MINUS in flat:
            mon.cls("rng_extreme_hi")
        if 0.0 in flat:
            mon.cls("rng_extreme_lo")
    if 0.0 in case["prop"]:
        mon.cls("prop_zero")
    return True


# ---------------------------------------------------------------------------
# driving the real code


def _documented(case):
    """Documented precondition errors that the *oracle* says this input earns."""
    fn, mode = case["fn"], case.get("mode")
    if fn == "pad_masked_sequence" or mode == "constant":
        return ()
    if fn == "random_shift" and not case["training"]:
        return ()
    lens = case["lens"] if case["lens"] is not None else [case["T"]] * case["N"]
    if mode == "replicate":
        return (RuntimeError,) if any(L < 1 for L in lens) else ()
    # reflect
    if fn == "pad_variable":
        bad = any(not O.legal(lens[n], case["pad"][0][n], case["pad"][1][n], mode) for n in range(case["N"]))
    elif fn == "chunk_by_slices":
        bad = any(not O.chunk_legal(lens[n], case["slices"][n][0], case["slices"][n][1], mode)
                  for n in range(case["N"]))
    else:
        bad = any(L < 1 for L in lens)  # a pad of 0 is not < 0
    return (NotImplementedError,) if bad else ()


def _call(mon, case):
    import torch
    import pydrobert.torch.functional as F
    import pydrobert.torch.modules as M

    fn, module = case["fn"], case["form"] == "module"
    x = _x(case)
    doc = _documented(case)
    value = float(case["value"])
    if fn == "pad_variable":
        lens, pad = _long(case["lens"]), _long(case["pad"]).reshape(2, case["N"])
        if module:
            return mon.lib(fn, lambda: LY.travelled(M.PadVariable(case["mode"], value), x.numel(), x.dim())(x, lens, pad), documented=doc), None
        return mon.lib(fn, lambda: F.pad_variable(x, lens, pad, case["mode"], value), documented=doc), None
    if fn == "chunk_by_slices":
        lens = None if case["lens"] is None else _long(case["lens"])
        sl = _long(case["slices"]).reshape(case["N"], 2)
        if (case["N"] + case["T"]) % 2 == 0:
            sl = sl.t().contiguous().t()  # the (N, 2) bounds as a view of a (2, N) tensor (how lists of starts/ends get stacked)
            mon.cls("slices_transposed_view")
        if module:
            call = lambda: LY.travelled(M.ChunkBySlices(case["mode"], value), x.numel(), x.dim())(x, sl, lens)
        else:
            call = lambda: F.chunk_by_slices(x, sl, lens, case["mode"], value)
        first = mon.lib(fn, call, documented=doc)
        # the same tensor objects handed over a second time (features, then alignments, are chunked with one
        # set of slices): the answer must be the same
        again = mon.lib(fn, call, documented=doc)
        same = all(a.shape == b.shape and bool(((a == b) | ((a != a) & (b != b))).all()) for a, b in zip(first, again))
        mon.check(same, "chunk-repeat-call", first=first, again=again, slices=case["slices"])
        return first, None
    if fn == "pad_masked_sequence":
        mask = torch.tensor(_flat(case["mask"], []), dtype=torch.bool).reshape(case["N"], case["T"])
        bf = case["batch_first"]
        if not bf:
            x, mask = x.transpose(0, 1), mask.transpose(0, 1)
            if not case.get("noncontig"):
                x, mask = x.contiguous(), mask.contiguous()
        if module:
            return mon.lib(fn, lambda: LY.travelled(M.PadMaskedSequence(bf, value), x.numel(), x.dim())(x, mask), documented=doc), None
        return mon.lib(fn, lambda: F.pad_masked_sequence(x, mask, bf, value), documented=doc), None
    # random_shift
    import pydrobert.torch._img as IM

    lens = _long(case["lens"])
    prop = (float(case["prop"][0]), float(case["prop"][1]))
    orig_rand, orig_pv = torch.rand_like, IM.pad_variable
    spied = []

    def rand_like(t, *a, **k):
        r = torch.tensor(case["rand"], dtype=t.dtype, device=t.device)
        if r.shape != t.shape:
            mon.stat("rand_like_other_shape")
            return orig_rand(t, *a, **k)
        mon.ev("hook:rand_like")
        return r

    def pv_spy(x_, lens_, pad_, *a, **k):
        mon.ev("hook:pad_variable_from_shift")
        spied.append(pad_.detach().clone().tolist())
        return orig_pv(x_, lens_, pad_, *a, **k)

    if case.get("seed") is not None:
        torch.manual_seed(case["seed"])
    try:
        if case.get("rand") is not None:
            torch.rand_like = rand_like
        IM.pad_variable = pv_spy
        if module:
            def run():
                m = M.RandomShift(prop[0] if case.get("prop_single") else prop, case["mode"], value)
                m.train(case["training"])
                return m(x, lens)
        else:
            def run():
                return F.random_shift(x, lens, prop, case["mode"], value, case["training"])
        out = mon.lib(fn, run, documented=doc)
    finally:
        torch.rand_like, IM.pad_variable = orig_rand, orig_pv
    return out, (spied[0] if len(spied) == 1 else None)


_JUDGES = {"pad_variable": _judge_pv, "chunk_by_slices": _judge_cb, "pad_masked_sequence": _judge_pm}


def _mark_classes(mon, case):
    if case["form"] == "module":
        mon.cls("module_form")
    if case.get("noncontig"):
        mon.cls("noncontig")
    if case["rest"] not in ([], [1]):
        mon.cls("extra_dims")
    if case["T"] == 0:
        mon.cls("zero_T")
    if case["fn"] != "pad_masked_sequence":
        if case["lens"] is None:
            mon.cls("lens_omitted")
        else:
            if 0 in case["lens"]:
                mon.cls("len0_row")
            if not any(case["lens"]):
                mon.cls("all_rows_empty")


def execute(case, mon):
    _mark_classes(mon, case)
    doc = _documented(case)
    with warnings.catch_warnings():
        warnings.simplefilter("ignore")
        out, spied = _call(mon, case)
    if doc:
        # the oracle puts this input outside the domain but the library answered: nothing is promised
        mon.stat("illegal_input_answered")
        mon.ood("illegal-answered")
        return
    if case["fn"] == "random_shift":
        nontrivial = _judge_rs(mon, case, out, spied)
    else:
        nontrivial = _JUDGES[case["fn"]](mon, case, out)
    mon.dev("row-mismatch(exact-compare)", 0.0, 0.0)
    if not nontrivial:
        mon.trivial()


# ---------------------------------------------------------------------------
# known findings (both are fixed on branch wt-c09; classifiers kept so that an entry can be re-opened)


def _max_overhang(case):
    if case["fn"] == "pad_variable":
        return max(max(case["pad"][0]), max(case["pad"][1]))
    if case["fn"] == "chunk_by_slices":
        lens = case["lens"] if case["lens"] is not None else [case["T"]] * case["N"]
        return max(max(O.slice_pads(lens[n], *case["slices"][n])) for n in range(case["N"]))
    return 0


def classify(entry_id, vrec):
    case, mon_name, det = vrec["case"], vrec["monitor"], vrec.get("details", {})
    if entry_id == "D3":
        # replicate padding with a pad (or slice overhang) beyond the batch's time dimension: masks built over
        # arange(T) -> RuntimeError; for T == 1 the size-1 mask broadcasts and rows get each other's end values
        if not (case.get("mode") == "replicate" and case["fn"] in ("pad_variable", "chunk_by_slices")
                and _max_overhang(case) > case["T"]):
            return False
        if mon_name in ("raised:pad_variable", "raised:chunk_by_slices"):
            return det.get("exception") == "RuntimeError"
        return case["T"] == 1 and mon_name in ("pad-row", "chunk-row")
    if entry_id == "D3b":
        # zero-width time dimension: chunk_by_slices returns before looking at the slices
        return (case["fn"] == "chunk_by_slices" and case["T"] == 0 and case.get("mode") == "constant"
                and mon_name == "chunk-len" and not any(det.get("observed", [1]))
                and det.get("chunks_shape", [None, None])[1] == 0)
    if entry_id == "D3c":
        # the module cannot be built from a pair of proportions
        return (mon_name == "raised:random_shift" and case["form"] == "module" and not case.get("prop_single")
                and det.get("exception") == "ValueError" and "is not a float" in det.get("message", ""))
    return False


# ---------------------------------------------------------------------------
# mechanism B: the repository's own tests as an additional workload (thorough tier)

PYTEST_FILES = ["tests/test_pad.py"]  # test_img.py::test_random_shift_call uses 2e6-element inputs: not judged
_MAX_NUMEL = 20000


def _nested(t):
    """tolist with NaN -> None (JSON-able)."""
    def rec(v):
        if isinstance(v, list):
            return [rec(u) for u in v]
        if isinstance(v, float) and v != v:
            return None
        return v

    return rec(t.detach().cpu().tolist())


def hook_case(module, args, kwargs, output):
    import torch

    name = type(module).__name__
    if name not in ("PadVariable", "ChunkBySlices", "PadMaskedSequence", "RandomShift"):
        return None
    if torch.jit.is_tracing() or torch.jit.is_scripting():
        return None  # the tests' torch.jit.trace runs must not be disturbed (sizes are traced values there)
    x = args[0]
    dtype = str(x.dtype).replace("torch.", "")
    if x.dim() < 2 or x.numel() > _MAX_NUMEL or dtype not in ("float32", "float64", "int64", "bool"):
        return None
    case = {"class": "repo_test_call", "form": "module", "dtype": dtype, "noncontig": False,
            "observed_module": name, "rest": [int(d) for d in x.shape[2:]]}
    if name == "PadMaskedSequence":
        mask = args[1]
        bf = bool(module.batch_first)
        if mask.dim() != 2 or mask.shape != x.shape[:2]:
            return None
        xb, mb = (x, mask) if bf else (x.transpose(0, 1), mask.transpose(0, 1))
        case.update(fn="pad_masked_sequence", batch_first=bf, value=float(module.padding_value), lens=None,
                    N=int(xb.shape[0]), T=int(xb.shape[1]), x=_nested(xb), shape=[int(d) for d in xb.shape],
                    mask=mb.tolist())
        return case
    N, T = int(x.shape[0]), int(x.shape[1])
    case.update(N=N, T=T, x=_nested(x), shape=[int(d) for d in x.shape], mode=str(module.mode),
                value=float(module.value))
    if name == "PadVariable":
        case.update(fn="pad_variable", lens=args[1].tolist(), pad=args[2].tolist())
    elif name == "ChunkBySlices":
        lens = args[2] if len(args) > 2 else kwargs.get("lens")
        case.update(fn="chunk_by_slices", slices=args[1].tolist(), lens=None if lens is None else lens.tolist())
    else:
        prop = [float(module.prop[0]), float(module.prop[1])]
        if any(Fraction(p).denominator > 1024 for p in prop):
            return None  # prop*len would not be exact in float32: bound not judged on such calls
        case.update(fn="random_shift", lens=args[1].tolist(), prop=prop, training=bool(module.training),
                    rand=None, seed=int(torch.randint(2 ** 31, (1,)).item()))
    return case


def hook_compare(case, output, mon):
    """Judge the value the test itself received (for RandomShift the re-execution drew other pads)."""
    if _documented(case):
        return
    if case["fn"] == "random_shift":
        _judge_rs(mon, case, output, None)
    else:
        _JUDGES[case["fn"]](mon, case, output)
    mon.stat("observed_outputs_judged")
