"""C10 - slicing policies yield the documented windows; token chunks are slice-relative.

Three kinds of case (field "kind"):

  slice   one batch, driven through the real slice_spect_data / SliceSpectData under a list of
          (window_type, valid_only, lobe) configurations (the whole 3x2 grid for 2-3 lobe sizes);
          judged against the prose oracle (vmon/oracles/c10_slices.py); metamorphic relations
          "in_lens omitted == in_lens = T" and "an element alone, trimmed to its length, yields
          exactly the batch's windows labelled with it".
  tokens  one batch of reference triples + one window per element through
          chunk_token_sequences_by_slices / ChunkTokenSequencesBySlices under the four
          partial x retain settings.
  dir     a generated well-formed SpectDataSet directory chunked in-process by
          command_line.chunk_torch_spect_data_dir (num-workers 0); every chunk file is compared
          with the source restricted to (padded for) its window, its reference with the
          oracle's token chunk, and the result is validated strictly.
"""
import os
import shutil
import tempfile
import warnings

from ..oracles import c10_slices as O

from .. import layout as LY

ID = "C10"
LEVEL = "exploration"
RULE = (
    "class-directed random cases: batches (N<=4) of sequences of length 0..12 (quick) / 0..16 (thorough) "
    "for the fixed policy (in_lens given / omitted), alignments over 1-3 labels with random run structure "
    "(padded with hostile filler, or filling the whole time dimension), reference triple lists with "
    "missing (-1), half-missing, empty, inverted, overlapping and beyond-the-end segments (other_lens "
    "given / omitted), each under the full 3 window x 2 valid grid for lobe 0, a lobe in 1..4 and "
    "sometimes a lobe >= length; token chunking with windows cut around token boundaries, negative "
    "starts, empty windows, under partial x retain; generated data directories chunked by the real "
    "command under policy x window x lobe x pad mode.  A case is distinct by the hash of its concrete "
    "inputs and non-trivial if the oracle prescribes at least one window (slice/dir) or keeps at least "
    "one token (tokens)"
)
ASSUMPTIONS = [
    "oracle written from the docstring prose of SliceSpectData / ChunkTokenSequencesBySlices; loops over "
    "plain lists, no tensor arithmetic",
    "fixed policy / not valid_only: windows are NOT clamped (the docstring's own examples show negative "
    "starts and ends past the length, and the clamping code is commented out)",
    "ref policy with other_lens omitted: documentation silent; result must equal the oracle under one of "
    "the readings no-bound / end of the final in-range segment / largest known in-range end",
    "ref policy, not valid_only: 'begins after other_lens' admits start > bound and start >= bound; both accepted",
    "token chunking: empty segments sitting exactly on a slice edge under partial=True, inverted segments "
    "(start > end) and empty slices under partial=True are optional (either answer accepted)",
    "directory level: strict validation demanded only for partial=False, retain=False (the other settings "
    "produce negative / absolute boundaries by design); reflect/replicate pads are kept shorter than the "
    "sequence and no padding-only chunk is cut from a 0-frame utterance (padding itself is C09's subject)",
    "USE_JIT off (library runs as plain Python); command run in-process with --num-workers 0",
]
BUDGET = {
    "quick": dict(cases=324, shards=4, timeout=600),
    "thorough": dict(cases=6048, shards=16, timeout=3000),
}
SCHEDULE = [
    "fixed_lens", "fixed_nolens", "ali_padded", "ali_full", "ref_bounded", "ref_unbounded",
    "tok_inside", "tok_negstart", "tok_hostile", "dir_fixed", "dir_ali", "dir_ref",
    "fixed_nolens", "ali_full", "ref_unbounded", "tok_inside", "tok_negstart", "doc_example",
]
CLASSES = sorted(set(SCHEDULE))
FLOORS = {
    "quick": {
        "events": {
            "slice_spect_data": 12000, "SliceSpectData": 1500,
            "chunk_token_sequences_by_slices": 1500, "ChunkTokenSequencesBySlices": 250,
            "chunk-torch-spect-data-dir": 150, "validate_spect_data_set(chunked)": 80,
            "assert:windows": 4000, "assert:valid-inside": 2000, "assert:lens-omitted-equiv": 2500,
            "assert:batch-independence": 8000, "assert:token-selection": 1500,
            "assert:token-boundaries": 1200, "assert:dir-windows": 350, "assert:dir-feat": 350,
            "assert:dir-ali": 250, "assert:dir-ref": 300, "assert:doc-example": 30,
        },
        "classes": {c: 30 for c in CLASSES},
        "stats": {"windows_prescribed": 15000, "tokens_kept": 2000, "dir_chunks": 350,
                  "neg_start_token_chunks": 200},
        "sets": {"slice_config": 36, "dir_config": 40},
        "distinct": 350,
    },
    "thorough": {
        "events": {"slice_spect_data": 250000, "SliceSpectData": 25000,
                   "chunk_token_sequences_by_slices": 30000, "ChunkTokenSequencesBySlices": 5000,
                   "chunk-torch-spect-data-dir": 1500, "validate_spect_data_set(chunked)": 1000,
                   "assert:windows": 80000, "assert:token-selection": 25000, "assert:dir-windows": 5000,
                   "assert:observed-output": 40},
        "classes": dict({c: 600 for c in CLASSES}, exhaustive_ali=3 ** 7 + 3 ** 6, repo_test_call=40),
        "sets": {"slice_config": 36, "dir_config": 66},
        "distinct": 6000,
    },
}
EXHAUSTIVE = {"thorough": False}
WT = list(O.WINDOW_TYPES)
FLAGS = [[False, True], [True, True], [False, False], [True, False]]  # (partial, retain); retain first


# --------------------------------------------------------------------------
# generators


def _lobes(rng, L):
    ls = {0, rng.randint(1, 4)}
    if rng.random() < 0.4:
        ls.add(rng.choice([1, 2, max(1, L), L + 1]))
    return sorted(ls)


def _grid(lobes):
    return [[w, v, l] for l in lobes for w in WT for v in (True, False)]


def _form(rng):
    return "module" if rng.random() < 0.3 else "functional"


def _len_choice(rng, T):
    return min(T, rng.choice([0, 1, T, T, max(T - 1, 0), rng.randint(0, T)]))


def _gen_T(rng, tier):
    tmax = 12 if tier == "quick" else 16
    return rng.choice([0, 1, 1, 2, 3]) if rng.random() < 0.3 else rng.randint(2, tmax)


def _gen_fixed(rng, tier, with_lens):
    N, T = rng.randint(1, 4), _gen_T(rng, tier)
    lens = [_len_choice(rng, T) for _ in range(N)] if with_lens else None
    return dict(kind="slice", policy="fixed", N=N, T=T, trail=rng.choice([[], [1], [3], [2, 2]]),
                input=None, in_lens=lens, other_lens=None, configs=_grid(_lobes(rng, T)), form=_form(rng))


def _gen_labels(rng, T, alphabet):
    out = []
    while len(out) < T:
        lab = rng.choice(alphabet)
        if out and len(alphabet) > 1 and rng.random() < 0.8:
            while lab == out[-1]:
                lab = rng.choice(alphabet)
        out += [lab] * rng.choice([1, 1, 2, 3, 5])
    return out[:T]


def _gen_ali(rng, tier, full):
    N, T = rng.randint(1, 4), _gen_T(rng, tier)
    alphabet = rng.choice([[0], [1, 2], [0, 1, 5], [3, 3, 7], [0, 1, 2]])
    rows = [_gen_labels(rng, T, alphabet) for _ in range(N)]
    if full:
        mode = rng.choice(["none", "none", "T", "mixed"])
        if mode == "none":
            lens = None
        elif mode == "T":
            lens = [T] * N
        else:
            lens = [T if rng.random() < 0.6 else _len_choice(rng, T) for _ in range(N)]
    else:
        lens = [_len_choice(rng, max(T - 1, 0)) if rng.random() < 0.7 else _len_choice(rng, T) for _ in range(N)]
        for n in range(N):  # hostile filler beyond the length
            L = lens[n]
            if 0 < L < T:
                how = rng.choice(["continue", "other", "keep"])
                if how == "continue":  # the last run goes on into the padding
                    rows[n][L:] = [rows[n][L - 1]] * (T - L)
                elif how == "other":
                    rows[n][L:] = [rows[n][L - 1] + 1 + (t % 2) for t in range(T - L)]
    return dict(kind="slice", policy="ali", N=N, T=T, trail=[], input=rows, in_lens=lens, other_lens=None,
                configs=_grid(_lobes(rng, T)), form=_form(rng))


def _gen_triples(rng, R, L, wellformed=False):
    out = []
    for _ in range(R):
        kind = rng.choice(["seg"] * 6 + ["empty", "missing"] + ([] if wellformed else ["half", "beyond", "inverted"]))
        tok = rng.randint(0, 9)
        s = rng.randint(0, max(L - 1, 0))
        e = min(L, s + rng.randint(1, 5)) if L > 0 else 0
        if e < s:
            e = s
        if kind == "empty":
            s = e = rng.randint(0, L)
        elif kind == "missing":
            s = e = -1
        elif kind == "half":
            if rng.random() < 0.5:
                s = -1
            else:
                e = -1
        elif kind == "beyond":
            e = L + rng.randint(1, 3)
            if rng.random() < 0.3:
                s = e - 1
        elif kind == "inverted":
            s, e = max(s, e) + 1, min(s, e)
        out.append([tok, s, e])
    if wellformed and rng.random() < 0.5:
        out.sort(key=lambda t: (t[1] < 0, t[1], t[2]))
    return out


def _gen_ref(rng, tier, bounded):
    N, R = rng.randint(1, 4), rng.choice([0, 1, 2, 3, 4, 5, 6])
    L = rng.randint(0, 12)
    rows = [_gen_triples(rng, R, L) for _ in range(N)]
    lens = [_len_choice(rng, R) for _ in range(N)] if rng.random() < 0.6 else None
    other = [max(0, rng.choice([0, L, L, L - 1, L + 2, rng.randint(0, 14)])) for _ in range(N)] if bounded else None
    return dict(kind="slice", policy="ref", N=N, T=R, trail=[3], input=rows, in_lens=lens, other_lens=other,
                configs=_grid(_lobes(rng, L)), form=_form(rng))


def _gen_window(rng, triples, L, neg, allow_empty):
    known = [(s, e) for _, s, e in triples if s >= 0 and e >= 0]
    if known and rng.random() < 0.65:
        s, e = rng.choice(known)
        lo, hi = min(s, e), max(s, e)
        if rng.random() < 0.3:  # cut into the token
            ws, we = lo + rng.choice([0, 1]), hi - rng.choice([0, 1])
        else:
            ws, we = lo - rng.choice([0, 0, 1, 2, 4]), hi + rng.choice([0, 0, 1, 2, 4])
    else:
        ws = rng.randint(0, L)
        we = ws + rng.randint(1, 7)
    if neg and ws >= 0:
        ws = -rng.randint(1, 4)
    if we <= ws:
        we = ws if (allow_empty and rng.random() < 0.5) else ws + 1 + rng.randint(0, 2)
    return [ws, we]


def _gen_tokens(rng, tier, cls):
    N, R = rng.randint(1, 4), rng.choice([0, 1, 2, 3, 4, 5, 6, 8])
    L = rng.randint(1, 12)
    if rng.random() < 0.1:
        # many more tokens than anything else in the workload, most of them kept (order of the kept tokens)
        N, R, L = rng.randint(1, 2), rng.choice([17, 24, 40]), rng.choice([40, 90])
    rows = [_gen_triples(rng, R, L, wellformed=(cls != "tok_hostile" and rng.random() < 0.5)) for _ in range(N)]
    if cls == "tok_hostile" and R >= 2:
        for row in rows:  # duplicates
            row[rng.randrange(R)] = list(row[rng.randrange(R)])
    lens = [_len_choice(rng, R) for _ in range(N)] if rng.random() < (0.3 if cls == "tok_hostile" else 0.6) else None
    slices = [_gen_window(rng, rows[n], L, cls == "tok_negstart" and (n == 0 or rng.random() < 0.7),
                          cls == "tok_hostile") for n in range(N)]
    return dict(kind="tokens", N=N, R=R, refs=rows, slices=slices, ref_lens=lens, flags=FLAGS, form=_form(rng))


def _gen_dir(rng, tier, policy):
    F = rng.randint(1, 3)
    nutt = rng.randint(1, 3)
    has_ali = policy == "ali" or rng.random() < 0.7
    ref_kind = "segments" if policy == "ref" else rng.choice(["segments"] * 4 + ["none", "tokens"])
    utts = []
    names = rng.sample(["u0", "spk1-b", "x.y", "A_7", "k"], nutt)
    for name in names:
        T = rng.choice([0, 1]) if rng.random() < 0.12 else rng.randint(2, 10 if tier == "quick" else 14)
        feat = [[float(rng.randint(-9, 9)) for _ in range(F)] for _ in range(T)]
        ali = _gen_labels(rng, T, rng.choice([[0], [1, 2], [0, 1, 4]])) if has_ali else None
        if ref_kind == "segments":
            ref = _gen_triples(rng, rng.randint(0, 5), T, wellformed=True)
        elif ref_kind == "tokens":
            ref = [rng.randint(0, 9) for _ in range(rng.randint(0, 4))]
        else:
            ref = None
        utts.append(dict(id=name, feat=feat, ali=ali, ref=ref))
    wt, lobe = rng.choice(WT), rng.choice([0, 0, 1, 1, 2, 3])
    pad_mode = rng.choice([None, None, "constant", "reflect", "replicate"])
    if pad_mode in ("reflect", "replicate"):
        # keep pads shorter than the sequence under every admissible reading (padding is C09's subject)
        for u in utts:
            T = len(u["feat"])
            for ws in _dir_readings(policy, u, wt, False, lobe).values():
                if any(O.max_pad(w, T) >= max(T, 1) for w in ws):
                    pad_mode = "constant"
    if pad_mode is not None and policy == "ref":
        # a chunk consisting of padding only, cut from an utterance without any frame, is C09's subject
        for u in utts:
            if not u["feat"]:
                u["ref"] = []
    flags = [False, False] if rng.random() < 0.7 else rng.choice(FLAGS)
    fix = rng.random() < 0.2
    return dict(kind="dir", fmt_idx=rng.random() < 0.65, policy=policy, window_type=wt, lobe=lobe, pad_mode=pad_mode,
                pad_constant=float(rng.choice([0, 0, -3, 7])), partial=flags[0], retain=flags[1], F=F,
                ref_kind=ref_kind, utts=utts, file_prefix="p-" if fix else "", file_suffix=".t" if fix else ".pt")


def _dir_readings(policy, utt, wt, valid, lobe):
    """Admissible window lists of one utterance at directory level: the driver may or may not hand
    the frame count to the 'ref' policy."""
    T = len(utt["feat"])
    if policy == "fixed":
        return {"prose": O.fixed_windows(T, wt, valid, lobe)}
    if policy == "ali":
        return {"prose": O.ali_windows(utt["ali"], wt, valid, lobe)}
    tr = [tuple(t) for t in utt["ref"]]
    out = {}
    for name, (ws, _) in O.batch_readings("ref", [tr], wt, valid, lobe, None).items():
        out[name] = [tuple(w) for w in ws]
    for name, (ws, _) in O.batch_readings("ref", [tr], wt, valid, lobe, [T]).items():
        out["feat-len-" + name] = [tuple(w) for w in ws]
    return out


# the worked examples of the SliceSpectData docstring (the 'fixed' symmetric/not-valid line
# "[[-1, 4], [2, 6], [5, 9]]" contradicts the stated window size 5 and is left out)
DOC_EXAMPLES = [
    ("fixed", 8, "symmetric", True, 2, [[0, 5], [3, 8]]),
    ("fixed", 8, "causal", True, 2, [[0, 3], [3, 6]]),
    ("fixed", 8, "future", True, 2, [[0, 3], [3, 6]]),
    ("fixed", 8, "causal", False, 2, [[-2, 1], [1, 4], [4, 7]]),
    ("fixed", 8, "future", False, 2, [[0, 3], [3, 6], [6, 9]]),
    ("ali", [1] * 4 + [2] * 3 + [1] + [5] * 2, "symmetric", True, 1, [[0, 8], [4, 10]]),
    ("ali", [1] * 4 + [2] * 3 + [1] + [5] * 2, "causal", True, 1, [[0, 7], [4, 8], [7, 10]]),
    ("ali", [1] * 4 + [2] * 3 + [1] + [5] * 2, "symmetric", False, 1, [[0, 7], [0, 8], [4, 10], [7, 10]]),
    ("ali", [1] * 4 + [2] * 3 + [1] + [5] * 2, "causal", False, 1, [[0, 4], [0, 7], [4, 8], [7, 10]]),
    ("ali", [1] * 4 + [2] * 3 + [1] + [5] * 2, "future", False, 1, [[0, 7], [4, 8], [7, 10], [8, 10]]),
    ("ref", None, "symmetric", True, 2, [[0, 5]]),
    ("ref", None, "causal", True, 2, [[0, 3], [1, 5]]),
    ("ref", None, "future", True, 2, [[0, 2], [2, 5]]),
    ("ref", None, "symmetric", False, 2, [[-2, 2], [0, 5], [1, 7]]),
    ("ref", None, "causal", False, 2, [[0, 3], [1, 5]]),
    ("ref", None, "future", False, 2, [[0, 2], [2, 5], [3, 7]]),
]
DOC_REF = [[1, 0, 0], [2, 2, 3], [3, -1, 1], [4, 0, -1], [5, 3, 5], [6, 4, 4]]


def _gen_doc(rng, i):
    policy, data, wt, valid, lobe, want = DOC_EXAMPLES[rng.randrange(len(DOC_EXAMPLES))]
    pad = rng.randint(0, 3)  # the example embedded in a longer batch row / as the whole row
    if policy == "fixed":
        case = dict(policy="fixed", N=1, T=data + pad, trail=[2], input=None,
                    in_lens=[data] if (pad or rng.random() < 0.5) else None, other_lens=None)
    elif policy == "ali":
        case = dict(policy="ali", N=1, T=len(data) + pad, trail=[], input=[data + [data[-1]] * pad],
                    in_lens=[len(data)] if (pad or rng.random() < 0.5) else None, other_lens=None)
    else:
        case = dict(policy="ref", N=1, T=6, trail=[3], input=[DOC_REF], in_lens=[5], other_lens=[6])
    case.update(kind="slice", configs=[[wt, valid, lobe]], form=_form(rng), documented=want)
    return case


def generate(rng, tier, i):
    cls = SCHEDULE[i % len(SCHEDULE)]
    if cls == "fixed_lens":
        case = _gen_fixed(rng, tier, True)
    elif cls == "fixed_nolens":
        case = _gen_fixed(rng, tier, False)
    elif cls == "ali_padded":
        case = _gen_ali(rng, tier, False)
    elif cls == "ali_full":
        case = _gen_ali(rng, tier, True)
    elif cls == "ref_bounded":
        case = _gen_ref(rng, tier, True)
    elif cls == "ref_unbounded":
        case = _gen_ref(rng, tier, False)
    elif cls.startswith("tok_"):
        case = _gen_tokens(rng, tier, cls)
    elif cls == "doc_example":
        case = _gen_doc(rng, i)
    else:
        case = _gen_dir(rng, tier, cls[4:])
    case["class"] = cls
    return case


def enumerate_cases(tier):
    """thorough: every alignment over <= 3 labels of length 7 and 6 (all run structures), lobes 0-2."""
    if tier != "thorough":
        return
    import itertools

    for T in (7, 6):
        for labs in itertools.product([0, 1, 2], repeat=T):
            yield {"class": "exhaustive_ali", "kind": "slice", "policy": "ali", "N": 1, "T": T, "trail": [],
                   "input": [list(labs)], "in_lens": None, "other_lens": None,
                   "configs": _grid([0, 1, 2]), "form": "functional", "solo": False}


# --------------------------------------------------------------------------
# execution: slicer


def _slice_input(case):
    import torch

    N, T = case["N"], case["T"]
    if case["policy"] == "fixed":
        shape = [N, T] + list(case["trail"])
        n = 1
        for d in shape:
            n *= d
        return torch.arange(n, dtype=torch.float).view(shape)
    lay = case.get("layout") or LY.pick(N, T, case.get("lobe_size", 0))
    if case["policy"] == "ali":
        return LY.relayout(torch.tensor(case["input"], dtype=torch.long).view(N, T), lay)
    return LY.relayout(torch.tensor(case["input"], dtype=torch.long).view(N, T, 3), lay)


def _lt(x):
    import torch

    return None if x is None else torch.tensor(x, dtype=torch.long)


def _call_slicer(mon, form, inp, in_lens, other_lens, policy, wt, valid, lobe):
    import pydrobert.torch.functional as F
    import pydrobert.torch.modules as M

    with warnings.catch_warnings():
        warnings.simplefilter("ignore")
        if form == "module":
            out = mon.lib("SliceSpectData", lambda: LY.travelled(M.SliceSpectData(policy, wt, valid, lobe), lobe, len(wt), 0 if in_lens is None else int(in_lens.sum()))(inp, in_lens, other_lens))
        else:
            out = mon.lib("slice_spect_data", lambda: F.slice_spect_data(inp, in_lens, other_lens, policy, wt, valid, lobe))
    import torch

    mon.check(isinstance(out, tuple) and len(out) == 2, "result-shape", observed=repr(type(out)))
    slices, sources = out
    ok = (slices.dtype == torch.long and sources.dtype == torch.long and slices.dim() == 2
          and slices.size(1) == 2 and sources.dim() == 1 and sources.size(0) == slices.size(0))
    mon.check(ok, "result-shape", slices_shape=list(slices.shape), sources_shape=list(sources.shape),
              dtypes=[str(slices.dtype), str(sources.dtype)])
    return slices.tolist(), sources.tolist()


def _seqs(case):
    N, T, policy = case["N"], case["T"], case["policy"]
    lens = case["in_lens"] if case["in_lens"] is not None else [T] * N
    if policy == "fixed":
        return lens, list(lens)
    if policy == "ali":
        return lens, [list(case["input"][n][: lens[n]]) for n in range(N)]
    return lens, [[tuple(t) for t in case["input"][n][: lens[n]]] for n in range(N)]


def _exec_slice(case, mon):
    policy, N, T, form = case["policy"], case["N"], case["T"], case["form"]
    inp = _slice_input(case)
    in_lens, other = _lt(case["in_lens"]), _lt(case["other_lens"])
    lens, seqs = _seqs(case)
    nontrivial = False
    for wt, valid, lobe in case["configs"]:
        mon.observe("slice_config", "%s/%s/%s/%s" % (policy, wt, "valid" if valid else "any", "lobe" if lobe else "nolobe"))
        got_w, got_s = _call_slicer(mon, form, inp, in_lens, other, policy, wt, valid, lobe)
        cfg = dict(policy=policy, window_type=wt, valid_only=valid, lobe_size=lobe)
        readings = O.batch_readings(policy, seqs, wt, valid, lobe, case["other_lens"])
        match = [k for k, (w, s) in readings.items() if w == got_w and s == got_s]
        distinct = {repr(v) for v in readings.values()}
        if len(distinct) > 1:
            mon.stat("configs_with_several_admissible_readings")
        mon.check(bool(match), "windows", config=cfg, observed_slices=got_w, observed_sources=got_s,
                  expected={k: {"slices": w, "sources": s} for k, (w, s) in readings.items()},
                  in_lens=case["in_lens"], other_lens=case["other_lens"])
        for kind in sorted({k.split("/")[0] for k in match}):
            mon.stat("explained_by_reading:" + kind)
        mon.stat("windows_prescribed", len(got_w))
        nontrivial = nontrivial or bool(got_w)
        if "documented" in case:
            mon.check(got_w == case["documented"], "doc-example", config=cfg, observed=got_w,
                      documented=case["documented"])
        # explicit clauses: in order, labelled with the source, non-empty, inside when valid_only
        mon.check(all(a <= b for a, b in zip(got_s, got_s[1:])), "source-order", config=cfg, observed=got_s)
        mon.check(all(w[0] < w[1] for w in got_w), "nonempty-window", config=cfg, observed=got_w)
        if valid:
            if policy == "ref":
                upper = case["other_lens"]
            else:
                upper = lens
            inside = all(w[0] >= 0 and (upper is None or w[1] <= upper[s]) for w, s in zip(got_w, got_s))
            mon.check(inside, "valid-inside", config=cfg, observed=got_w, sources=got_s, lengths=upper)
        # in_lens omitted == in_lens = T
        full = [T] * N
        if case["in_lens"] is None or case["in_lens"] == full:
            alt = _lt(full) if case["in_lens"] is None else None
            w2, s2 = _call_slicer(mon, form, inp, alt, other, policy, wt, valid, lobe)
            mon.check(w2 == got_w and s2 == got_s, "lens-omitted-equiv", config=cfg,
                      with_lens_omitted=[got_w, got_s] if case["in_lens"] is None else [w2, s2],
                      with_lens_T=[w2, s2] if case["in_lens"] is None else [got_w, got_s])
        # an element alone, trimmed to its own length (which then fills the whole time dimension)
        if case.get("solo", True):
            for n in (range(N) if N <= 3 else [lobe % N, (lobe + 1 + T) % N]):
                solo_in = inp[n: n + 1, : lens[n]]
                o1 = None if other is None else other[n: n + 1]
                w1, s1 = _call_slicer(mon, "functional", solo_in, None, o1, policy, wt, valid, lobe)
                want = [w for w, s in zip(got_w, got_s) if s == n]
                mon.check(w1 == want and all(s == 0 for s in s1), "batch-independence", config=cfg, n=n,
                          alone=w1, in_batch=want, length=lens[n])
    if not nontrivial:
        mon.trivial()


# --------------------------------------------------------------------------
# execution: token chunking


def _call_chunker(mon, form, refs, slices, ref_lens, partial, retain):
    import torch
    import pydrobert.torch.functional as F
    import pydrobert.torch.modules as M

    with warnings.catch_warnings():
        warnings.simplefilter("ignore")
        if form == "module":
            out = mon.lib("ChunkTokenSequencesBySlices",
                          lambda: LY.travelled(M.ChunkTokenSequencesBySlices(partial, retain), refs.numel(), slices.numel())(refs, slices, ref_lens))
        else:
            out = mon.lib("chunk_token_sequences_by_slices",
                          lambda: F.chunk_token_sequences_by_slices(refs, slices, ref_lens, partial, retain))
    chunked, clens = out
    N = refs.size(0)
    ok = (chunked.dim() == 3 and chunked.size(0) == N and chunked.size(2) == 3 and tuple(clens.shape) == (N,)
          and chunked.dtype == torch.long and clens.dtype == torch.long)
    mon.check(ok, "chunk-shape", chunked_shape=list(chunked.shape), lens_shape=list(clens.shape))
    ks = clens.tolist()
    mon.check(all(0 <= k <= chunked.size(1) for k in ks), "chunk-shape", lens=ks, chunked_shape=list(chunked.shape))
    return [chunked[n, : ks[n]].tolist() for n in range(N)]


def _dur_key(item):
    return (item[0], item[2] - item[1])


def _exec_tokens(case, mon):
    import torch

    N, R, form = case["N"], case["R"], case["form"]
    refs = torch.tensor(case["refs"], dtype=torch.long).view(N, R, 3)
    slices = torch.tensor(case["slices"], dtype=torch.long).view(N, 2)
    _lay = case.get("layout") or LY.pick(N, R, int(bool(case.get("partial"))))
    refs, slices = LY.relayout(refs, _lay), LY.relayout(slices, _lay)
    ref_lens = _lt(case["ref_lens"])
    lens = case["ref_lens"] if case["ref_lens"] is not None else [R] * N
    triples = [[tuple(t) for t in case["refs"][n][: lens[n]]] for n in range(N)]
    deferred, kept = [], 0
    for partial, retain in case["flags"]:
        obs = _call_chunker(mon, form, refs, slices, ref_lens, partial, retain)
        for n in range(N):
            w = case["slices"][n]
            cands = O.token_chunk(triples[n], w, partial, retain)
            info = dict(partial=partial, retain=retain, n=n, slice=w, tokens=[list(t) for t in triples[n]],
                        observed=obs[n], expected=O.canonical(cands),
                        optional=[it for st, it in cands if st == O.EITHER])
            # which tokens (judged by id and duration, independent of any shift), in order
            mon.check(O.explains(cands, obs[n], key=_dur_key), "token-selection", **info)
            if any(st == O.EITHER for st, _ in cands):
                mon.stat("chunks_with_optional_tokens")
            # boundaries: offsets from the slice start unless retain
            if O.explains(cands, obs[n]):
                mon.check(True, "token-boundaries")
            else:
                deferred.append(info)
            kept += len(obs[n])
            if obs[n] and w[0] < 0 and not retain:
                mon.stat("neg_start_token_chunks")
            if obs[n] and w[0] != 0 and not retain:
                mon.stat("shifted_token_chunks")
        # ref_lens omitted == ref_lens = R
        if case["ref_lens"] is None or case["ref_lens"] == [R] * N:
            alt = _lt([R] * N) if case["ref_lens"] is None else None
            obs2 = _call_chunker(mon, form, refs, slices, alt, partial, retain)
            mon.check(obs2 == obs, "ref-lens-omitted-equiv", partial=partial, retain=retain,
                      one=obs, other=obs2)
        # an element alone, trimmed to its own length
        for n in (range(N) if N <= 3 else [R % N]):
            o1 = _call_chunker(mon, "functional", refs[n: n + 1, : lens[n]], slices[n: n + 1], None, partial, retain)
            mon.check(o1[0] == obs[n], "token-independence", partial=partial, retain=retain, n=n,
                      alone=o1[0], in_batch=obs[n])
    mon.stat("tokens_kept", kept)
    if not kept:
        mon.trivial()
    # judged last so that an open boundary finding never hides a selection failure
    mon.check(not deferred, "token-boundaries", failures=deferred, ref_lens=case["ref_lens"])


# --------------------------------------------------------------------------
# execution: directory level


FORMAT_UTT = "{utt_id}@{idx}@{start}@{end}"
FORMAT_NOIDX = "{utt_id}@{start}@{end}"  # like the command's default: equal windows of an utterance share a name


def _write_dir(case, root):
    import torch

    pre, suf = case["file_prefix"], case["file_suffix"]
    os.makedirs(os.path.join(root, "feat"))
    if any(u["ali"] is not None for u in case["utts"]):
        os.makedirs(os.path.join(root, "ali"))
    if any(u["ref"] is not None for u in case["utts"]):
        os.makedirs(os.path.join(root, "ref"))
    for u in case["utts"]:
        fn = pre + u["id"] + suf
        torch.save(torch.tensor(u["feat"], dtype=torch.float).view(len(u["feat"]), case["F"]),
                   os.path.join(root, "feat", fn))
        if u["ali"] is not None:
            torch.save(torch.tensor(u["ali"], dtype=torch.long), os.path.join(root, "ali", fn))
        if u["ref"] is not None:
            r = torch.tensor(u["ref"], dtype=torch.long)
            if case["ref_kind"] == "segments":
                r = r.view(len(u["ref"]), 3)
            torch.save(r, os.path.join(root, "ref", fn))


def _validate(path, case):
    """strict validate_spect_data_set of a directory -> 'ok' or the complaint"""
    from pydrobert.torch import data

    with warnings.catch_warnings():
        warnings.simplefilter("ignore")
        ds = data.SpectDataSet(path, file_prefix=case["file_prefix"], file_suffix=case["file_suffix"],
                               warn_on_missing=False, suppress_alis=False, tokens_only=False)
        try:
            data.validate_spect_data_set(ds)
        except ValueError as e:
            return "ValueError: " + str(e)[:300], len(ds)
    return "ok", len(ds)


def _listing(d, case):
    pre, suf = case["file_prefix"], case["file_suffix"]
    if not os.path.isdir(d):
        return None
    return sorted(x[len(pre): len(x) - len(suf)] for x in os.listdir(d) if x.startswith(pre) and x.endswith(suf))


def _scratch_base():
    """Scratch directories go below the runner's per-run directory (the one holding the shard's
    --out file), which the parent removes even when the watchdog has to kill the shard."""
    import sys

    if "--out" in sys.argv[:-1]:
        d = os.path.dirname(os.path.abspath(sys.argv[sys.argv.index("--out") + 1]))
        if os.path.isdir(d):
            return d
    return None


def _exec_dir(case, mon):
    import torch
    from pydrobert.torch import command_line

    policy, wt, lobe, mode = case["policy"], case["window_type"], case["lobe"], case["pad_mode"]
    valid = mode is None
    partial, retain = case["partial"], case["retain"]
    mon.observe("dir_config", "%s/%s/%s/%s" % (policy, wt, mode, "lobe" if lobe else "nolobe"))
    tmp = tempfile.mkdtemp(prefix="vmon-c10-", dir=_scratch_base())
    try:
        in_dir, out_dir = os.path.join(tmp, "in"), os.path.join(tmp, "out")
        _write_dir(case, in_dir)
        verdict, _ = _validate(in_dir, case)
        if verdict != "ok":  # the harness must only hand over well-formed directories
            raise RuntimeError("generated directory is not well-formed: " + verdict)
        with_idx = case.get("fmt_idx", True)
        fmt = FORMAT_UTT if with_idx else FORMAT_NOIDX
        args = [in_dir, out_dir, "--policy", policy, "--window-type", wt, "--lobe-size", str(lobe),
                "--format-utt", fmt, "--num-workers", "0", "--quiet",
                "--file-prefix", case["file_prefix"], "--file-suffix", case["file_suffix"]]
        if mode is not None:
            args += ["--pad-mode", mode, "--pad-constant", str(case["pad_constant"])]
        if partial:
            args.append("--partial-tokens")
        if retain:
            args.append("--retain-token-boundaries")
        with warnings.catch_warnings():
            warnings.simplefilter("ignore")
            rc = mon.lib("chunk-torch-spect-data-dir", command_line.chunk_torch_spect_data_dir, args)
        mon.check(not rc, "dir-exit", observed=rc, args=args[2:])
        names = _listing(os.path.join(out_dir, "feat"), case)
        mon.check(names is not None, "dir-listing", what="no feat directory in the output")
        by_utt = {u["id"]: {} for u in case["utts"]}
        for name in names:
            parts = name.split("@")
            ok = len(parts) == (4 if with_idx else 3) and parts[0] in by_utt
            mon.check(ok, "dir-listing", what="unexpected chunk file", name=name)
            if with_idx:
                by_utt[parts[0]][int(parts[1])] = (int(parts[2]), int(parts[3]))
            else:  # names carry the window only: what is left is the SET of windows
                by_utt[parts[0]][(int(parts[1]), int(parts[2]))] = (int(parts[1]), int(parts[2]))
        has_ali = any(u["ali"] is not None for u in case["utts"])
        ali_names = _listing(os.path.join(out_dir, "ali"), case)
        ref_names = _listing(os.path.join(out_dir, "ref"), case)
        if has_ali:
            mon.check(ali_names == names, "dir-listing", what="ali files differ from feat files",
                      feat=names, ali=ali_names)
        else:
            mon.check(not ali_names, "dir-listing", what="alignments appeared from nowhere", ali=ali_names)
        if case["ref_kind"] == "segments":
            mon.check(ref_names == names, "dir-listing", what="ref files differ from feat files",
                      feat=names, ref=ref_names)
        elif case["ref_kind"] == "none":
            mon.check(not ref_names, "dir-listing", what="references appeared from nowhere", ref=ref_names)
        else:  # token-only references: a chunk may carry an empty reference or none
            mon.check(not ref_names or ref_names == names, "dir-listing", what="ref files differ from feat files",
                      feat=names, ref=ref_names)
        pre, suf = case["file_prefix"], case["file_suffix"]
        deferred, nchunks = [], 0
        for u in case["utts"]:
            T = len(u["feat"])
            got = by_utt[u["id"]]
            readings = _dir_readings(policy, u, wt, valid, lobe)
            if with_idx:
                mon.check(sorted(got) == list(range(len(got))), "dir-windows", what="chunk indices not 0..M-1",
                          utt=u["id"], observed=sorted(got))
                windows = [got[k] for k in range(len(got))]
                match = [k for k, ws in readings.items() if [tuple(w) for w in ws] == windows]
            else:
                windows = sorted(got)
                match = [k for k, ws in readings.items() if sorted({tuple(w) for w in ws}) == windows]
                if any(len({tuple(w) for w in ws}) < len(ws) for ws in readings.values()):
                    mon.cls("dir_equal_windows_share_a_name")
            mon.check(bool(match), "dir-windows", utt=u["id"], length=T, observed=windows,
                      expected={k: [list(w) for w in ws] for k, ws in readings.items()},
                      config=dict(policy=policy, window_type=wt, valid_only=valid, lobe_size=lobe))
            for kind in sorted({k.split("/")[0] for k in match}):
                mon.stat("dir_explained_by_reading:" + kind)
            if valid:
                mon.check(all(0 <= a < b <= T for a, b in windows), "dir-valid-inside", utt=u["id"], length=T,
                          observed=windows)
            for k, w in enumerate(windows):
                nchunks += 1
                fn = pre + fmt.format(utt_id=u["id"], idx=k, start=w[0], end=w[1]) + suf
                feat = torch.load(os.path.join(out_dir, "feat", fn))
                want = _expect_frames(u["feat"], w, mode, [case["pad_constant"]] * case["F"])
                okf = (feat.dim() == 2 and feat.dtype == torch.float and feat.tolist() == want)
                mon.check(okf, "dir-feat", utt=u["id"], window=list(w), observed=feat, expected=want,
                          pad_mode=mode)
                if has_ali:
                    ali = torch.load(os.path.join(out_dir, "ali", fn))
                    want = _expect_frames(u["ali"], w, mode, int(case["pad_constant"]))
                    mon.check(ali.dim() == 1 and ali.dtype == torch.long and ali.tolist() == want, "dir-ali",
                              utt=u["id"], window=list(w), observed=ali, expected=want, pad_mode=mode)
                if ref_names:
                    ref = torch.load(os.path.join(out_dir, "ref", fn))
                    if case["ref_kind"] == "tokens":  # no token has a known segment
                        mon.check(ref.numel() == 0 and ref.dtype == torch.long, "dir-ref", utt=u["id"],
                                  window=list(w), observed=ref, expected=[])
                        continue
                    mon.check(ref.dim() == 2 and ref.size(1) == 3 and ref.dtype == torch.long, "dir-ref-shape",
                              utt=u["id"], window=list(w), observed_shape=list(ref.shape))
                    cands = O.token_chunk([tuple(t) for t in u["ref"]], w, partial, retain)
                    obs = ref.tolist()
                    mon.check(O.explains(cands, obs, key=_dur_key), "dir-ref-selection", utt=u["id"],
                              window=list(w), observed=obs, expected=O.canonical(cands), partial=partial)
                    mon.stat("dir_tokens_kept", len(obs))
                    if O.explains(cands, obs):
                        mon.check(True, "dir-ref")
                    else:
                        deferred.append(dict(utt=u["id"], window=list(w), observed=obs,
                                             expected=O.canonical(cands), file=fn))
        mon.stat("dir_chunks", nchunks)
        if not nchunks:
            mon.trivial()
        # the result must itself be a well-formed directory
        strict = not partial and not retain
        before = after = "skipped"
        if strict:
            before, n_out = _validate(out_dir, case)
            mon.ev("validate_spect_data_set(chunked)")
            mon.check(n_out == nchunks, "dir-count", utterances_in_output=n_out, chunks_expected=nchunks)
            if deferred:
                # does the directory become well-formed once exactly the deviating references are
                # replaced by the oracle's?  (recorded for the known-finding classifier)
                for f in deferred:
                    torch.save(torch.tensor(f["expected"], dtype=torch.long).view(-1, 3),
                               os.path.join(out_dir, "ref", f["file"]))
                after, _ = _validate(out_dir, case)
            else:
                mon.check(before == "ok", "dir-validate", complaint=before,
                          config=dict(policy=policy, window_type=wt, lobe_size=lobe, pad_mode=mode))
        mon.check(not deferred, "dir-ref", failures=deferred, partial=partial, retain=retain,
                  validate_before_repair=before, validate_after_repair=after)
    finally:
        shutil.rmtree(tmp, ignore_errors=True)


def _expect_frames(frames, window, mode, value):
    try:
        cells = O.restrict(frames, window, mode, value)
    except O.PadOutOfScope as e:
        return "no admissible chunk: %s" % e
    return [c[1] for c in cells]


# --------------------------------------------------------------------------


def execute(case, mon):
    kind = case["kind"]
    if kind == "slice":
        _exec_slice(case, mon)
    elif kind == "tokens":
        _exec_tokens(case, mon)
    else:
        _exec_dir(case, mon)


# --------------------------------------------------------------------------
# known findings


def classify(entry_id, vrec):
    """D4: chunk_token_sequences_by_slices ADDS the slice start to the kept boundaries.
    Recognised only if *every* deviating chunk is explained by exactly that: retain=False, slice
    start != 0, at least one kept token, and the observed chunk is what the oracle yields when the
    start is added instead of subtracted (same tokens, same order).  At directory level additionally
    the output must be well-formed once the deviating references are replaced by the oracle's."""
    if entry_id != "D4":
        return False
    case, det, monitor = vrec["case"], vrec["details"], vrec["monitor"]
    fails = det.get("failures")
    if not fails:
        return False
    if monitor == "token-boundaries" and case.get("kind") == "tokens":
        N, R = case["N"], case["R"]
        lens = case["ref_lens"] if case["ref_lens"] is not None else [R] * N
        for f in fails:
            n = f["n"]
            triples = [tuple(t) for t in case["refs"][n][: lens[n]]]
            if not _is_d4(triples, case["slices"][n], f["partial"], f["retain"], f["observed"]):
                return False
        return True
    if monitor == "dir-ref" and case.get("kind") == "dir":
        if det.get("retain") or case["retain"]:
            return False
        if det.get("validate_after_repair") not in ("ok", "skipped"):
            return False
        utts = {u["id"]: u for u in case["utts"]}
        for f in fails:
            u = utts.get(f["utt"])
            if u is None or case["ref_kind"] != "segments":
                return False
            if not _is_d4([tuple(t) for t in u["ref"]], f["window"], case["partial"], False, f["observed"]):
                return False
        return True
    return False


def _is_d4(triples, window, partial, retain, observed):
    if retain or window[0] == 0 or not observed:
        return False
    return O.explains(O.token_chunk(triples, window, partial, False, shift_sign=+1), observed)


# --------------------------------------------------------------------------
# mechanism B: the repository's own tests as an additional workload (thorough tier)

PYTEST_FILES = ["tests/test_feats.py"]
PYTEST_ARGS = ["-k", "slice_spect_data or chunk_token_sequences"]


def hook_case(module, args, kwargs, output):
    import torch

    name = type(module).__name__
    if name not in ("SliceSpectData", "ChunkTokenSequencesBySlices") or torch.jit.is_tracing():
        return None
    a = list(args) + [None] * 3
    x, second, third = a[0], kwargs.get("in_lens", kwargs.get("slices", a[1])), kwargs.get(
        "other_lens", kwargs.get("ref_lens", a[2]))
    if x.device.type != "cpu" or x.numel() > 4000:
        return None
    if name == "SliceSpectData":
        policy = module.policy
        if x.dim() < 2:
            return None
        N, T = x.shape[:2]
        case = dict(kind="slice", policy=policy, N=N, T=T, trail=list(x.shape[2:]),
                    input=None if policy == "fixed" else x.tolist(),
                    in_lens=None if second is None else second.tolist(),
                    other_lens=None if (third is None or policy != "ref") else third.tolist(),
                    configs=[[module.window_type, bool(module.valid_only), int(module.lobe_size)]],
                    form="module", observed_module=name)
        if policy == "ali" and x.dim() != 2 or policy == "ref" and (x.dim() != 3 or x.size(2) != 3):
            return None
        return case
    if x.dim() != 3 or x.size(2) != 3:
        return None
    return dict(kind="tokens", N=x.size(0), R=x.size(1), refs=x.tolist(), slices=second.tolist(),
                ref_lens=None if third is None else third.tolist(),
                flags=[[bool(module.partial), bool(module.retain)]], form="module", observed_module=name)


def hook_compare(case, output, mon):
    """The value the test itself received must be what the judged re-execution produced."""
    if case["kind"] == "slice":
        wt, valid, lobe = case["configs"][0]
        w, s = _call_slicer(mon, "module", _slice_input(case), _lt(case["in_lens"]), _lt(case["other_lens"]),
                            case["policy"], wt, valid, lobe)
        mon.check(w == output[0].tolist() and s == output[1].tolist(), "observed-output",
                  observed=[output[0], output[1]], expected=[w, s])
    else:
        import torch

        N, R = case["N"], case["R"]
        partial, retain = case["flags"][0]
        obs = _call_chunker(mon, "module", torch.tensor(case["refs"], dtype=torch.long).view(N, R, 3),
                            torch.tensor(case["slices"], dtype=torch.long).view(N, 2), _lt(case["ref_lens"]),
                            partial, retain)
        ks = output[1].tolist()
        mon.check(obs == [output[0][n, : ks[n]].tolist() for n in range(N)], "observed-output",
                  observed=output[0], expected=obs)
