"""C06 - the n-gram lookup model computes Katz back-off on any table.

Events: construction of LookupLanguageModel on the user's dictionaries, __call__ with idx
unset / int / per-element tensor, calc_full_log_probs_chunked for several chunk sizes,
state_dict -> freshly constructed instance -> load_state_dict, parse_arpa_lm.
Oracle: vmon/oracles/c06_katz.py - the back-off recursion on the *dictionaries*.
"""
import io
import math
import os
import random
import shutil
import tempfile
import warnings

from ..oracles import c06_katz as K
from . import _c06_gen as G

ID = "C06"
LEVEL = "exploration"
RULE = (
    "class-directed random n-gram tables (orders 1-4, V 1-6 and V 10-60 for the integer-width classes; "
    "dense / prefix+suffix closed / arbitrary subsets with missing lower-order suffixes and contexts / "
    "-inf entries with children / empty middle order / an inner trie node fatter than any node nearer the root / level sizes straddling 255 / order-4 tables whose "
    "absolute node positions exceed the 8-bit offset type; sos inside, outside (V, V+3, 1000) and negative), "
    "batches of 1-4 histories of length 0..7 (thorough 0..14) spliced from listed n-grams and random tokens, "
    "every evaluation route (all positions, chunk sizes 1,2,3,7,T+2, every int idx incl. negative, four "
    "per-element idx vectors, truncated history, state_dict round trip in memory or through torch.save) and "
    "ARPA texts written by the harness (explicit/implicit back-offs, blank lines, tabs, scientific "
    "notation) parsed with and without token2id / to_base_e and fed to the model; thorough adds 48 (quick: 4) large "
    "tables (V 36-300, 256..37000 entries per level: 8/16/32-bit offset and 8/16-bit id buffers). A case is "
    "distinct by the hash of its concrete inputs and non-trivial if the order is >= 2 and the oracle "
    "answered at least one query from an entry of order >= 2 and at least one query by backing off"
)
ASSUMPTIONS = [
    "oracle: Katz recursion in float64 on the user's dictionaries (never the trie); model stores float32, "
    "so values are compared with abs 1e-5 + rel 1e-6; routes are compared with each other bit for bit",
    "histories contain vocabulary tokens only (class explicit_sos_hist additionally puts the start symbol "
    "itself into the history, which must behave like the padding)",
    "ARPA numbers are written with a negative or no exponent sign and -99 for 'impossible' (the format has "
    "no spelling of -inf); base e means the listed base-10 number divided by log10(e) (rel 1e-12)",
    "USE_JIT off (library runs as plain Python); CPU only",
    "large-table cases are recorded as the key of the deterministic harness generator (G.gen_large), not "
    "as 37000 literal entries; their kinds, sos and level sizes are listed under distinct_observed_values",
]
BUDGET = {
    # nominal (idle 16-core machine): quick ~10 s, thorough ~2 min.  `time` (thorough only) is the soft
    # limit per shard after which no further case is started; the floors are what a run must reach.
    "quick": dict(cases=128, shards=4, timeout=900),
    "thorough": dict(cases=1500, shards=16, timeout=1800, time=540),
}
_ROUTES = ["construct", "call_full", "call_idx_int", "call_idx_tensor", "call_idx_truncated",
           "calc_full_log_probs_chunked", "state_dict", "load_state_dict", "parse_arpa_lm"]
FLOORS = {
    # about half of what the unchanged (repaired) tree reaches for every seed
    "quick": {
        "events": {"construct": 300, "call_full": 550, "call_idx_int": 2000, "call_idx_tensor": 1500,
                   "call_idx_truncated": 1000, "calc_full_log_probs_chunked": 1900, "state_dict": 250,
                   "load_state_dict": 250, "parse_arpa_lm": 90,
                   "assert:full-vs-oracle": 250, "assert:reloaded-vs-oracle": 250,
                   "assert:chunked-equals-full": 1900, "assert:idx-int-equals-full": 2000,
                   "assert:idx-tensor-equals-full": 1500, "assert:idx-truncated-equals-full": 1000,
                   "assert:reloaded-equals-original": 250, "assert:arpa-entries": 2000,
                   "assert:arpa-entries-base-e": 1000, "assert:arpa-model-vs-oracle": 30},
        "classes": dict({c: 15 for c in set(G.CLASSES)},
                        **{k: 60 for k in G.SOS_KINDS},
                        offsets_uint8=200, offsets_int16=5, offsets_int32=1, built_wider_than_stored=10,
                        neginf_entry_with_children=80, backfilled_suffix=80, T0=30, B1=50,
                        level_gt_255=8, level_gt_32767=1),
        "stats": {"oracle_answer_order_2": 8000, "oracle_answer_order_3": 1200, "oracle_answer_order_4": 350,
                  "oracle_backoff_steps_1": 4000, "oracle_backoff_steps_2": 3500, "oracle_backoff_steps_3": 1200,
                  "oracle_nonzero_backoff_used": 7000, "abs_parent_pos_gt_255_with_uint8": 12,
                  "state_dict_through_torch_save": 60},
        "distinct": 200,
    },
    # nominal 16 x 1500 random + 48 large cases (the large ones run first); the floors are about a
    # third of that so that a slow machine (soft time limit reached) still gives a verdict
    "thorough": {
        "events": {"construct": 5500, "call_full": 10000, "call_idx_int": 70000, "call_idx_tensor": 30000,
                   "call_idx_truncated": 35000, "calc_full_log_probs_chunked": 37000, "state_dict": 5000,
                   "load_state_dict": 5000, "parse_arpa_lm": 1800,
                   "assert:full-vs-oracle": 5000, "assert:reloaded-vs-oracle": 5000,
                   "assert:reloaded-equals-original": 5000, "assert:chunked-equals-full": 37000,
                   "assert:idx-int-equals-full": 70000, "assert:idx-tensor-equals-full": 30000,
                   "assert:arpa-entries": 40000, "assert:arpa-model-vs-oracle": 600},
        "classes": dict({c: 300 for c in set(G.CLASSES)},
                        **{k: 1600 for k in G.SOS_KINDS},
                        offsets_uint8=4000, offsets_int16=250, offsets_int32=8, ids_int16=4,
                        built_int32_stored_int16=3, built_wider_than_stored=280,
                        level_gt_32767=8, level_gt_255=200, neginf_entry_with_children=1900,
                        backfilled_suffix=2000, T0=700, B1=1200),
        "stats": {"oracle_answer_order_2": 240000, "oracle_answer_order_3": 55000, "oracle_answer_order_4": 16000,
                  "oracle_backoff_steps_1": 160000, "oracle_backoff_steps_2": 170000,
                  "oracle_backoff_steps_3": 60000, "oracle_nonzero_backoff_used": 300000,
                  "abs_parent_pos_gt_255_with_uint8": 300, "state_dict_through_torch_save": 2000},
        "distinct": 3700,
    },
}
N_LARGE = {"quick": 5, "thorough": 54}


def generate(rng, tier, i):
    return G.gen_case(rng, tier, i)


def enumerate_cases(tier):
    """Large tables (level sizes across 255 / 32767 entries).  Thorough: 48 (every kind with
    every sos kind, exact and back-filled); quick: one per shard, rotating with the seed."""
    seed = _seed()
    if tier == "quick":
        # one table per boundary: potential offset at 32767/32768, a level beyond 32767 entries,
        # a 255-boundary / wide-vocabulary table, a level of 32765..32768 entries
        js = [seed % 2, 2 + (seed // 2) % 2, 4 + seed % 3, 7, 8]  # 8: largest offset exactly the int16 maximum
        js = [j + len(G.LARGE_KINDS) * (seed % 6) for j in js]
    else:
        js = range(N_LARGE[tier])
    for j in js:
        # the concrete table (up to 37000 entries) is regenerated from this key inside execute:
        # G.gen_large is a pure function of (key, j), so the case is still fully determined
        yield {"class": "large_" + G.LARGE_KINDS[j % len(G.LARGE_KINDS)][0],
               "large": {"key": "C06/large/%s/%d" % (seed, j), "j": j}}


def _seed():
    """The run's seed as the shard process got it (--seed on its command line, else VERIF_SEED)."""
    import sys

    try:
        if "--seed" in sys.argv:
            return int(sys.argv[sys.argv.index("--seed") + 1])
        return int(os.environ.get("VERIF_SEED", "0") or 0)
    except (ValueError, IndexError):
        return 0


# --------------------------------------------------------------------------
# helpers


def _lm_cls():
    import pydrobert.torch.modules as M

    return M.LookupLanguageModel


def _cmp(mon, got, exp, monitor, tol=1e-5, rel=1e-6, **details):
    """got (tensor) against exp (nested list / tensor) in float64: same shape, no NaN, same
    infinities, finite values within tol + rel*|exp|.  The worst element is the witness."""
    import torch

    g = got.detach().to(torch.float64)
    e = exp.detach().to(torch.float64) if isinstance(exp, torch.Tensor) else torch.tensor(exp, dtype=torch.float64)
    e = e.reshape(g.shape) if e.numel() == g.numel() and e.dim() != g.dim() else e
    mon.check(tuple(g.shape) == tuple(e.shape), monitor + "-shape", observed=list(g.shape),
              expected=list(e.shape), **details)
    fin = torch.isfinite(g) & torch.isfinite(e)
    diff = torch.where(fin, (g - e).abs(), torch.zeros_like(g))
    allowed = tol + rel * torch.where(fin, e.abs(), torch.zeros_like(e))
    bad = (~fin & ~((g == e) & ~torch.isnan(g))) | (diff > allowed)
    if not bool(bad.any()):
        if g.numel():
            k = int(torch.argmax((diff / allowed).reshape(-1)))
            mon.dev(monitor + " |diff|/(abs+rel*|expected|)", float((diff / allowed).reshape(-1)[k]), 1.0)
            k = int(torch.argmax(diff.reshape(-1)))
            mon.dev(monitor + " max |diff|", float(diff.reshape(-1)[k]), float(allowed.reshape(-1)[k]))
        mon.check(True, monitor)
        return
    score = torch.where(fin, diff, torch.full_like(diff, float("inf"))) * bad
    at = [int(x) for x in torch.unravel_index(torch.argmax(score.reshape(-1)), g.shape)] if g.dim() else []
    mon.check(False, monitor, index=at, observed=float(g[tuple(at)]), expected=float(e[tuple(at)]),
              n_bad=int(bad.sum()), n_total=int(bad.numel()), tol=tol, **details)


def _same(mon, got, ref, monitor, **details):
    """Two evaluation routes must give the same numbers (bit for bit, NaN never equal)."""
    import torch

    ok = tuple(got.shape) == tuple(ref.shape) and bool(torch.equal(got, ref))
    if ok:
        mon.check(True, monitor)
        return
    det = dict(details, observed_shape=list(got.shape), expected_shape=list(ref.shape))
    if tuple(got.shape) == tuple(ref.shape):
        neq = ~(got == ref)
        at = [int(x) for x in torch.nonzero(neq)[0]]
        det.update(index=at, observed=float(got[tuple(at)]), expected=float(ref[tuple(at)]), n_bad=int(neq.sum()))
    mon.check(False, monitor, **det)


def _hist_tensor(case, mon, B, T, V):
    """The same history values handed over in different memory layouts: a fresh tensor, a row-sliced view
    (contiguous, non-zero storage offset - what `tokens[1:]` is), a batch-narrowed view and a transposed view."""
    import torch

    base = torch.tensor(case["hist"], dtype=torch.long).reshape(B, T).t().contiguous()  # (T, B)
    layout = case.get("hist_layout") or ["fresh", "row_offset", "col_narrow", "transposed", "fresh"][(3 * T + B + V) % 5]
    if T == 0 or B == 0:
        layout = "fresh"
    mon.cls("hist_layout:" + layout)
    if layout == "row_offset":
        big = torch.cat([torch.full((2, B), max(V - 1, 0), dtype=torch.long), base, torch.zeros(1, B, dtype=torch.long)], 0)
        return big[2:2 + T]
    if layout == "col_narrow":
        junk = torch.full((T, 1), max(V - 1, 0), dtype=torch.long)
        big = torch.cat([junk, base, junk], 1)
        return big[:, 1:1 + B]
    if layout == "transposed":
        return base.t().contiguous().t()
    return base


def _describe_table(mon, case, dicts):
    """Input classes that depend on the concrete table (counted for the floors)."""
    N = len(dicts)
    mon.cls(case["sos_kind"])
    if case["T"] == 0:
        mon.cls("T0")
    if case["B"] == 1:
        mon.cls("B1")
    backfill = False
    neginf_children = False
    for n in range(1, N):
        lower = dicts[n - 1]
        for key in dicts[n]:
            suf = key[1:] if n > 1 else key[1]
            ent = lower.get(suf)
            if ent is None:
                backfill = True
            elif not math.isfinite(ent[0]):
                neginf_children = True
    if backfill:
        mon.cls("backfilled_suffix")
    if neginf_children:
        mon.cls("neginf_entry_with_children")
    sizes = [len(d) for d in dicts]
    if max(sizes) > 255:
        mon.cls("level_gt_255")
    if max(sizes) > 32767:
        mon.cls("level_gt_32767")
    mon.observe("order,V,shift", "%d,%d,%d" % (N, case["V"], 0 if 0 <= case["sos"] < case["V"] else 1))
    return sizes


def _describe_model(mon, lm, case, sizes):
    """What the builder actually produced (observation only: buffer widths, trie size)."""
    import torch

    N = len(sizes)
    od, idt = lm.offsets.dtype, lm.ids.dtype
    if N > 1:
        mon.cls("offsets_" + str(od).replace("torch.", ""), "ids_" + str(idt).replace("torch.", ""))
        pot = max(sizes[n] + sizes[n - 1] - 1 for n in range(1, N))
        # width chosen for building (before back-fill the potential can only be smaller than
        # what the builder computes, so this is a lower bound on the build width)
        build = "uint8" if pot <= 255 else "int16" if pot <= 32767 else "int32"
        stored = str(od).replace("torch.", "")
        if build != stored and (build, stored) != ("uint8", "uint8"):
            order = ["uint8", "int16", "int32", "int64"]
            if order.index(build) > order.index(stored):
                mon.cls("built_wider_than_stored", "built_%s_stored_%s" % (build, stored))
        if build == "uint8" and N >= 3:
            S = case["V"] + (0 if 0 <= case["sos"] < case["V"] else 1)
            # absolute index of the last parent looked up while the highest level is allocated
            abs_pos = S + sum(sizes[1:N - 2]) + (N - 3) + sizes[N - 2]
            if abs_pos > 255:
                mon.stat("abs_parent_pos_gt_255_with_uint8")
        mon.observe("offset/id dtypes", "%s/%s" % (od, idt))
        mon.stat("max_offset_observed_le_255" if int(lm.offsets.max()) <= 255 else
                 "max_offset_observed_le_32767" if int(lm.offsets.max()) <= 32767 else "max_offset_observed_gt_32767")


def _oracle_full(mon, dicts, case):
    kz = K.Katz(dicts)
    V, sos = case["V"], case["sos"]
    cols = [kz.full(h, sos, V) for h in case["hist"]]  # B x (T+1) x V
    T1 = case["T"] + 1
    exp = [[cols[b][t] for b in range(case["B"])] for t in range(T1)]  # (T+1) x B x V
    for n in range(len(kz.hit)):
        if kz.hit[n]:
            mon.stat("oracle_answer_order_%d" % n if n else "oracle_answer_unigram_missing", kz.hit[n])
        if kz.steps[n]:
            mon.stat("oracle_backoff_steps_%d" % n, kz.steps[n])
    mon.stat("oracle_nonzero_backoff_used", kz.nonzero_backoffs)
    nontrivial = kz.N >= 2 and sum(kz.hit[2:]) > 0 and sum(kz.steps[1:]) > 0
    return exp, nontrivial


def _drive_model(mon, case, dicts, label=""):
    """All evaluation routes of one table against the oracle and against each other."""
    import torch

    LM = _lm_cls()
    V, sos, T, B = case["V"], case["sos"], case["T"], case["B"]
    sizes = _describe_table(mon, case, dicts)
    user = [dict(d) for d in dicts]  # what the user keeps; the oracle only ever reads this
    arg = [dict(d) for d in dicts]
    with warnings.catch_warnings():
        warnings.simplefilter("ignore")
        if case.get("destructive"):
            lm = mon.lib("construct", LM, V, sos, arg, True)
        elif (V + T + 2 * B) % 5 == 3:
            # the table handed over under the keyword's former name (deprecated, still accepted)
            lm = mon.lib("construct", lambda: LM(V, sos, prob_list=arg))
            mon.stat("constructed_with_deprecated_keyword")
        elif (V + T + 2 * B) % 5 == 1:
            lm = mon.lib("construct", lambda: LM(vocab_size=V, sos=sos, prob_dicts=arg))
        else:
            lm = mon.lib("construct", LM, V, sos, arg)
    _describe_model(mon, lm, case, sizes)
    hist = _hist_tensor(case, mon, B, T, V)  # (T, B), possibly a view into a larger tensor
    exp, nontrivial = _oracle_full(mon, user, case)
    det = dict(route=label)

    full = mon.lib("call_full", lm, hist)
    mon.check(tuple(full.shape) == (T + 1, B, V), "full-shape", observed=list(full.shape), expected=[T + 1, B, V])
    _cmp(mon, full, exp, "full-vs-oracle", **det)

    def routes(m, tag):
        light = tag != "original"  # the reloaded instance repeats a rotating part of the routes
        rot = (T + B + V) % 4
        # all positions at once / in chunks of any size
        for j, c in enumerate(case["chunks"]):
            if light and j % 2 != rot % 2:
                continue
            got = mon.lib("calc_full_log_probs_chunked", m.calc_full_log_probs_chunked, hist, dict(), c)
            _same(mon, got, full, "chunked-equals-full", chunk_size=c, model=tag)
        # one index at a time (int; positive or negative spelling)
        for t in range(T + 1):
            spelled = t if (t + rot + light) % 2 == 0 else t - T - 1
            out = mon.lib("call_idx_int", m, hist, idx=spelled)
            mon.check(isinstance(out, tuple) and len(out) == 2 and isinstance(out[1], dict),
                      "idx-returns-pair", observed=str(type(out)))
            _same(mon, out[0], full[t], "idx-int-equals-full", idx=spelled, model=tag)
            if not light:
                # the history cut right after the index (what a decoder passes)
                out = mon.lib("call_idx_truncated", m, hist[:t], dict(), t)
                _same(mon, out[0], full[t], "idx-truncated-equals-full", idx=t, model=tag)
        # a history of calls that keep passing the SAME index tensor object (-1 = "the next token") while the
        # history grows - what a decoding loop does
        if not light and T >= 1:
            last = torch.tensor(-1)
            for t in sorted({0, T // 2, T}):
                out = mon.lib("call_idx_same_tensor_object", m, hist[:t], idx=last)
                _same(mon, out[0], full[t], "idx-reused-tensor-equals-full", idx=-1, history_length=t, model=tag)
            mon.stat("idx_tensor_left_untouched" if int(last) == -1 else "idx_tensor_modified_by_the_call")
        # a different index per batch element
        ar = torch.arange(B)
        for j, vec in enumerate(case["idx"]):
            if light and j % 2 != rot % 2:
                continue
            iv = torch.tensor(vec, dtype=torch.long)
            out = mon.lib("call_idx_tensor", m, hist, idx=iv)
            want = full[(torch.tensor(vec, dtype=torch.long) + T + 1) % (T + 1), ar]
            _same(mon, out[0], want, "idx-tensor-equals-full", idx=vec, model=tag)
            if not light and T >= 2:
                # ... and the same per-element tensor again on a shorter history (negative entries count from its end)
                T2 = T - 1
                ok = all(-T2 - 1 <= x <= T2 for x in vec)
                if ok:
                    out = mon.lib("call_idx_tensor", m, hist[:T2], idx=iv)
                    want = full[(torch.tensor(vec, dtype=torch.long) + T2 + 1) % (T2 + 1), ar]
                    _same(mon, out[0], want, "idx-tensor-equals-full", idx=vec, history_length=T2, model=tag,
                          note="same tensor object passed a second time")

    routes(lm, "original")

    # saved and loaded into a freshly constructed instance
    sd = mon.lib("state_dict", lm.state_dict)
    if case.get("via_file"):
        buf = io.BytesIO()
        torch.save(sd, buf)
        buf.seek(0)
        sd = torch.load(buf)
        mon.stat("state_dict_through_torch_save")
    fresh = LM(V, sos)
    mon.lib("load_state_dict", fresh.load_state_dict, sd)
    full2 = mon.lib("call_full", fresh, hist)
    _same(mon, full2, full, "reloaded-equals-original", model="reloaded")
    _cmp(mon, full2, exp, "reloaded-vs-oracle", **det)
    routes(fresh, "reloaded")

    # ... and into an instance that was freshly constructed *from another table* (same vocabulary and start symbol):
    # whatever that instance held before - buffers of the same length and dtype included - must be gone afterwards
    N = len(dicts)
    if N >= 2:
        seen, thin = set(), {}
        for k, v in dicts[-1].items():
            if k[:-1] not in seen:
                seen.add(k[:-1])
                thin[k] = v
        other = [dict(d) for d in dicts[:-1]] + [thin]
        kind = "same_lower_orders_thinned_top" if len(thin) < len(dicts[-1]) else "same_table"
    else:
        other = [{0: -1.0}]
        kind = "unigram_stub"
    with warnings.catch_warnings():
        warnings.simplefilter("ignore")
        used = LM(V, sos, other)
    before = (tuple(used.offsets.shape), used.offsets.dtype, int(used.max_direct_descendants))
    mon.lib("load_state_dict", used.load_state_dict, sd)
    mon.cls("reload_receiver:" + kind)
    if before[:2] == (tuple(lm.offsets.shape), lm.offsets.dtype):
        mon.stat("reload_receiver_held_offsets_of_same_shape_and_dtype")
        if before[2] != int(lm.max_direct_descendants):
            mon.stat("reload_receiver_had_another_fan_out")
    full3 = mon.lib("call_full", used, hist)
    _same(mon, full3, full, "reloaded-equals-original", model="reloaded into an instance built from another table",
          receiver=kind)
    _cmp(mon, full3, exp, "reloaded-vs-oracle", route=label, receiver=kind)
    return nontrivial


# --------------------------------------------------------------------------
# ARPA


def _arpa(mon, case):
    """parse_arpa_lm must return exactly the listed entries (base 10, or / log10(e))."""
    import pydrobert.torch.data as D

    spec = case["arpa"]
    names = {int(k): v for k, v in spec["names"]}
    text, listed = K.write_arpa(case["table"], names, random.Random(spec["seed"]),
                                explicit_backoffs=spec["explicit_backoffs"], hostile=spec["hostile"])
    token2id = {v: k for k, v in names.items()}
    N = len(listed)
    log10e = math.log10(math.e)

    def expect(ids, base_e):
        out = []
        for n, d in enumerate(listed):
            e = {}
            for k, v in d.items():
                if ids:
                    k = token2id[k] if n == 0 else tuple(token2id[t] for t in k)
                if n < N - 1:
                    v = (v[0] / log10e, v[1] / log10e) if base_e else v
                else:
                    v = v / log10e if base_e else v
                e[k] = v
            out.append(e)
        return out

    def compare(got, want, what):
        mon.check(isinstance(got, list) and len(got) == len(want), "arpa-orders", observed=len(got),
                  expected=len(want), route=what, text=text)
        for n, (g, w) in enumerate(zip(got, want)):
            mon.check(set(g.keys()) == set(w.keys()), "arpa-keys", order=n + 1, route=what,
                      missing=sorted(map(str, set(w) - set(g)))[:5], surplus=sorted(map(str, set(g) - set(w)))[:5],
                      text=text)
            for k, wv in w.items():
                gv = g[k]
                pair = n < N - 1
                okshape = (isinstance(gv, tuple) and len(gv) == 2) if pair else not isinstance(gv, tuple)
                mon.check(okshape, "arpa-value-shape", order=n + 1, key=str(k), observed=repr(gv), route=what, text=text)
                gl, wl = (list(gv), list(wv)) if pair else ([gv], [wv])
                for a, b in zip(gl, wl):
                    if "base_e" in what:
                        mon.close(a, b, 0.0, "arpa-entries-base-e", rel=1e-12, key=str(k), route=what, text=text)
                    else:
                        mon.check(float(a) == float(b), "arpa-entries", observed=float(a), expected=float(b),
                                  key=str(k), order=n + 1, route=what, text=text)

    with warnings.catch_warnings():
        warnings.simplefilter("ignore")
        # file object, strings as keys, base 10
        got = mon.lib("parse_arpa_lm", D.parse_arpa_lm, io.StringIO(text), None, False)
        compare(got, expect(False, False), "fileobj/tokens/base10")
        # path, ids as keys, natural logarithms
        tmpd = tempfile.mkdtemp(prefix="vmon-c06-")
        try:
            path = os.path.join(tmpd, "lm.arpa")
            with open(path, "w") as f:
                f.write(text)
            got_e = mon.lib("parse_arpa_lm", D.parse_arpa_lm, path, token2id, True)
            got_10 = mon.lib("parse_arpa_lm", D.parse_arpa_lm, path, token2id=token2id, to_base_e=False)
        finally:
            shutil.rmtree(tmpd, ignore_errors=True)
        compare(got_e, expect(True, True), "path/ids/base_e")
        compare(got_10, expect(True, False), "path/ids/base10")
    mon.observe("arpa-flags", "explicit=%s hostile=%s" % (spec["explicit_backoffs"], spec["hostile"]))
    # composition: what the reader returned is what the model is built from; the oracle works on
    # the numbers listed in the text
    want = expect(True, bool(spec["seed"] % 2))
    parsed = got_e if spec["seed"] % 2 else got_10
    return parsed, want


def execute(case, mon):
    if "large" in case:
        spec = case["large"]
        case = G.gen_large(random.Random(spec["key"]), spec["j"])
        mon.observe("large tables (kind, sos, level sizes)", "%s sos=%d %s" % (
            case["class"], case["sos"], [len(level) for level in case["table"]]))
    if case["class"] == "arpa":
        parsed, want = _arpa(mon, case)
        sub = dict(case, destructive=False)
        import torch

        LM = _lm_cls()
        V, sos, T, B = case["V"], case["sos"], case["T"], case["B"]
        with warnings.catch_warnings():
            warnings.simplefilter("ignore")
            lm = mon.lib("construct", LM, V, sos, parsed)
        hist = torch.tensor(case["hist"], dtype=torch.long).reshape(B, T).t().contiguous()
        exp, _ = _oracle_full(mon, want, sub)
        full = mon.lib("call_full", lm, hist)
        _cmp(mon, full, exp, "arpa-model-vs-oracle")
        # and the whole route set on the listed table itself
        nontrivial = _drive_model(mon, sub, want, "arpa-listed")
    else:
        dicts = K.to_dicts(case["table"])
        nontrivial = _drive_model(mon, case, dicts, "table")
    if not nontrivial:
        mon.trivial()


def classify(entry_id, vrec):
    """D1 (fixed, so this suppresses nothing; kept so that a re-opened entry matches the mechanism
    only): the builder itself raises IndexError/OverflowError out of _build_trie."""
    if entry_id != "D1":
        return False
    d = vrec.get("details", {})
    return (vrec.get("monitor") == "raised:construct" and d.get("exception") in ("IndexError", "OverflowError")
            and "_build_trie" in d.get("traceback", ""))
