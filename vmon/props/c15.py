"""C15 - training control decisions follow the stated rules and survive restarts.

Events: return value of update_for_epoch, continue_training(), optimizer.param_groups[*]['lr'],
controller[epoch], the bytes of the history CSV.  Oracle: vmon/oracles/c15_controller.py (a
reference controller that keeps its reference value instead of re-deriving a reference epoch).
Restart equivalence is a history check (uninterrupted run vs. runs in which the controller - and,
in 'full' mode, model and optimizer too - are discarded and rebuilt from the files after a chosen
subset of epochs).  Class invariants are attached to the real class with icontract.invariant.
"""
import itertools
import os
import shutil
import sys
import tempfile
import warnings

from .. import core
from ..oracles import c15_controller as ref
from . import _c15_gen as G

ID = "C15"
LEVEL = "exploration"
RULE = (
    "class-directed random histories: 2..8 epochs of validation/training metrics on the grid k/8 < 100 "
    "(shapes random, monotone, slippery slope, plateau, improvement exactly equal to the threshold, sawtooth), "
    "patience 1-3, burn-in 0-3, cool-down 0-2, thresholds {0,1/8,1/4,1/2,1,2}, budgets incl. unset, exact "
    "factors (0.5,0.1,0.2) and general ones, 1 or 2 optimizer parameter groups, user entries of type "
    "int/float/str; every history is driven uninterrupted and with 4 restart subsets (quick) or, for <= 6 "
    "epochs in a third of the thorough cases, every subset of epochs; a case is distinct by the hash of its "
    "concrete inputs and non-trivial if the reference controller takes at least one decision in it (a "
    "stop, a criterion failure, or a rate reduction) and at least one restart happens before the last epoch"
)
ASSUMPTIONS = [
    "oracle: reference controller written from the property's sentences (vmon/oracles/c15_controller.py)",
    "metrics and thresholds are multiples of 1/8 below 100: exact in binary and in the CSV's 5-digit format",
    "exact restart comparison (CSV bytes) only where every rate is a 5-digit number; otherwise decisions "
    "equal and rates within 2e-4 relative (the CSV stores 5 significant digits)",
    "histories whose negligible-change test (old-new vs 10**eps) is within 1% of the boundary are not generated",
    "the run is not driven past the first 'stop' decision (continuing after a stop is outside the property)",
    "stored count-down columns are compared with their documented meaning as an observation only",
]
BUDGET = {
    "quick": dict(cases=130, shards=4, timeout=600),
    "thorough": dict(cases=1500, shards=16, timeout=3000, time=450),
}
CLASSES = G.SHAPES + ["general_factor", "no_state_dir", "user_entries", "budget_only", "es_only", "rlr_only"]
FLOORS = {
    "quick": {
        "events": {"update_for_epoch": 5000, "continue_training": 8000, "controller_rebuilt": 3000,
                   "assert:decision": 1000, "assert:lr-rule": 1000, "assert:lr-in-optimizer": 1000, "assert:lr-written-into-optimizer": 300,
                   "assert:restart-decision": 4000, "assert:restart-lr": 4000, "assert:restart-csv": 1000,
                   "assert:restart-history": 1500, "assert:info-stored": 4000, "assert:info-reloaded": 4000,
                   "assert:restart-state-loaded": 1200,
                   "invariant:countdowns": 50000, "invariant:lr-positive": 50000,
                   "invariant:contiguous": 50000},
        "classes": dict({c: 25 for c in CLASSES}, early_stop=80, budget_stop=70, lr_reduced=60,
                        negligible_change=15, cooldown_skip=40, es_fail_then_reset=15,
                        exact_threshold_hit=60, restart_full=300, restart_controller=300,
                        typed_entries=150, lr_general=25, two_groups=120),
        "stats": {"countdowns_match_reference": 1000},
        "distinct": 300,
    },
    "thorough": {
        "events": {"update_for_epoch": 150000, "controller_rebuilt": 60000, "assert:restart-csv": 30000,
                   "invariant:countdowns": 300000},
        "classes": dict({c: 400 for c in CLASSES}, early_stop=1000, budget_stop=1000, lr_reduced=1000,
                        negligible_change=150, all_subsets=600, lr_general=400),
        "distinct": 6000,
    },
}
EXHAUSTIVE = {"thorough": False}


# --------------------------------------------------------------------------
# class invariants on the real class (icontract)

_INV = {"n": {}, "how": None}


class InvariantBroken(Exception):
    def __init__(self, name, hist):
        super().__init__(name)
        self.name, self.hist = name, hist


def _count(name):
    _INV["n"][name] = _INV["n"].get(name, 0) + 1


def inv_countdowns(self):
    _count("countdowns")
    hist = getattr(self, "cache_hist", None)
    if not hist:
        return True
    bounds = self.__dict__.get("_vmon_c15_bounds")
    if bounds is None or bounds[0] is not self.params:
        p = self.params
        bounds = (p, p.early_stopping_burnin, p.early_stopping_patience,
                  max(p.reduce_lr_burnin, p.reduce_lr_cooldown), p.reduce_lr_patience)
        self.__dict__["_vmon_c15_bounds"] = bounds
    _, a, b, c, d = bounds
    for info in hist.values():
        if not (0 <= info["es_resume_cd"] <= a and 0 <= info["es_patience_cd"] <= b
                and 0 <= info["rlr_resume_cd"] <= c and 0 <= info["rlr_patience_cd"] <= d):
            return False
    return True


def inv_lr_positive(self):
    _count("lr-positive")
    for e, info in getattr(self, "cache_hist", {}).items():
        lr = info["lr"]
        if lr is None:
            if e != 0:
                return False
        elif not (lr > 0 and lr < float("inf")):
            return False
    return True


def inv_contiguous(self):
    _count("contiguous")
    keys = sorted(getattr(self, "cache_hist", {}))
    return keys == list(range(len(keys))) and all(self.cache_hist[k]["epoch"] == k for k in keys)


_CONDITIONS = [("countdowns", inv_countdowns), ("lr-positive", inv_lr_positive), ("contiguous", inv_contiguous)]


def _snapshot_hist(self):
    try:
        return {str(k): dict(v) for k, v in self.cache_hist.items()}
    except Exception:
        return None


def _install_invariants(mon):
    import pydrobert.torch.training as T

    cls = T.TrainingStateController
    if getattr(cls, "_vmon_c15_invariants", False):
        return
    have = core.ensure_deps()
    if have and core.DEPS not in sys.path:
        sys.path.append(core.DEPS)
    try:
        import icontract

        for name, cond in _CONDITIONS:
            icontract.invariant(
                cond, description=name,
                error=(lambda nm: (lambda self: InvariantBroken(nm, _snapshot_hist(self))))(name),
            )(cls)
        _INV["how"] = "icontract " + getattr(icontract, "__version__", "?")
    except ImportError:
        # fall-back: hand-written wrapper with the same conditions after every public method
        import functools

        def wrap(fn):
            @functools.wraps(fn)
            def inner(self, *a, **k):
                out = fn(self, *a, **k)
                for name, cond in _CONDITIONS:
                    if not cond(self):
                        raise InvariantBroken(name, _snapshot_hist(self))
                return out
            return inner

        for name in ["__init__", "update_cache", "add_entry", "update_for_epoch", "save_info_to_hist",
                     "load_model_and_optimizer_for_epoch", "load_model_for_epoch", "continue_training"]:
            setattr(cls, name, wrap(getattr(cls, name)))
        _INV["how"] = "hand-written wrapper (icontract unavailable)"
        mon.notes.append("C15: icontract unavailable, invariants attached by a hand-written wrapper")
    cls._vmon_c15_invariants = True


def setup(mon):
    warnings.filterwarnings("ignore")
    _install_invariants(mon)


# --------------------------------------------------------------------------
# generation


def _subsets(rng, n, tier, i):
    """Restart plans: each a dict(after=[epochs after which everything is rebuilt], mode)."""
    eps = list(range(1, n + 1))  # a restart after the final epoch checks continue_training()
    plans = [
        {"after": eps, "mode": "full"},
        {"after": eps, "mode": "controller"},
        {"after": sorted(rng.sample(eps, rng.randint(1, len(eps)))), "mode": rng.choice(["full", "controller"])},
        {"after": [rng.choice(eps)], "mode": rng.choice(["full", "controller"])},
    ]
    if tier == "thorough" and n <= 6 and i % 3 == 0:
        plans = []
        inner = list(range(1, n))
        for r in range(0, len(inner) + 1):
            for sub in itertools.combinations(inner, r):
                plans.append({"after": list(sub) + [n], "mode": "full" if (len(plans) % 2 == 0) else "controller"})
    return plans


def generate(rng, tier, i):
    cls = CLASSES[i % len(CLASSES)]
    n_max = rng.randint(2, 8)
    force = {}
    if cls == "budget_only":
        force = {"es_threshold": 0.0, "num_epochs": rng.randint(1, n_max)}
    elif cls == "es_only":
        force = {"rlr_threshold": 0.0, "es_threshold": rng.choice(G.THRESHOLDS[1:]), "num_epochs": None,
                 "es_burnin": rng.randint(0, 2)}
    elif cls == "rlr_only":
        force = {"es_threshold": 0.0, "rlr_threshold": rng.choice(G.THRESHOLDS[1:]), "num_epochs": None,
                 "rlr_burnin": rng.randint(0, 1)}
    if cls == "general_factor":
        force = {"rlr_threshold": rng.choice([1.0, 2.0]), "rlr_patience": rng.randint(1, 2),
                 "rlr_burnin": rng.randint(0, 1)}
    hist = G.gen_history(rng, n_max, exact_lr=(cls != "general_factor"),
                         shape=cls if cls in G.SHAPES else None, force=force,
                         want_general=(cls == "general_factor"))
    if cls == "user_entries" and not hist["entries"]:
        while not hist["entries"]:
            hist["entries"] = G.gen_entries(rng, n_max)
    n = len(ref.run(hist["cfg"], G.lr0_of(hist["cfg"]), hist["val"]))
    case = dict(hist)
    case.update({
        "class": cls, "groups": rng.choice([1, 2]), "keep2": rng.random() < 0.5,
        "state_dir": cls != "no_state_dir", "n": n,
    })
    plans = _subsets(rng, n, tier, i)
    if not case["state_dir"]:
        for p in plans:
            p["mode"] = "controller"
    case["restarts"] = plans
    # which metric ranks the epochs (for the "best" checkpoint) is independent of the stop / reduce rules,
    # which always follow the validation metric
    case["best_is_train"] = rng.random() < 0.35
    return case


# --------------------------------------------------------------------------
# driving the real controller


def _guard(mon, name, fn):
    def run():
        try:
            return fn()
        except InvariantBroken as e:
            raise core.Violation("invariant:" + e.name, {"during": name, "cache_hist": e.hist})
    return mon.lib(name, run)


def _new_controller(mon, T, case, root, entries=None):
    params = G.make_params(T, case["cfg"], keep2=case["keep2"])
    sd = os.path.join(root, "states") if case["state_dir"] else None
    ctrl = _guard(mon, "TrainingStateController", lambda: T.TrainingStateController(
        params, os.path.join(root, "hist.csv"), sd))
    for name, typ, fmt, vals in (case["entries"] if entries is None else entries):
        _guard(mon, "add_entry", lambda: ctrl.add_entry(name, G.TYPES[typ], fmt))
    return ctrl


def _drive(mon, T, case, root, plan, sync=True):
    """One run of the whole history; `plan` None = uninterrupted.  Returns per-epoch records.
    sync=False: the optimizer is NOT initialised through the controller, so its rate differs from the
    controller's recorded rate until the first reduction writes the new rate into it."""
    cfg, n = case["cfg"], case["n"]
    after = set(plan["after"]) if plan else set()
    mode = plan["mode"] if plan else None
    ctrl = _new_controller(mon, T, case, root)
    model, opt = G.make_model_opt(cfg, case["groups"])
    if sync:
        _guard(mon, "load_model_and_optimizer_for_epoch",
               lambda: ctrl.load_model_and_optimizer_for_epoch(model, opt))
    recs = []
    for e in range(1, n + 1):
        G.train_to(model, opt, e)
        kw = G.user_kwargs(case, e)
        cont = _guard(mon, "update_for_epoch", lambda: ctrl.update_for_epoch(
            model, opt, case["train"][e - 1], case["val"][e - 1], best_is_train=bool(case.get("best_is_train", False)), **kw))
        rec = {"cont": cont, "lrs": [g["lr"] for g in opt.param_groups], "info": dict(ctrl[e]),
               "ct": _guard(mon, "continue_training", lambda: ctrl.continue_training()),
               "last": ctrl.get_last_epoch()}
        recs.append(rec)
        if e in after:
            mon.ev("controller_rebuilt")
            del ctrl
            ctrl = _new_controller(mon, T, case, root)
            rec["ct_rebuilt"] = _guard(mon, "continue_training", lambda: ctrl.continue_training())
            rec["last_rebuilt"] = ctrl.get_last_epoch()
            if mode == "full":
                del model, opt
                model, opt = G.make_model_opt(cfg, case["groups"])
                _guard(mon, "load_model_and_optimizer_for_epoch",
                       lambda: ctrl.load_model_and_optimizer_for_epoch(model, opt))
                rec["lrs_rebuilt"] = [g["lr"] for g in opt.param_groups]
                rec["model_epoch"], rec["opt_epoch"] = G.epoch_of_model(model), G.epoch_of_opt(opt)
    with open(os.path.join(root, "hist.csv"), "rb") as f:
        csv_bytes = f.read()
    # what a fresh controller reads back
    fresh = _new_controller(mon, T, case, root)
    loaded = {e: dict(fresh.get_info(e, {})) for e in range(1, n + 1)}
    return recs, csv_bytes, loaded, fresh.get_last_epoch()


def execute(case, mon):
    import pydrobert.torch.training as T

    cfg, n = case["cfg"], case["n"]
    lr0 = G.lr0_of(cfg)
    steps = ref.run(cfg, lr0, case["val"])
    mon.check(len(steps) == n, "case-consistent", n=n, ref=len(steps))
    exact = case["lr_class"] == "exact"
    rel = 1e-9 if exact else 2e-4
    mon.cls("lr_exact" if exact else "lr_general")
    if case["groups"] == 2:
        mon.cls("two_groups")
    if case.get("best_is_train"):
        mon.cls("best_is_train")
    decisions = 0
    prev_fail = False
    for s, v in zip(steps, case["val"]):
        if s["early"]:
            mon.cls("early_stop")
        if s["budget"]:
            mon.cls("budget_stop")
        if s["reduced"]:
            mon.cls("lr_reduced")
        if s["fired"] and not s["reduced"]:
            mon.cls("negligible_change")
        decisions += int(s["early"] or s["budget"] or s["fired"])
        decisions += int(s["es_patience_cd"] < cfg["es_patience"] or s["rlr_patience_cd"] < cfg["rlr_patience"])
        if s["rlr_resume_cd"] > 0 and s["epoch"] > cfg["rlr_burnin"]:
            mon.cls("cooldown_skip")
        failing = s["es_patience_cd"] < cfg["es_patience"]
        if prev_fail and not failing and not s["early"]:
            mon.cls("es_fail_then_reset")
        prev_fail = failing
    # improvement exactly equal to a threshold somewhere in the history?
    for a, b in zip(case["val"], case["val"][1:n]):
        if a - b > 0 and (a - b == cfg["es_threshold"] or a - b == cfg["rlr_threshold"]):
            mon.cls("exact_threshold_hit")
    if case["entries"]:
        mon.cls("typed_entries")

    root = G.scratch_dir("vmon-c15-")
    try:
        _INV["n"].clear()
        with warnings.catch_warnings():
            warnings.simplefilter("ignore")
            _judge(case, mon, T, root, steps, rel, exact)
        if decisions == 0 or not any(min(p["after"]) < n for p in case["restarts"]):
            mon.trivial()
    finally:
        for name, k in _INV["n"].items():
            mon.ev("invariant:" + name, k)
        shutil.rmtree(root, ignore_errors=True)


def _judge(case, mon, T, root, steps, rel, exact):
    cfg, n = case["cfg"], case["n"]
    lr0 = G.lr0_of(cfg)
    a_root = os.path.join(root, "A")
    os.makedirs(a_root)
    recs, csv_a, loaded_a, last_a = _drive(mon, T, case, a_root, None)
    # ---- the uninterrupted run against the reference controller
    prev_lr = lr0
    for e, (r, s) in enumerate(zip(recs, steps), 1):
        det = dict(epoch=e, val=case["val"][:e], cfg=cfg)
        mon.check(r["cont"] is True or r["cont"] is False, "decision-type", observed=repr(r["cont"]))
        mon.check(r["cont"] == s["cont"], "decision", observed=r["cont"], expected=s["cont"],
                  early=s["early"], budget=s["budget"], **det)
        mon.check(r["ct"] == s["cont"], "continue-training", observed=r["ct"], expected=s["cont"], **det)
        # the rate recorded for the epoch follows the rule: multiplied iff the criterion fired
        # outside cool-down/burn-in and the change is not negligible; never otherwise
        mon.check(G.same_float(r["info"]["lr"], s["lr"], 1e-12), "lr-rule", observed=r["info"]["lr"],
                  expected=s["lr"], previous=prev_lr, fired=s["fired"], reduced=s["reduced"], **det)
        # ... and is written into every parameter group of the optimizer
        mon.check(all(G.same_float(x, s["lr"], 1e-12) for x in r["lrs"]), "lr-in-optimizer",
                  observed=r["lrs"], expected=s["lr"], fired=s["fired"], reduced=s["reduced"], **det)
        prev_lr = s["lr"]
        cds = ("es_resume_cd", "es_patience_cd", "rlr_resume_cd", "rlr_patience_cd")
        if all(r["info"][k] == s[k] for k in cds):
            mon.stat("countdowns_match_reference")
        else:
            mon.stat("countdowns_differ_from_reference")
        # what was handed in is what is stored and returned, with the declared types
        want = {"epoch": e, "train_met": case["train"][e - 1], "val_met": case["val"][e - 1]}
        want.update(G.user_kwargs(case, e))
        for k, v in want.items():
            got = r["info"].get(k)
            mon.check(got == v and type(got) is type(v), "info-stored", key=k, observed=got, expected=v,
                      observed_type=type(got).__name__, **det)
            got = loaded_a[e].get(k)
            mon.check(got == v and type(got) is type(v), "info-reloaded", key=k, observed=got, expected=v,
                      observed_type=type(got).__name__, **det)
        mon.check(r["last"] == e, "last-epoch", observed=r["last"], expected=e)
    mon.check(last_a == n, "history-length", observed=last_a, expected=n)
    # ---- look-up-only controllers over the same history file that declare the user entries in ANOTHER order, or
    # only some of them (undeclared columns are ignored): every declared entry comes back with its own value and type
    if len(case["entries"]) >= 2:
        for label, ents in (("reversed", list(reversed(case["entries"]))), ("last-only", case["entries"][-1:])):
            look = _new_controller(mon, T, case, a_root, entries=ents)
            mon.stat("history_reloaded_with_other_entry_declaration")
            for e in range(1, n + 1):
                info = look.get_info(e, {})
                for name, typ, fmt, vals in ents:
                    v = vals[e - 1]
                    got = info.get(name)
                    mon.check(got == v and type(got) is type(v), "info-reloaded", key=name, observed=got, expected=v,
                              observed_type=type(got).__name__, declaration=label, epoch=e)
    # ---- an optimizer whose own rate differs from the controller's (never initialised through it): the
    # controller must leave it alone until a reduction happens and must then WRITE the new rate into it
    if cfg["log10_lr"] is not None and abs(lr0 - cfg["opt_lr"]) > 1e-9 * lr0:
        c_root = os.path.join(root, "C")
        os.makedirs(c_root)
        mon.cls("optimizer_rate_differs_from_controller")
        rc, _csv_c, _loaded_c, _last_c = _drive(mon, T, case, c_root, None, sync=False)
        reduced_yet = False
        for e, (r, st) in enumerate(zip(rc, steps), 1):
            reduced_yet = reduced_yet or st["reduced"]
            want = st["lr"] if reduced_yet else cfg["opt_lr"]
            det = dict(epoch=e, val=case["val"][:e], cfg=cfg, reduced_so_far=reduced_yet)
            mon.check(r["cont"] == st["cont"], "decision", observed=r["cont"], expected=st["cont"], unsynced=True, **det)
            mon.check(G.same_float(r["info"]["lr"], st["lr"], 1e-12), "lr-rule", observed=r["info"]["lr"],
                      expected=st["lr"], unsynced=True, **det)
            mon.check(all(G.same_float(x, want, 1e-12) for x in r["lrs"]), "lr-written-into-optimizer",
                      observed=r["lrs"], expected=want, **det)
        shutil.rmtree(c_root, ignore_errors=True)
    # ---- a controller WITHOUT a history file (state_csv_path=None; history lives in memory only), on which the public
    # update_cache() is called in the middle of the run: decisions, rates and the info it returns are those of the
    # run with a file
    if (n + case["groups"] + len(case["entries"])) % 3 != 1:
        mon.cls("in_memory_controller")
        params = G.make_params(T, cfg, keep2=False)
        mem = _guard(mon, "TrainingStateController(no file)", lambda: T.TrainingStateController(params, None, None))
        for name, typ, fmt, vals in case["entries"]:
            _guard(mon, "add_entry", lambda: mem.add_entry(name, G.TYPES[typ], fmt))
        model, opt = G.make_model_opt(cfg, case["groups"])
        _guard(mon, "load_model_and_optimizer_for_epoch", lambda: mem.load_model_and_optimizer_for_epoch(model, opt))
        for e in range(1, n + 1):
            G.train_to(model, opt, e)
            kw = G.user_kwargs(case, e)
            cont = _guard(mon, "update_for_epoch", lambda: mem.update_for_epoch(
                model, opt, case["train"][e - 1], case["val"][e - 1],
                best_is_train=bool(case.get("best_is_train", False)), **kw))
            ra = recs[e - 1]
            det = dict(epoch=e, val=case["val"][:e], cfg=cfg, in_memory=True)
            mon.check(cont == ra["cont"] and mem.get_last_epoch() == e, "in-memory-decision",
                      observed=[cont, mem.get_last_epoch()], expected=[ra["cont"], e], **det)
            have = [g["lr"] for g in opt.param_groups]
            mon.check(all(G.same_float(x, y, 1e-12) for x, y in zip(have, ra["lrs"])), "in-memory-lr",
                      observed=have, expected=ra["lrs"], **det)
            got = dict(mem.get_info(e, {}))
            mon.check(got == ra["info"], "in-memory-info", observed=got, expected=ra["info"], **det)
            if (e + n) % 2 == 0:
                _guard(mon, "update_cache", lambda: mem.update_cache())
                mon.stat("update_cache_in_mid_run")
                mon.check(mem.get_last_epoch() == e, "in-memory-decision", what="history forgotten by update_cache()",
                          observed=mem.get_last_epoch(), expected=e, **det)
    # ---- restart equivalence
    for j, plan in enumerate(case["restarts"]):
        b_root = os.path.join(root, "B%d" % j)
        os.makedirs(b_root)
        mon.cls("restart_" + plan["mode"])
        if len(case["restarts"]) > 4:
            mon.cls("all_subsets")
        rb, csv_b, loaded_b, last_b = _drive(mon, T, case, b_root, plan)
        for e, (ra, r) in enumerate(zip(recs, rb), 1):
            det = dict(epoch=e, plan=plan, val=case["val"][:e], cfg=cfg)
            mon.check(r["cont"] == ra["cont"] and r["ct"] == ra["ct"], "restart-decision",
                      observed=[r["cont"], r["ct"]], expected=[ra["cont"], ra["ct"]], **det)
            for x, y in zip(r["lrs"] + [r["info"]["lr"]], ra["lrs"] + [ra["info"]["lr"]]):
                mon.dev("restart-lr-relative(%s)" % case["lr_class"], abs(x - y) / abs(y), rel)
            mon.check(all(G.same_float(x, y, rel) for x, y in zip(r["lrs"], ra["lrs"]))
                      and G.same_float(r["info"]["lr"], ra["info"]["lr"], rel), "restart-lr",
                      observed=r["lrs"] + [r["info"]["lr"]], expected=ra["lrs"] + [ra["info"]["lr"]], **det)
            for k in ra["info"]:
                if k == "lr":
                    continue
                mon.check(r["info"].get(k) == ra["info"][k], "restart-info", key=k,
                          observed=r["info"].get(k), expected=ra["info"][k], **det)
            if "ct_rebuilt" in r:
                # the rebuilt controller takes the same stop/continue decision from the files alone
                mon.check(r["ct_rebuilt"] == ra["cont"] and r["last_rebuilt"] == e, "restart-continue",
                          observed=[r["ct_rebuilt"], r["last_rebuilt"]], expected=[ra["cont"], e], **det)
            if "lrs_rebuilt" in r:
                mon.check(all(G.same_float(x, y, rel) for x, y in zip(r["lrs_rebuilt"], ra["lrs"]))
                          and r["lrs_rebuilt"] == r["lrs"],
                          "restart-lr-loaded", observed=r["lrs_rebuilt"], expected=ra["lrs"], **det)
                mon.check(r["model_epoch"] == e and r["opt_epoch"] == e, "restart-state-loaded",
                          observed=[r["model_epoch"], r["opt_epoch"]], expected=e, **det)
        mon.check(last_b == n, "restart-history", observed=last_b, expected=n, plan=plan)
        if exact:
            mon.check(csv_b == csv_a, "restart-csv", observed=csv_b.decode("utf8", "replace"),
                      expected=csv_a.decode("utf8", "replace"), plan=plan, cfg=cfg)
            mon.check(loaded_b == loaded_a, "restart-history", observed=loaded_b, expected=loaded_a, plan=plan)
        else:
            for e in range(1, n + 1):
                for k, v in loaded_a[e].items():
                    w = loaded_b[e].get(k)
                    ok = G.same_float(w, v, 2e-4) if k == "lr" else (w == v)
                    mon.check(ok, "restart-history", key=k, epoch=e, observed=w, expected=v, plan=plan)
        shutil.rmtree(b_root, ignore_errors=True)
