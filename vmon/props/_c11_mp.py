"""Worker-side observation of the fork pool of ``read_trn`` (DESIGN 2.1, mechanism F).

``read_trn_iter(processes=k)`` creates ``torch.multiprocessing.Pool(k)`` (fork) and maps the module
global ``_parsing._trn_line_to_transcript`` over the lines.  The wrapper below replaces that module
global *in the parent, before the fork*; it keeps ``__module__``/``__qualname__`` of the original, so
the pool pickles it by reference and every forked child resolves the very same wrapper, together
with the STATE that was current at fork time (log fd, line index, per-line delays).

In a child every work item is delayed by the prescribed amount and logged with one ``O_APPEND``
write: ``pid index t_start t_end`` (``time.monotonic`` is system wide on Linux, so the stamps of
different workers are comparable).  The parent reads the log after the call: completion order,
items per worker, lost/duplicated items.

Nothing here ever kills a process.  The parent call runs under an interval timer so that a pool that
can never finish (a dead child) surfaces as :class:`PoolHang` instead of blocking the shard.
"""
import functools
import os
import signal
import time

STATE = {"active": False, "fd": -1, "index": {}, "delays": {}, "parent": None, "serial_calls": 0}


class PoolHang(BaseException):
    """BaseException: must pass through ``mon.lib`` (which turns Exceptions into violations)."""

    deaths = {}


def install():
    import pydrobert.torch._parsing as P

    cur = P._trn_line_to_transcript
    if getattr(cur, "_vmon_wrapped", False):
        return cur
    orig = cur

    @functools.wraps(orig)
    def _trn_line_to_transcript(x):
        st = STATE
        if not st["active"] or os.getpid() == st["parent"]:
            st["serial_calls"] += 1
            return orig(x)
        idx = st["index"].get(x[0], -1)
        t0 = time.monotonic()
        d = st["delays"].get(idx, 0.0)
        if d > 0:
            time.sleep(d)
        try:
            return orig(x)
        finally:
            t1 = time.monotonic()
            try:
                os.write(st["fd"], ("%d %d %.9f %.9f\n" % (os.getpid(), idx, t0, t1)).encode())
            except OSError:
                pass

    _trn_line_to_transcript._vmon_wrapped = True
    _trn_line_to_transcript._vmon_orig = orig
    P._trn_line_to_transcript = _trn_line_to_transcript
    return _trn_line_to_transcript


def uninstall():
    import pydrobert.torch._parsing as P

    cur = P._trn_line_to_transcript
    if getattr(cur, "_vmon_wrapped", False):
        P._trn_line_to_transcript = cur._vmon_orig


def is_bound():
    import pydrobert.torch._parsing as P

    return getattr(P._trn_line_to_transcript, "_vmon_wrapped", False)


def observed_call(fn, lines, delays_ms, logpath, timeout=90.0):
    """Run ``fn()`` (a multi-process read) with logging/delays active in the forked workers.

    lines: the file's lines exactly as the reader's file iteration yields them.
    Returns (result, log) with log = list of (pid, index, t_start, t_end).

    Raises PoolHang when the call did not come back within `timeout` (a pool never finishes if one of its
    workers is killed, e.g. by the OOM killer).  Once the timer has fired *every* exception out of the call
    is reported as PoolHang: interrupting ``Condition.wait`` can leave the pool's locks in a state in which
    the unwinding itself raises (``RuntimeError: release unlocked lock``).  ``PoolHang.deaths`` lists the
    workers (pid -> exit code, negative = signal) that the pool's own maintenance thread had found dead
    before the timer fired; nothing is reaped or killed here."""
    st = STATE
    if os.path.exists(logpath):
        os.remove(logpath)
    fd = os.open(logpath, os.O_WRONLY | os.O_CREAT | os.O_APPEND, 0o600)
    index = {}
    for j, ln in enumerate(lines):
        index.setdefault(ln, j)  # identical (blank) lines share the index of their first occurrence
    st.update(active=True, fd=fd, parent=os.getpid(), index=index,
              delays={j: d / 1000.0 for j, d in enumerate(delays_ms) if d})
    fired = []
    deaths = {}
    me = os.getpid()

    def on_alarm(signum, frame):
        if os.getpid() != me:
            return
        fired.append(time.monotonic())
        raise PoolHang("multi-process read did not finish within %.0fs" % timeout)

    # diagnosis only: see the exit codes of workers the pool's own maintenance thread collects
    import multiprocessing.pool as mpp

    join_attr = mpp.Pool.__dict__.get("_join_exited_workers")
    join_fn = getattr(join_attr, "__func__", None)

    def spy(pool):
        try:
            for w in pool:
                ec = w.exitcode
                if ec is not None and ec != 0:
                    deaths.setdefault(w.pid, (ec, time.monotonic()))
        except Exception:
            pass
        return join_fn(pool)

    if join_fn is not None:
        mpp.Pool._join_exited_workers = staticmethod(spy)
    old = signal.signal(signal.SIGALRM, on_alarm)
    signal.setitimer(signal.ITIMER_REAL, timeout)
    t_begin = time.monotonic()
    try:
        try:
            result = fn()
        except BaseException as e:
            if fired:
                h = e if isinstance(e, PoolHang) else PoolHang("%s (then %s: %s)" % (
                    "multi-process read did not finish within %.0fs" % timeout, type(e).__name__, e))
                # workers that were gone before the timer fired (later ones are the pool's own terminate())
                h.deaths = {p: ec for p, (ec, t) in deaths.items() if t < fired[0]}
                raise h from None
            raise
    finally:
        signal.setitimer(signal.ITIMER_REAL, 0)
        signal.signal(signal.SIGALRM, old)
        if join_fn is not None:
            mpp.Pool._join_exited_workers = join_attr
        st.update(active=False, fd=-1, index={}, delays={})
        os.close(fd)
    log = []
    with open(logpath) as f:
        for ln in f:
            a = ln.split()
            if len(a) == 4:
                log.append((int(a[0]), int(a[1]), float(a[2]), float(a[3])))
    STATE["last_call_s"] = time.monotonic() - t_begin
    return result, log
