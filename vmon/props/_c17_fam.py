"""C17 scenarios: for every command family a `produce` generator (drives the real commands, returns a
path-independent description of everything they printed and wrote) and a `judge` (oracles over it).

Oracles are harness-side: own writers/parsers for trn / ctm / TextGrid, run-length recounts,
Fraction arithmetic, the C02 edit-count oracle (vmon.oracles.lev.table_counts).
"""
import math
import os
from fractions import Fraction

from ..oracles import lev
from . import _c17_gen as G
from ._c17_run import Cmd, load, read, save, sha, snap_dir, tensor_desc, write

EPS = 1e-9


def affix_flags(case):
    out = []
    if case["prefix"] != "":
        out.append("--file-prefix=" + case["prefix"])
    if case["suffix"] != ".pt":
        out.append("--file-suffix=" + case["suffix"])
    return out


def fname(case, utt):
    return case["prefix"] + utt + case["suffix"]


def ok(mon, out, key, name):
    r = out[key]
    mon.check(r["exc"] is None, "raised:" + name, step=key, result=r)
    mon.check(r["rc"] == 0, "exit-status:" + name, step=key, result=r)


def plant(d, names, text="this is not a tensor\n"):
    for n in names:
        write(os.path.join(d, n), text)


def sizing_flags(case):
    return {"none": [], "skip": ["--skip-frame-times"], "feat": ["--feat-sizing"]}[case["sizing"]]


def check_file_set(mon, snap, want, monitor, **kw):
    have = None if snap is None else set(snap)
    mon.check(have == set(want), monitor, observed=sorted(have or []), expected=sorted(want), **kw)


def is_long(desc):
    return isinstance(desc, dict) and desc.get("dtype") == "torch.int64"


def parse_trn(text):
    out = []
    for line in (text or "").split("\n"):
        line = line.strip()
        if not line:
            continue
        o, c = line.rindex("("), line.rindex(")")
        out.append([line[o + 1:c], line[:o].split()])
    return out


# ============================================================================ trn


def produce_trn(case, d):
    out = {}
    trn, t2i, i2t, tok, trn2 = (os.path.join(d, x) for x in ("in.trn", "token2id", "id2token", "tok", "out.trn"))
    write(trn, case["trn_text"])
    write(t2i, G.map_file(case["vocab"], case["swap_to"]))
    write(i2t, G.id_map_file(case["vocab"], case["swap_from"]))
    argv = [trn, t2i, tok] + affix_flags(case) + sizing_flags(case)
    if case["alt_first"]:
        argv += ["--alt-handler", "first"]
    if case["swap_to"]:
        argv.append("--swap")
    if case["unk"] is not None:
        argv.append("--unk-symbol=" + case["unk"])
    r = yield Cmd("trn_to_torch_token_data_dir", argv)
    out["to"] = r.brief()
    out["tok"] = snap_dir(tok)
    if os.path.isdir(tok):
        plant(tok, case["distract"])
    argv = [tok, i2t, trn2] + affix_flags(case) + (["--swap"] if case["swap_from"] else [])
    r = yield Cmd("torch_token_data_dir_to_trn", argv)
    out["from"] = r.brief()
    out["trn"] = read(trn2)
    return out


def judge_token_dir(case, out, mon, timed):
    """Token files: exactly one per utterance, ids by the vocabulary; `timed` = checker of the times."""
    exp = case["expected"]
    check_file_set(mon, out["tok"], [fname(case, u) for u in exp], "token-file-set")
    for u, seq in exp.items():
        desc = out["tok"][fname(case, u)]
        mon.check(is_long(desc), "token-dtype", utt=u, observed=desc)
        R = len(seq)
        shape = {"none": [R, 3], "skip": [R], "feat": [R, 1]}[case["sizing"]]
        mon.check(desc["shape"] == shape, "token-shape", utt=u, observed=desc["shape"], expected=shape)
        rows = desc["data"]
        ids = [case["vocab"][t if isinstance(t, str) else t[0]] for t in seq]
        if case["sizing"] == "skip":
            got = rows
        else:
            got = [r[0] for r in rows]
        mon.check(got == ids, "token-ids", utt=u, observed=got, expected=ids)
        if case["sizing"] == "none":
            timed(u, seq, rows)


def judge_trn_text(case, out, mon, key="trn"):
    exp = case["expected"]
    got = parse_trn(out[key])
    mon.check(len(got) == len(exp), "trn-utterance-count", observed=got, expected=exp)
    gd = {u: s for u, s in got}
    want = {u: [t if isinstance(t, str) else t[0] for t in s] for u, s in exp.items()}
    mon.check(gd == want, "trn-roundtrip", observed=gd, expected=want)


def judge_trn(case, out, mon):
    ok(mon, out, "to", "trn_to_torch_token_data_dir")

    def timed(u, seq, rows):
        mon.check(all(r[1] == -1 and r[2] == -1 for r in rows), "trn-no-times", utt=u, observed=rows)

    judge_token_dir(case, out, mon, timed)
    ok(mon, out, "from", "torch_token_data_dir_to_trn")
    judge_trn_text(case, out, mon)
    if not any(len(s) for s in case["expected"].values()):
        mon.trivial()


# ============================================================================ ctm


def shift_of(case):
    return 10.0 if case["shift"] is None else case["shift"]


def shift_flags(case):
    return [] if case["shift"] is None else ["--frame-shift-ms", repr(case["shift"])]


def frames_ok(mon, case, u, seq, rows, extra_tol=0.0):
    """Stored frame boundaries are within one frame shift of the written times."""
    D = shift_of(case)
    for (tok, s, e), r in zip(seq, rows):
        for name, t, f in (("start", s, r[1]), ("end", e, r[2])):
            dev = abs(f * D - 1000.0 * t)
            mon.dev("frame-time", dev / D, 1.0)
            mon.check(dev <= D * (1 + 1e-7) + extra_tol, "frame-time", utt=u, which=name, seconds=t, frame=f, shift=D)
        mon.check(0 <= r[1] <= r[2], "frame-order", utt=u, observed=r)


def match_segments(want, got, tol):
    """Is there a bijection between the two lists of (key, start, end) with equal keys and both times
    within tol?  (Kuhn's augmenting paths; lists have <= ~10 elements.)"""
    if len(want) != len(got):
        return False
    adj = [[j for j, g in enumerate(got) if g[0] == w[0] and abs(g[1] - w[1]) <= tol and abs(g[2] - w[2]) <= tol]
           for w in want]
    match = {}

    def aug(i, seen):
        for j in adj[i]:
            if j in seen:
                continue
            seen.add(j)
            if j not in match or aug(match[j], seen):
                match[j] = i
                return True
        return False

    return all(aug(i, set()) for i in range(len(want)))


def map_text(entries, mode):
    if mode == "wc2utt":
        return "".join("%s %s %s\n" % (w, c, u) for w, c, u in entries)
    return "".join("%s %s %s\n" % (u, w, c) for w, c, u in entries)


def produce_ctm(case, d):
    out = {}
    ctm, t2i, i2t, tok, ctm2, trn2 = (os.path.join(d, x) for x in ("in.ctm", "token2id", "id2token", "tok", "out.ctm", "out.trn"))
    write(ctm, case["ctm_text"])
    write(t2i, G.map_file(case["vocab"], case["swap_to"]))
    write(i2t, G.id_map_file(case["vocab"], case["swap_from"]))
    argv = [ctm, t2i, tok] + affix_flags(case) + sizing_flags(case) + shift_flags(case)
    if case["swap_to"]:
        argv.append("--swap")
    if case["unk"] is not None:
        argv.append("--unk-symbol=" + case["unk"])
    if case["mapmode"] != "none":
        m = os.path.join(d, "map_in")
        write(m, map_text(case["map_entries"], case["mapmode"]))
        argv += ["--" + case["mapmode"], m]
    r = yield Cmd("ctm_to_torch_token_data_dir", argv)
    out["to"] = r.brief()
    out["tok"] = snap_dir(tok)
    if os.path.isdir(tok):
        plant(tok, case["distract"])
    sw = ["--swap"] if case["swap_from"] else []
    if case["sizing"] == "none":
        argv = [tok, i2t, ctm2] + affix_flags(case) + sw + shift_flags(case)
        if case["mapmode_back"] != "none":
            m = os.path.join(d, "map_out")
            write(m, map_text(case["map_entries"], case["mapmode_back"]))
            argv += ["--" + case["mapmode_back"], m]
        elif case["channel"] != "A":
            argv += ["--channel", case["channel"]]
        r = yield Cmd("torch_token_data_dir_to_ctm", argv)
        out["from"] = r.brief()
        out["ctm"] = read(ctm2)
    else:
        r = yield Cmd("torch_token_data_dir_to_trn", [tok, i2t, trn2] + affix_flags(case) + sw)
        out["from"] = r.brief()
        out["trn"] = read(trn2)
    return out


def judge_ctm(case, out, mon):
    ok(mon, out, "to", "ctm_to_torch_token_data_dir")
    exp = case["expected"]
    # the transcript of an utterance is ordered by start time (stable)
    ordered = {u: sorted(s, key=lambda x: x[1]) for u, s in exp.items()}
    D = shift_of(case)

    def timed(u, seq, rows):
        # which stored row belongs to which written token is only determined up to ties in the start time
        want = [(case["vocab"][t], s, e) for t, s, e in seq]
        got = [(r[0], r[1] * D / 1000.0, r[2] * D / 1000.0) for r in rows]
        mon.check(match_segments(want, got, D / 1000.0 * (1 + 1e-7) + EPS), "frame-time", utt=u, observed=rows, expected=seq, shift=D)
        mon.check(all(0 <= r[1] <= r[2] for r in rows), "frame-order", utt=u, observed=rows)
        mon.check(all(a[1] <= b[1] for a, b in zip(rows, rows[1:])), "ctm-token-order", utt=u, observed=rows)

    # ids must be compared as multisets per start-time tie group: use the stable order
    case_view = dict(case, expected=ordered)
    tie = any(a[1] == b[1] for s in ordered.values() for a, b in zip(s, s[1:]))
    if tie:
        mon.cls("ctm_start_tie")
    judge_token_dir(case_view, out, mon, timed)
    if case["sizing"] != "none":
        ok(mon, out, "from", "torch_token_data_dir_to_trn")
        judge_trn_text(case_view, out, mon)
        return
    ok(mon, out, "from", "torch_token_data_dir_to_ctm")
    got = {}
    for ln in (out["ctm"] or "").split("\n"):
        if not ln.strip():
            continue
        p = ln.split()
        mon.check(len(p) == 5, "ctm-line", line=ln)
        got.setdefault((p[0], p[1]), []).append((p[4], float(p[2]), float(p[2]) + float(p[3])))
        mon.check(float(p[3]) >= 0, "ctm-duration", line=ln)
    want = {}
    for u, seq in exp.items():
        want[tuple(case["wc"][u])] = [(t, s, e) for t, s, e in seq]
    mon.check(set(got) == set(want), "ctm-recordings", observed=sorted(got), expected=sorted(want))
    tol = D / 1000.0 * (1 + 1e-7) + EPS
    for k in want:
        mon.check(match_segments(want[k], got[k], tol), "ctm-roundtrip", recording=list(k), observed=got[k], expected=want[k], tol=tol)
        mon.check(all(a[1] <= b[1] + EPS for a, b in zip(got[k], got[k][1:])), "ctm-sorted", recording=list(k), observed=got[k])


# ============================================================================ TextGrid


def parse_tg_short(text):
    """The one-tier short text format the library writes."""
    L = (text or "").split("\n")
    if len(L) < 11 or L[0] != 'File type = "ooTextFile"' or L[1] != 'Object class = "TextGrid"':
        return None
    try:
        tg = {"xmin": float(L[2]), "xmax": float(L[3]), "ntiers": int(L[5]), "class": L[6].strip('"'),
              "name": L[7].strip('"'), "tmin": float(L[8]), "tmax": float(L[9]), "n": int(L[10]), "segs": []}
        k = 11
        for _ in range(tg["n"]):
            if tg["class"] == "TextTier":
                tg["segs"].append((L[k + 1][1:-1], float(L[k]), float(L[k])))
                k += 2
            else:
                tg["segs"].append((L[k + 2][1:-1], float(L[k]), float(L[k + 1])))
                k += 3
        tg["rest"] = [x for x in L[k:] if x.strip()]
        return tg
    except Exception:
        return None


def produce_tg(case, d):
    out = {}
    tgd, t2i, i2t, tok, tg2, trn2, fd = (os.path.join(d, x) for x in ("tg", "token2id", "id2token", "tok", "tg_out", "out.trn", "feat"))
    os.makedirs(tgd)
    for u, text in case["files"].items():
        write(os.path.join(tgd, case["prefix"] + u + case["tg_suffix"]), text)
    plant(tgd, case["distract"], "not a TextGrid\n")
    write(t2i, G.map_file(case["vocab"], case["swap_to"]))
    write(i2t, G.id_map_file(case["vocab"], case["swap_from"]))
    argv = [tgd, t2i, tok] + affix_flags(case) + sizing_flags(case) + shift_flags(case)
    if case["tg_suffix"] != ".TextGrid":
        argv.append("--textgrid-suffix=" + case["tg_suffix"])
    if case["swap_to"]:
        argv.append("--swap")
    if case["unk"] is not None:
        argv.append("--unk-symbol=" + case["unk"])
    if case["fill"] is not None:
        argv.append("--fill-symbol=" + case["fill"])
    if case["tier_sel"] is not None:
        argv += ["--tier-name" if case["tier_sel"][0] == "name" else "--tier-idx", str(case["tier_sel"][1])]
    r = yield Cmd("textgrids_to_torch_token_data_dir", argv)
    out["to"] = r.brief()
    out["tok"] = snap_dir(tok)
    sw = ["--swap"] if case["swap_from"] else []
    if case["sizing"] != "none":
        r = yield Cmd("torch_token_data_dir_to_trn", [tok, i2t, trn2] + affix_flags(case) + sw)
        out["from"] = r.brief()
        out["trn"] = read(trn2)
        return out
    argv = [tok, i2t, tg2] + affix_flags(case) + sw + shift_flags(case)
    if case["tg_suffix"] != ".TextGrid":
        argv.append("--textgrid-suffix=" + case["tg_suffix"])
    if case["out_tier_name"]:
        argv += ["--tier-name", case["out_tier_name"]]
    if case["feat_dir"] and out["tok"]:
        import torch

        os.makedirs(fd)
        for u in case["expected"]:
            desc = out["tok"].get(fname(case, u))
            T = 1
            if desc and desc.get("data") and isinstance(desc["data"][0], list):
                T = max(max(r[1], r[2]) for r in desc["data"]) + case["extra_frames"]
            save(os.path.join(fd, fname(case, u)), torch.zeros(max(T, 1), 2))
        argv += ["--feat-dir", fd]
    else:
        argv.append("--infer")
    if os.path.isdir(tok):
        # the distractor names were chosen against the TextGrid suffix: keep those that do not match here either
        plant(tok, [n for n in case["distract"] if not (n.startswith(case["prefix"]) and n.endswith(case["suffix"]))])
    r = yield Cmd("torch_token_data_dir_to_textgrids", argv)
    out["from"] = r.brief()
    out["tg"] = None
    if os.path.isdir(tg2):
        out["tg"] = {n: read(os.path.join(tg2, n)) for n in sorted(os.listdir(tg2))}
    return out


def judge_tg(case, out, mon):
    ok(mon, out, "to", "textgrids_to_torch_token_data_dir")
    exp = case["expected"]

    def timed(u, seq, rows):
        frames_ok(mon, case, u, seq, rows)
        if case["kinds"][u] == "point":
            mon.check(all(r[1] == r[2] for r in rows), "point-stays-point", utt=u, observed=rows)

    judge_token_dir(case, out, mon, timed)
    if case["sizing"] != "none":
        ok(mon, out, "from", "torch_token_data_dir_to_trn")
        judge_trn_text(case, out, mon)
        return
    ok(mon, out, "from", "torch_token_data_dir_to_textgrids")
    want_files = [case["prefix"] + u + case["tg_suffix"] for u in exp]
    check_file_set(mon, out["tg"], want_files, "textgrid-file-set")
    D = shift_of(case)
    tol = D / 1000.0 * (1 + 1e-7) + 0.5e-3 + EPS  # one frame + the 3-decimal print precision
    for u, seq in exp.items():
        name = case["prefix"] + u + case["tg_suffix"]
        tg = parse_tg_short(out["tg"][name])
        mon.check(tg is not None and tg["ntiers"] == 1 and not tg["rest"], "textgrid-parse", utt=u, text=out["tg"][name])
        want_cls = "TextTier" if case["kinds"][u] == "point" else "IntervalTier"
        mon.check(tg["class"] == want_cls, "textgrid-tier-class", utt=u, observed=tg["class"], expected=want_cls)
        mon.check(tg["name"] == (case["out_tier_name"] or "transcript"), "textgrid-tier-name", utt=u, observed=tg["name"])
        got_tok = [s[0] for s in tg["segs"]]
        mon.check(got_tok == [s[0] for s in seq], "textgrid-roundtrip-tokens", utt=u, observed=got_tok, expected=[s[0] for s in seq])
        for (t, s, e), (t2, s2, e2) in zip(seq, tg["segs"]):
            mon.dev("textgrid-time", max(abs(s - s2), abs(e - e2)) / tol, 1.0)
            mon.check(abs(s - s2) <= tol and abs(e - e2) <= tol, "textgrid-roundtrip-times", utt=u, observed=[s2, e2], expected=[s, e], tol=tol)
        mon.check(tg["xmax"] + 0.5e-3 + EPS >= max(s[2] for s in tg["segs"]), "textgrid-xmax", utt=u, observed=tg["xmax"])


# ============================================================================ ali <-> tokens


def runs(seq):
    out = []
    for t, x in enumerate(seq):
        if out and out[-1][0] == x:
            out[-1][2] = t + 1
        else:
            out.append([x, t, t + 1])
    return out


def produce_ali(case, d):
    import torch

    out = {}
    ali, ref, ali2, fd = (os.path.join(d, x) for x in ("ali", "ref", "ali2", "feat"))
    os.makedirs(ali)
    for u, seq in case["alis"].items():
        save(os.path.join(ali, fname(case, u)), torch.tensor(seq, dtype=torch.long))
    for k, n in enumerate(case["distract"]):
        # alternately a well-formed alignment under a non-matching name and a non-tensor file
        if k % 2 == 0:
            save(os.path.join(ali, n), torch.tensor([5, 5, 6], dtype=torch.long))
        else:
            write(os.path.join(ali, n), "not a tensor\n")
    r = yield Cmd("torch_ali_data_dir_to_torch_token_data_dir", [ali, ref] + affix_flags(case))
    out["to"] = r.brief()
    out["ref"] = snap_dir(ref)
    argv = [ref, ali2] + affix_flags(case)
    if case["feat_dir"]:
        os.makedirs(fd)
        for u, seq in case["alis"].items():
            save(os.path.join(fd, fname(case, u)), torch.zeros(len(seq), case["F"]))
        argv += ["--feat-dir", fd]
    if os.path.isdir(ref):
        plant(ref, case["distract"])
    r = yield Cmd("torch_token_data_dir_to_torch_ali_data_dir", argv)
    out["from"] = r.brief()
    out["ali2"] = snap_dir(ali2)
    return out


def judge_ali(case, out, mon):
    ok(mon, out, "to", "torch_ali_data_dir_to_torch_token_data_dir")
    want = [fname(case, u) for u in case["alis"]]
    check_file_set(mon, out["ref"], want, "ali-to-token-file-set", prefix=case["prefix"], suffix=case["suffix"])
    for u, seq in case["alis"].items():
        desc = out["ref"][fname(case, u)]
        mon.check(is_long(desc) and desc["data"] == runs(seq), "ali-to-token-segments", utt=u, observed=desc, expected=runs(seq))
    ok(mon, out, "from", "torch_token_data_dir_to_torch_ali_data_dir")
    check_file_set(mon, out["ali2"], want, "token-to-ali-file-set", prefix=case["prefix"], suffix=case["suffix"])
    for u, seq in case["alis"].items():
        desc = out["ali2"][fname(case, u)]
        mon.check(is_long(desc) and desc["data"] == seq, "ali-roundtrip", utt=u, observed=desc, expected=seq)


# ============================================================================ error rates


def er_costs(case):
    c = G.COSTS[case["costs"]]
    if c is None:
        return [1.0, 1.0, 1.0], []
    if c == "nist":
        return [3.0, 3.0, 4.0], ["--nist-costs"]
    return c, ["--costs"] + [repr(x) for x in c]


def produce_er(case, d):
    import torch

    out = {"runs": {}}
    if case["layout"] == "parent":
        rd, hd = os.path.join(d, "ref"), os.path.join(d, "hyp")
        pos = [d]
    else:
        rd, hd = os.path.join(d, "gold"), os.path.join(d, "gen")
        pos = [rd, hd]
    os.makedirs(rd)
    os.makedirs(hd)
    for which, dd, seqs, miss in (("r", rd, case["refs"], case["missing_ref"]), ("h", hd, case["hyps"], case["missing_hyp"])):
        for u, seq in seqs.items():
            if u in miss:
                continue
            t = torch.tensor(seq, dtype=torch.long)
            if case["stored"][u] == "R3":
                # with segment times: the command must strip them
                t = torch.stack([t, torch.arange(len(seq)), torch.arange(len(seq)) + 1], -1) if len(seq) else t.new_zeros((0, 3))
            save(os.path.join(dd, fname(case, u)), t, link=bool(case.get("linked")))
        plant(dd, case["distract"])
    flags = affix_flags(case)
    names = None
    if case["vocab"] is not None:
        names = {i: t for t, i in case["vocab"].items()}
        m = os.path.join(d, "id2token")
        write(m, G.id_map_file(case["vocab"], case["swap"]))
        flags += ["--id2token", m] + (["--swap"] if case["swap"] else [])

    def nm(x):
        return str(x) if names is None else names.get(x, "tok%d" % x)

    if case["replace"]:
        m = os.path.join(d, "replace")
        write(m, "".join("%s %s\n" % (nm(a), nm(b)) for a, b in case["replace"]))
        flags += ["--replace", m]
    if case["ignore"]:
        m = os.path.join(d, "ignore")
        write(m, " ".join(nm(a) for a in case["ignore"]) + "\n")
        flags += ["--ignore", m]
    flags += er_costs(case)[1]
    if case["per_utt"]:
        flags.append("--per-utt")
    if case["distances"]:
        flags.append("--distances")
    if case["warn_missing"] and (case["missing_ref"] or case["missing_hyp"] or case["sub"] == "plain"):
        flags.append("--warn-missing")
    flags.append("--quiet")
    for bs in case["batch_sizes"]:
        argv = list(pos)
        o = None
        if not case["to_stdout"]:
            if case["layout"] == "parent":
                argv.append(hd)  # 'out' is the third positional: the hypothesis directory must be named
                argv[0] = rd
            o = os.path.join(d, "er%d.txt" % bs)
            argv.append(o)
        argv += flags + ["--batch-size", str(bs)]
        r = yield Cmd("compute_torch_token_data_dir_error_rates", argv)
        b = r.brief()
        if o is not None:
            b["text"] = read(o)
        else:
            b["text"] = b["stdout"]
        out["runs"][str(bs)] = b
    return out


def judge_er(case, out, mon):
    runs_ = out["runs"]
    first = runs_[str(case["batch_sizes"][0])]
    missing = set(case["missing_ref"]) | set(case["missing_hyp"])
    if missing and not case["warn_missing"]:
        for bs, r in runs_.items():
            mon.check(r["exc"] == "ValueError", "missing-utterance-must-error", batch_size=bs, result=r)
        mon.cls("er_missing_error")
        mon.trivial()
        return
    (ins, dl, sub), _ = er_costs(case)
    rep = {a: b for a, b in case["replace"]}
    ign = set(case["ignore"])

    def norm(seq):
        return [rep.get(t, t) for t in seq if rep.get(t, t) not in ign]

    utts = sorted(u for u in case["refs"] if u not in missing)
    lo_t = hi_t = 0
    n_ref = 0
    per = {}
    zero_len = False
    for u in utts:
        r, h = norm(case["refs"][u]), norm(case["hyps"][u])
        c = lev.table_counts(r, h, ins, dl, sub)[len(h)][len(r)]
        lo, hi = c[1], c[2]
        lo_t, hi_t, n_ref = lo_t + lo, hi_t + hi, n_ref + len(r)
        per[u] = (lo, hi, len(r))
        zero_len = zero_len or len(r) == 0
    undefined = (case["per_utt"] and not case["distances"] and zero_len) or \
                (not case["per_utt"] and not case["distances"] and n_ref == 0) or \
                (not case["per_utt"] and case["distances"] and not utts)
    if undefined:
        # a figure that divides by a zero reference length is not defined by the property
        mon.ood("zero-reference-length")
        return
    for bs, r in runs_.items():
        mon.check(r["exc"] is None, "raised:compute_torch_token_data_dir_error_rates", batch_size=bs, result=r)
        mon.check(r["rc"] == 0, "exit-status:compute_torch_token_data_dir_error_rates", batch_size=bs, result=r)
        mon.check(r["text"] == first["text"], "batch-size-independence", batch_size=bs, observed=r["text"], expected=first["text"])
    text = first["text"] or ""
    if lo_t != hi_t:
        mon.cls("er_edit_count_range")
    if case["per_utt"]:
        lines = [ln.split() for ln in text.split("\n") if ln.strip()]
        mon.check([ln[0] for ln in lines] == utts or sorted(ln[0] for ln in lines) == utts, "per-utt-ids",
                  observed=[ln[0] for ln in lines], expected=utts)
        for ln in lines:
            lo, hi, n = per[ln[0]]
            den = 1 if case["distances"] else n
            v = float(ln[1])
            mon.check(lo / den - 1e-9 <= v <= hi / den + 1e-9, "per-utt-figure", utt=ln[0], observed=v,
                      expected=[lo / den, hi / den], ref=norm(case["refs"][ln[0]]), hyp=norm(case["hyps"][ln[0]]))
    else:
        vals = text.split()
        mon.check(len(vals) == 1, "single-figure", observed=text)
        v = float(vals[0])
        den = len(utts) if case["distances"] else n_ref
        mon.check(lo_t / den - 1e-9 <= v <= hi_t / den + 1e-9, "total-figure", observed=v, expected=[lo_t / den, hi_t / den],
                  edits=[lo_t, hi_t], denominator=den)
    if not any(per[u][1] for u in utts):
        mon.trivial()


# ============================================================================ subset


def produce_subset(case, d):
    import torch

    out = {}
    src, dest = os.path.join(d, "src"), os.path.join(d, "dest")
    fs, as_, rs = case["subdirs"]
    only = case["only"]
    fdir = src if only else os.path.join(src, fs)
    os.makedirs(fdir)
    for u, x in case["feats"].items():
        save(os.path.join(fdir, fname(case, u)), torch.tensor(x, dtype=torch.float))
    plant(fdir, case["distract"])
    if not only and case["have_ali"]:
        os.makedirs(os.path.join(src, as_))
        for u, x in case["alis"].items():
            save(os.path.join(src, as_, fname(case, u)), torch.tensor(x, dtype=torch.long))
        if case["extra_ali"]:
            save(os.path.join(src, as_, fname(case, "only-in-ali")), torch.tensor([1, 2], dtype=torch.long))
    if not only and case["have_ref"]:
        os.makedirs(os.path.join(src, rs))
        for u, x in case["refs"].items():
            save(os.path.join(src, rs, fname(case, u)), torch.tensor(x, dtype=torch.long).reshape(-1, 3))
    flags = affix_flags(case)
    if only:
        flags.append("--only")
    elif case["subdirs"] != ["feat", "ali", "ref"]:
        flags += ["--feat-subdir", fs, "--ali-subdir", as_, "--ref-subdir", rs]
    if case["style"] != "link":
        flags.append("--" + case["style"])
    mode, arg = case["mode"], case["arg"]
    if mode.startswith("rand") and case["seed"] is not None:
        flags += ["--seed", case["seed"]]
    if mode == "utt_list":
        sel = ["--utt-list"] + list(arg)
    elif mode == "utt_list_file":
        lf = os.path.join(d, "utts.txt")
        write(lf, "".join(u + "\n" for u in arg))
        sel = ["--utt-list-file", lf]
    else:
        sel = ["--" + mode.replace("_", "-"), repr(arg) if isinstance(arg, float) else str(arg)]
    dests = [dest] + ([dest + "2"] if mode.startswith("rand") and case["seed"] is not None else [])
    for k, dd in enumerate(dests):
        r = yield Cmd("subset_torch_spect_data_dir", [src, dd] + flags + sel)
        out["run%d" % k] = r.brief()
        out["dest%d" % k] = snap_links(src, dd, None if only else case["subdirs"])
    if mode.startswith("rand") and case["seed"] is None:
        # legitimately non-deterministic: only the sizes are comparable across runs; keys starting with
        # "_" are judged but not compared between worker configurations
        snap = out["dest0"]
        out["_rand_full"] = snap
        out["dest0"] = {k: (len(v) if isinstance(v, dict) else v) for k, v in (snap or {}).items()}
    return out


def snap_links(src, dest, subdirs):
    """{subdir: {file: [kind, refers to the source file, sha1]}}; '' is the flat (--only) layout."""
    if not os.path.isdir(dest):
        return None
    out = {}
    for sd in ([""] if subdirs is None else subdirs):
        dd = os.path.join(dest, sd)
        if not os.path.isdir(dd):
            out[sd] = None
            continue
        ent = {}
        for n in sorted(os.listdir(dd)):
            p, s = os.path.join(dd, n), os.path.join(src, sd, n)
            if os.path.isdir(p) and not os.path.islink(p):
                ent[n] = ["dir", False, None]
                continue
            if os.path.islink(p):
                kind = "symlink"
                tgt = os.readlink(p)
                same = (not os.path.isabs(tgt)) and os.path.exists(p) and os.path.exists(s) and os.path.samefile(p, s)
            else:
                same_inode = os.path.exists(s) and os.path.samefile(p, s)
                kind = "link" if same_inode else "copy"
                same = same_inode
            ent[n] = [kind, bool(same), sha(p) if os.path.exists(p) else None, sha(s) if os.path.exists(s) else None]
        out[sd] = ent
    if subdirs is not None:
        extra = sorted(set(os.listdir(dest)) - set(subdirs))
        if extra:
            out["<unexpected>"] = extra
    return out


def subset_expected(case):
    """Harness-side selection: ordered list of utterance ids (None = any set of that size)."""
    utts = sorted(case["feats"])
    N = len(utts)
    mode, arg = case["mode"], case["arg"]
    lens = {u: len(case["feats"][u]) for u in utts}
    if mode in ("utt_list", "utt_list_file"):
        return [u for u in arg if u in lens], None
    n = arg if mode.endswith("_n") else int(Fraction(repr(arg)) * N)
    n = min(n, N)
    if mode.startswith("first"):
        return utts[:n], None
    if mode.startswith("last"):
        return sorted(utts, reverse=True)[:n], None
    if mode.startswith("shortest"):
        return sorted(utts, key=lambda u: (lens[u], u))[:n], None
    if mode.startswith("longest"):
        return sorted(utts, key=lambda u: (-lens[u], u))[:n], None
    return None, n


def judge_subset(case, out, mon):
    ok(mon, out, "run0", "subset_torch_spect_data_dir")
    sel, count = subset_expected(case)
    only = case["only"]
    fs, as_, rs = ("", None, None) if only else case["subdirs"]
    snap = out.get("_rand_full", out["dest0"])
    mon.check(snap is not None and "<unexpected>" not in snap, "subset-layout", observed=snap)
    got_feat = snap.get(fs)
    mon.check(got_feat is not None, "subset-layout", observed=snap)
    if sel is None:
        mon.check(len(got_feat) == count, "subset-count", observed=sorted(got_feat), expected=count)
        mon.check(set(got_feat) <= {fname(case, u) for u in case["feats"]}, "subset-members", observed=sorted(got_feat))
        chosen = {u for u in case["feats"] if fname(case, u) in got_feat}
        if "run1" in out:
            ok(mon, out, "run1", "subset_torch_spect_data_dir")
            mon.check(out["dest1"] == out["dest0"], "subset-seed-determinism", observed=out["dest1"], expected=out["dest0"])
    else:
        chosen = set(sel)
        mon.check(set(got_feat) == {fname(case, u) for u in chosen}, "subset-selection", mode=case["mode"], arg=case["arg"],
                  observed=sorted(got_feat), expected=sorted(fname(case, u) for u in chosen))
    want_kind = {"link": "link", "copy": "copy", "symlink": "symlink"}[case["style"]]
    layers = [(fs, set(case["feats"]))]
    if not only:
        layers += [(as_, set(case["alis"]) if case["have_ali"] else None), (rs, set(case["refs"]) if case["have_ref"] else None)]
    for sd, present in layers:
        ent = snap.get(sd)
        if present is None:
            mon.check(ent is None, "subset-no-such-subdir", subdir=sd, observed=ent)
            continue
        mon.check(ent is not None, "subset-layout", subdir=sd, observed=snap)
        want = {fname(case, u) for u in chosen & present}
        mon.check(set(ent) == want, "subset-selection", subdir=sd, observed=sorted(ent), expected=sorted(want))
        for n, (kind, same, h, hs) in ent.items():
            mon.check(h is not None and h == hs, "subset-file-identical", subdir=sd, file=n, observed=[kind, same, h, hs])
            mon.check(kind == want_kind and (same or kind == "copy"), "subset-link-style", subdir=sd, file=n,
                      observed=[kind, same], expected=want_kind)
    if not chosen:
        mon.trivial()


# ============================================================================ statistics


def mvn_tensor(case, u):
    import torch

    x = torch.tensor(case["feats"][u], dtype=torch.float)
    if case["shape3"]:
        x = torch.stack([x, x * 0.5 + 1.0], 1)
    if case["dim"] == 0:
        x = x.transpose(0, -1).contiguous()
    return x


def produce_mvn(case, d):
    out = {}
    fd, o = os.path.join(d, "feats"), os.path.join(d, "stats.pt")
    os.makedirs(fd)
    for u in case["feats"]:
        save(os.path.join(fd, fname(case, u)), mvn_tensor(case, u), link=bool(case.get("linked")))
    plant(fd, case["distract"])
    argv = [fd, o] + affix_flags(case)
    if case["dim"] != -1:
        argv += ["--dim", str(case["dim"])]
    if case["bessel"]:
        argv.append("--bessel")
    if case["groups"] is not None:
        g = os.path.join(d, "id2gid")
        write(g, "".join("%s %s\n" % kv for kv in case["groups"].items()))
        argv += ["--id2gid", g]
    r = yield Cmd("compute_mvn_stats_for_torch_feat_data_dir", argv)
    out["run"] = r.brief()
    out["stats"] = None
    if os.path.exists(o):
        out["stats"] = tensor_desc(load(o))
    return out


def judge_mvn(case, out, mon):
    ok(mon, out, "run", "compute_mvn_stats_for_torch_feat_data_dir")
    groups = case["groups"]
    pools = {}
    for u in case["feats"]:
        x = mvn_tensor(case, u)
        if case["dim"] == 0:
            x = x.transpose(0, -1)
        vecs = x.reshape(-1, x.shape[-1]).double().tolist()
        pools.setdefault(None if groups is None else groups[u], []).extend(vecs)
    stats = out["stats"]
    mon.check(stats is not None, "mvn-output", observed=stats)
    if groups is None:
        stats = {"None": stats}
    mon.check(set(stats) == {str(g) for g in pools}, "mvn-groups", observed=sorted(stats), expected=sorted(map(str, pools)))
    for g, vecs in pools.items():
        st = stats[str(g)]
        mon.check(isinstance(st, dict) and set(st) == {"mean", "std"}, "mvn-keys", observed=st)
        n, F = len(vecs), len(vecs[0])
        for f in range(F):
            col = [v[f] for v in vecs]
            mean = math.fsum(col) / n
            var = math.fsum((c - mean) ** 2 for c in col) / (n - 1 if case["bessel"] else n)
            mon.check(st["mean"]["shape"] == [F] and st["std"]["shape"] == [F], "mvn-shape", observed=st)
            mon.close(float(st["mean"]["data"][f]), mean, 1e-4, "mvn-mean", rel=1e-4, group=g, coeff=f)
            mon.close(float(st["std"]["data"][f]), math.sqrt(var), 1e-4, "mvn-std", rel=1e-4, group=g, coeff=f, bessel=case["bessel"])


def produce_mom(case, d):
    import torch

    out = {}
    dd, o = os.path.join(d, "data"), os.path.join(d, "moments.txt")
    os.makedirs(dd)
    for u, x in case["data"].items():
        if case["which"] == "ali":
            t = torch.tensor(x, dtype=torch.long)
        elif case["flat"] == u:
            t = torch.tensor([r[0] for r in x], dtype=torch.long)
        else:
            t = torch.tensor(x, dtype=torch.long).reshape(-1, 3)
        save(os.path.join(dd, fname(case, u)), t)
    plant(dd, case["distract"])
    argv = [dd] + ([] if case["to_stdout"] else [o]) + affix_flags(case)
    if case["precision"] is not None:
        argv += ["--precision", str(case["precision"])]
    if case["bessel"]:
        argv.append("--bessel")
    if case["std"]:
        argv.append("--std")
    if case["errmode"] == "quiet":
        argv.append("--quiet")
    if case["exclude"]:
        argv += ["--exclude-ids"] + [str(x) for x in case["exclude"]]
    name = "print_torch_%s_data_dir_length_moments" % case["which"]
    r = yield Cmd(name, argv)
    out["run"] = r.brief()
    out["text"] = out["run"]["stdout"] if case["to_stdout"] else read(o)
    return out


def judge_mom(case, out, mon):
    name = "print_torch_%s_data_dir_length_moments" % case["which"]
    ok(mon, out, "run", name)
    ex = set(case["exclude"] or [])
    lens = []
    for u, x in case["data"].items():
        if case["which"] == "ali":
            lens += [e - s for lab, s, e in runs(x) if lab not in ex]
        elif case["flat"] == u:
            continue
        else:
            lens += [e - s for lab, s, e in x if lab not in ex and 0 <= s <= e]
    c = len(lens)
    p = 3 if case["precision"] is None else case["precision"]
    text = (out["text"] or "").strip()
    if c == 0:
        mon.check(text == "n/a (n/a)", "moments-empty", observed=text)
        mon.trivial()
        return
    mean = Fraction(sum(lens), c)
    var = Fraction(sum(v * v for v in lens), c) - mean * mean
    parts = text.replace("(", " ").replace(")", " ").split()
    mon.check(len(parts) == 2, "moments-format", observed=text)
    half = 0.5 * 10 ** (-p)
    mon.close(float(parts[0]), float(mean), half + 1e-9, "moments-mean", rel=1e-12, lens=lens)
    if case["bessel"] and c == 1:
        mon.check(parts[1] == "n/a", "moments-single-bessel", observed=text)
        return
    if case["bessel"]:
        var = var * Fraction(c, c - 1)
    second = math.sqrt(var) if case["std"] else float(var)
    mon.close(float(parts[1]), second, half + 1e-9, "moments-second", rel=1e-12, lens=lens, std=case["std"], bessel=case["bessel"])
    digits = [q.split(".")[1] if "." in q else "" for q in parts]
    mon.check(all(len(q) == p for q in digits), "moments-precision", observed=text, precision=p)


# ============================================================================ chunk (worker independence only)


def produce_chunk(case, d):
    import torch

    out = {}
    src, dest = os.path.join(d, "src"), os.path.join(d, "dest")
    os.makedirs(os.path.join(src, "feat"))
    for u, x in case["feats"].items():
        save(os.path.join(src, "feat", fname(case, u)), torch.tensor(x, dtype=torch.float))
    if case["alis"]:
        os.makedirs(os.path.join(src, "ali"))
        for u, x in case["alis"].items():
            save(os.path.join(src, "ali", fname(case, u)), torch.tensor(x, dtype=torch.long))
    r = yield Cmd("chunk_torch_spect_data_dir", [src, dest, "--policy", "fixed", "--lobe-size", case["lobe"],
                                                "--window-type", case["window"], "--quiet"])
    out["run"] = r.brief()
    out["dest"] = snap_dir(dest)
    return out


def judge_chunk(case, out, mon):
    # the content of the chunks is property C10; here only: it ran and wrote feature chunks
    ok(mon, out, "run", "chunk_torch_spect_data_dir")
    mon.check(out["dest"] is not None and out["dest"].get("feat/") is not None, "chunk-output", observed=out["dest"])


FAMILIES = {
    "trn": (produce_trn, judge_trn), "ctm": (produce_ctm, judge_ctm), "tg": (produce_tg, judge_tg),
    "ali": (produce_ali, judge_ali), "er": (produce_er, judge_er), "subset": (produce_subset, judge_subset),
    "mvn": (produce_mvn, judge_mvn), "mom": (produce_mom, judge_mom), "chunk": (produce_chunk, judge_chunk),
}
