"""C19 - estimators are unbiased where promised; relaxed distributions are consistent.

How "unbiased" is decided by monitoring executions (DESIGN 3/C19): the random outcome is the
schedule and it is driven exhaustively.  A scripted proposal (the real torch distribution with
only `sample` replaced) feeds every tuple of the sample space through the real estimator's
`__call__`; value and autograd gradient of every call are summed with the tuple's probability and
compared with the closed-form expectation and its gradient.  For the relaxation-based estimators
`torch.rand`/`rand_like` are interposed and answer with a fixed equal-weight quadrature grid, so
that the estimator's own `mean(0)` is the quadrature of its expectation.  Metropolis-Hastings is
run with proposal == target on a prescribed chain.  The relaxed distributions, the cardinality
sampler (with hostile `torch.bernoulli`) and the enumerations are judged call by call.
"""
import itertools
import math

from ..oracles import c19_exact as X

ID = "C19"
LEVEL = "exploration"
RULE = (
    "class-directed random configurations, round-robin over: direct / importance-sampling / enumeration "
    "estimators (families Bernoulli batch, Independent Bernoulli, OneHotCategorical (+batched), Categorical, "
    "Binomial; logits or probs; float32/float64; N in 1..3 with |Omega|^N<=64; plain and log space; with a "
    "control variate whose mean is differentiable or detached) driven over EVERY sample tuple; straight-through "
    "and RELAX (REBAR and smooth control variates, variance-minimising branch) on LogisticBernoulli / "
    "GumbelOneHotCategorical with the uniforms replaced by 2^16 Sobol-midpoint quadrature points; "
    "Metropolis-Hastings with proposal==target on prescribed chains (start drawn / handed over, hostile "
    "uniforms); conditional-sample / density-factorisation sweeps of the relaxed distributions incl. extreme "
    "parameters and extreme uniforms; cardinality sampling for all total<=6, given<=total (exhaustive, all "
    "hostile bernoulli modes, padded and batched); enumerations and binomial coefficients vs itertools/math.comb. "
    "A case is distinct by the hash of its concrete inputs; it is non-trivial unless the function table is "
    "constant, the cardinality draw is forced (given in {0,total}) or the enumerated length is 0"
)
ASSUMPTIONS = [
    "oracle: closed-form probabilities and float64 autograd through sum_b P(b) f(b); itertools / math.comb",
    "USE_JIT off, so torch.rand / rand_like / bernoulli looked up by the library can be interposed",
    "an estimator draws its N samples with one proposal.sample([N]) call (checked; otherwise the case is not judged)",
    "quadrature: first 2^m Sobol points shifted by half a cell (every 1-D projection is the midpoint grid); "
    "tolerances 1e-5 (Bernoulli threshold aligned to the grid, straight-through), 5e-5 (aligned, RELAX), 8e-4 "
    "(unaligned Bernoulli), 5e-3 (categorical RELAX) and 1.2e-2 (categorical straight-through) times the scale of "
    "f and the control variate, calibrated at >=3x the largest error seen on the unchanged tree over 2 500 "
    "configurations",
    "log-space estimators are judged after exponentiation (the documented way to recover an unbiased estimate)",
    "the control-variate mean is passed as a differentiable function of the parameters; with a detached mean "
    "only the value is asserted (the documented estimator is then biased in gradient)",
    "self-normalised importance sampling is documented as biased and is not asserted",
]
BUDGET = {
    "quick": dict(cases=270, shards=4, timeout=900),
    "thorough": dict(cases=6000, shards=16, timeout=3000),
}
CLASSES = [
    "direct", "direct_cv", "direct_log", "direct_cv_detached",
    "importance", "importance_log", "enumerate",
    "st_bernoulli", "st_categorical", "relax_bernoulli", "relax_categorical",
    "imh_drawn", "imh_given",
    "dist_logistic_bernoulli", "dist_gumbel_categorical",
    "srswor", "srswor_hostile", "combinatorics",
]
_EV_Q = {
    "DirectEstimator.__call__": 1500, "ImportanceSamplingEstimator.__call__": 800,
    "EnumerateEstimator.__call__": 25, "StraightThroughEstimator.__call__": 50,
    "RelaxEstimator.__call__": 50, "IndependentMetropolisHastingsEstimator.__call__": 50,
    "IndependentMetropolisHastingsEstimator(initial_sample)": 25,
    "IndependentMetropolisHastingsEstimator(drawn start)": 25,
    "LogisticBernoulli.csample": 70, "GumbelOneHotCategorical.csample": 70,
    "assert:mean-value:direct": 120, "assert:mean-gradient:direct": 280,
    "assert:mean-value:importance": 60, "assert:mean-gradient:importance": 190,
    "assert:importance-proposal-gradient-zero": 1000,
    "assert:mean-value:enumerate": 30, "assert:mean-gradient:enumerate": 80,
    "assert:quadrature-mean:straight-through": 70, "assert:quadrature-mean:relax": 60,
    "assert:imh-all-accepted": 50, "assert:imh-plain-average": 60,
    "assert:csample-threshold:logistic-bernoulli": 70, "assert:csample-threshold:gumbel-categorical": 70,
    "assert:density-factorisation:logistic-bernoulli": 90, "assert:density-factorisation:gumbel-categorical": 90,
    "assert:wrong-image-density-zero:logistic-bernoulli": 90, "assert:wrong-image-density-zero:gumbel-categorical": 190,
    "rand-interposed": 360,
}
# cardinality sampling and enumerations: dominated by the exhaustive small scope that runs in both tiers
_EV_X = {
    "SimpleRandomSamplingWithoutReplacement.sample": 100, "simple_random_sampling_without_replacement": 50,
    "SimpleRandomSamplingWithoutReplacement.enumerate_support": 90,
    "binomial_coefficient": 60, "enumerate_binary_sequences_with_cardinality": 30,
    "enumerate_binary_sequences": 8, "enumerate_vocab_sequences": 10,
    "assert:srswor-cardinality": 220, "assert:srswor-support-sums-to-one": 90,
    "assert:binomial-coefficient": 60, "assert:enumeration": 55,
    "bernoulli-interposed": 550,
}
FLOORS = {
    "quick": {
        "events": dict(_EV_Q, **_EV_X),
        "classes": dict({c: 24 for c in CLASSES}, srswor_exhaustive=275, comb_exhaustive=130, hostile_uniforms=40),
        "stats": {"sample-tuples-driven": 2400, "quadrature-points": 6000000, "importance:density-is-proposal-object": 150},
        "sets": {"estimator-configurations": 170, "srswor-total-given": 28},
        "distinct": 500,
    },
    "thorough": {
        "events": dict({k: v * 25 for k, v in _EV_Q.items()}, **{k: v * 4 for k, v in _EV_X.items()}),
        "classes": dict({c: 1200 for c in CLASSES}, srswor_exhaustive=275, comb_exhaustive=140, hostile_uniforms=2000),
        "stats": {"sample-tuples-driven": 100000, "quadrature-points": 250000000, "importance:density-is-proposal-object": 5000},
        "sets": {"estimator-configurations": 400, "srswor-total-given": 28},
        "distinct": 20000,
    },
}
EXHAUSTIVE = {"quick": False, "thorough": False}

M_EXP = 16  # 2^16 quadrature points


# =========================================================================== generation


def _r(rng, lo, hi, nd=3):
    return round(rng.uniform(lo, hi), nd)


def _gen_family(rng, families, allow_extreme):
    fam = rng.choice(families)
    if fam in ("bern_batch", "bern_indep"):
        shape = [rng.randint(1, 3)]
    elif fam in ("onehot", "cat"):
        shape = [rng.randint(2, 4)]
    elif fam == "onehot_batch":
        shape = [2, rng.randint(2, 3)]
    else:  # binom
        shape = [rng.randint(1, 3)]
    kind = rng.choice(["logits", "probs"])
    dtype = rng.choice(["float32", "float32", "float64"])
    extreme = allow_extreme and dtype == "float64" and rng.random() < 0.2
    return fam, shape, kind, dtype, extreme


def _gen_theta(rng, fam, shape, kind, extreme=False):
    def one_logit():
        if extreme and rng.random() < 0.6:
            return rng.choice([-1, 1]) * _r(rng, 6, 12)
        return _r(rng, -2.5, 2.5)

    def one_prob():
        if extreme and rng.random() < 0.6:
            return rng.choice([1e-6, 1e-4, 1 - 1e-4, 1 - 1e-6])
        return _r(rng, 0.03, 0.97)

    if fam in ("bern_batch", "bern_indep"):
        return [one_logit() if kind == "logits" else one_prob() for _ in range(shape[0])]
    if fam == "binom":
        return one_logit() if kind == "logits" else one_prob()
    if fam in ("onehot", "cat"):
        return [one_logit() if kind == "logits" else _r(rng, 0.05, 2.0) for _ in range(shape[0])]
    B, V = shape
    return [[one_logit() if kind == "logits" else _r(rng, 0.05, 2.0) for _ in range(V)] for _ in range(B)]


def _gen_table(rng, fam, shape, lo=-2.0, hi=2.0):
    if fam == "bern_batch":
        return [[_r(rng, lo, hi), _r(rng, lo, hi)] for _ in range(shape[0])]
    if fam == "bern_indep":
        return [_r(rng, lo, hi) for _ in range(2 ** shape[0])]
    if fam in ("onehot", "cat"):
        return [_r(rng, lo, hi) for _ in range(shape[0])]
    if fam == "onehot_batch":
        return [[_r(rng, lo, hi) for _ in range(shape[1])] for _ in range(shape[0])]
    return [_r(rng, lo, hi) for _ in range(shape[0] + 1)]  # binom


def _map_table(t, fn):
    return [_map_table(x, fn) for x in t] if isinstance(t, list) else fn(t)


def _gen_estimator(rng, cls):
    est = {"direct": "direct", "direct_cv": "direct", "direct_log": "direct", "direct_cv_detached": "direct",
           "importance": "importance", "importance_log": "importance", "enumerate": "enumerate"}[cls]
    fams = ["bern_batch", "bern_indep", "onehot", "onehot_batch", "cat", "binom"]
    if est == "enumerate":  # Independent(...) cannot enumerate its support
        fams = ["bern_batch", "onehot", "onehot_batch", "cat", "binom"]
    if est == "enumerate" and rng.random() < 0.15:
        total = rng.randint(1, 5)
        given = rng.randint(0, total)
        out = total + rng.choice([0, 0, 2])
        return {"class": cls, "est": est, "family": "srswor", "total": total, "given": given, "out_size": out,
                "weights": [_r(rng, -2, 2) for _ in range(out)], "quad": _r(rng, -1, 1),
                "is_log": rng.random() < 0.3, "dtype": "float32"}
    fam, shape, kind, dtype, extreme = _gen_family(rng, fams, allow_extreme=(est != "importance"))
    is_log = cls in ("direct_log", "importance_log") or (est == "enumerate" and rng.random() < 0.3)
    case = {"class": cls, "est": est, "family": fam, "shape": shape, "kind": kind, "dtype": dtype,
            "theta": _gen_theta(rng, fam, shape, kind, extreme), "is_log": is_log}
    nom = len(X.omega(fam, shape))
    nmax = max(n for n in (1, 2, 3) if nom ** n <= 64)
    case["N"] = rng.randint(1, nmax) if est != "enumerate" else 0
    case["table"] = _gen_table(rng, fam, shape, -2.0, 1.5) if is_log else _gen_table(rng, fam, shape)
    if not is_log and rng.random() < 0.2:
        # ordinary values of ordinary size (a percentage, an error count), not only fractions of one
        case["table"] = _gen_table(rng, fam, shape, -120.0, 150.0)
        case["big_values"] = True
    if rng.random() < 0.04:
        case["table"] = _map_table(case["table"], lambda v: 0.5)
    cv = "none"
    if cls == "direct_cv" or (cls == "direct_log" and rng.random() < 0.5):
        cv = "grad"
    elif cls == "direct_cv_detached":
        cv = "detached"
    case["cv"] = cv
    if cv != "none":
        if is_log:  # log c = log f + log u with u in (0.1, 0.9): f - c + E[c] stays positive
            case["ctable"] = _map_table(case["table"], lambda v: round(v + math.log(rng.uniform(0.1, 0.9)), 4))
        else:
            case["ctable"] = _gen_table(rng, fam, shape)
    if est == "direct" and fam == "bern_batch" and not is_log and cv != "none" and rng.random() < 0.6:
        # f(b) = b handed back as the very tensor it was given (no copy): whatever the estimator does to f's value
        # afterwards must not reach the sample
        case["func_view"] = True
        case["table"] = _map_rows01(case["table"])
    if est == "importance":
        case["theta_q"] = _gen_theta(rng, fam, shape, kind)
        case["kind_q"] = kind
        case["density"] = rng.choice(["distribution", "wrapper", "same_object"])
        if case["density"] == "same_object":
            # the very same distribution object is proposal and target (plain score-function estimator)
            case["theta_q"] = case["theta"]
    return case


def _aligned_prob(rng, den):
    return rng.randint(1, den - 1) / den


def _gen_relaxed_est(rng, cls):
    relax = cls.startswith("relax")
    case = {"class": cls, "est": "relax" if relax else "st", "m_exp": M_EXP,
            "dtype": rng.choice(["float32", "float32", "float64"]), "is_log": rng.random() < 0.25}
    lo, hi = (-2.0, 1.5) if case["is_log"] else (-2.0, 2.0)
    if not case["is_log"] and rng.random() < 0.2:
        lo, hi = -120.0, 150.0
        case["big_values"] = True
    if cls.endswith("bernoulli"):
        d = rng.randint(1, 2 if relax else 3)
        case.update(family="lb", d=d, kind=rng.choice(["probs", "logits"]))
        aligned = rng.random() < 0.5
        case["aligned"] = aligned
        den = {1: 64, 2: 32, 3: 8}[d]
        p = [_aligned_prob(rng, den) if aligned else _r(rng, 0.03, 0.97, 4) for _ in range(d)]
        if case["kind"] == "probs" and rng.random() < 0.2:
            # a variable that is certain (as a probability; the corresponding logit would not be finite)
            p[rng.randrange(d)] = rng.choice([0.0, 1.0])
        case["p"] = p
        case["tables"] = [[_r(rng, lo, hi) for _ in range(2 ** d)] for _ in range(d)]
    else:
        V = rng.randint(2, 3 if relax else 4)
        batch = 2 if (V == 2 and rng.random() < 0.3) else 0
        case.update(family="goh", V=V, batch=batch, kind=rng.choice(["probs", "logits"]), aligned=False)
        rows = max(batch, 1)
        case["p"] = [[_r(rng, 0.05, 1.0) for _ in range(V)] for _ in range(rows)]
        case["weights"] = [[_r(rng, lo, hi) for _ in range(V)] for _ in range(rows)]
        case["curv"] = _r(rng, -0.5, 0.5)
    if relax:
        case["cv"] = rng.choice(["rebar", "rebar", "smooth"])
        if case["cv"] == "rebar":
            case["temp"] = _r(rng, 0.1, 1.5)
            case["eta"] = _r(rng, -0.5, 1.5) if not case["is_log"] else _r(rng, 0.2, 1.2)
            case["varmin"] = rng.random() < 0.3
        else:
            case["cv_a"] = _r(rng, -1.5, 1.5)
            # (a control variate that still varies where a near-certain variable's relaxed sample lives, |z| ~ 16..36)
            case["cv_s"] = _r(rng, 0.3, 2.0) if rng.random() < 0.7 else rng.choice([0.02, 0.05, 0.1])
            case["cv_t"] = _r(rng, -1.0, 1.0)
            case["varmin"] = False
        if case.get("family") == "lb" and any(x in (0.0, 1.0) for x in case["p"]):
            # directed: a certain variable together with a control variate that still varies far out
            case.update(cv="smooth", cv_a=_r(rng, 0.5, 1.5) * rng.choice([-1, 1]), cv_s=rng.choice([0.02, 0.05, 0.1]),
                        cv_t=_r(rng, -1.0, 1.0), varmin=False)
            for k in ("temp", "eta"):
                case.pop(k, None)
    return case


def _map_rows01(t):
    """same nesting as a bern_batch table, every innermost [f(0), f(1)] pair replaced by [0, 1]"""
    if isinstance(t, list) and len(t) == 2 and not isinstance(t[0], list):
        return [0.0, 1.0]
    return [_map_rows01(x) for x in t]


def _gen_imh(rng, cls):
    fam = rng.choice(["bern_batch", "bern_batch", "bern_indep", "onehot", "cat", "onehot_batch", "srswor"])
    case = {"class": cls, "est": "imh", "family": fam, "dtype": rng.choice(["float32", "float64"]),
            "is_log": rng.random() < 0.3}
    if fam == "srswor":
        total = rng.randint(2, 5)
        case.update(total=total, given=rng.randint(1, total - 1), out_size=total + rng.choice([0, 1]))
        nom = math.comb(total, case["given"])
        case["weights"] = [_r(rng, -2, 2) for _ in range(case["out_size"])]
        case["quad"] = _r(rng, -1, 1)
        case["dtype"] = "float32"
    else:
        _, shape, kind, _, _ = _gen_family(rng, [fam], False)
        case.update(shape=shape, kind=kind, theta=_gen_theta(rng, fam, shape, kind))
        case["table"] = _gen_table(rng, fam, shape, -2.0, 1.5 if case["is_log"] else 2.0)
        nom = len(X.omega(fam, shape))
        if fam == "bern_batch" and not case["is_log"] and rng.random() < 0.75:
            # f(b) = b handed back as the very tensor it was given (a view of the chain state, no copy)
            case["func_view"] = True
            case["table"] = _map_rows01(case["table"])
    mc = rng.randint(1, 7)
    case["mc_samples"] = mc
    case["burn_in"] = rng.randint(0, min(mc - 1, 3))
    case["script"] = [rng.randrange(nom) for _ in range(mc + 3)]
    case["density"] = rng.choice(["same_object", "twin", "wrapper"])
    case["uniforms"] = rng.choice(["natural", "natural", "hostile_high", "hostile_zero"])
    case["seed"] = rng.randrange(10 ** 6)
    if cls == "imh_given":
        case["initial"] = rng.randrange(nom)
        case["initial_leading1"] = rng.random() < 0.5
        if fam != "srswor" and rng.random() < 0.5:
            # a long-lived estimator: the distribution's parameters are updated in place (an optimiser step) between
            # the estimator's construction and its call; proposal and target are one object, so they still coincide
            case["params_updated_in_place"] = True
            case["density"] = "same_object"
            case["uniforms"] = "hostile_high"
    else:
        case["initial"] = None
        case["tries"] = rng.choice([1, 2, 1000])
    return case


def _gen_dist(rng, cls):
    dtype = rng.choice(["float32", "float64"])
    kind = rng.choice(["probs", "logits"])
    hostile = rng.random() < 0.8

    def prob():
        if rng.random() < 0.35:
            return rng.choice([1e-6, 1e-4, 1e-2, 0.99, 1 - 1e-4, 1 - 1e-6])
        return _r(rng, 0.02, 0.98, 4)

    if cls == "dist_logistic_bernoulli":
        shape = rng.choice([[1], [2], [3], [2, 2]])
        n = shape[0] * (shape[1] if len(shape) > 1 else 1)
        ps = [prob() for _ in range(n)]
        vals = ps if kind == "probs" else [round(math.log(p / (1 - p)), 5) for p in ps]
        if len(shape) > 1:
            vals = [vals[:2], vals[2:]]
        return {"class": cls, "family": "lb", "kind": kind, "dtype": dtype, "theta": vals, "K": rng.choice([17, 33, 64]),
                "hostile_uniforms": hostile}
    V = rng.randint(2, 4)
    batch = 2 if rng.random() < 0.3 else 0
    rows = []
    for _ in range(max(batch, 1)):
        w = [prob() for _ in range(V)]
        if kind == "logits":
            w = [round(math.log(x), 5) for x in w]
        rows.append(w)
    return {"class": cls, "family": "goh", "kind": kind, "dtype": dtype, "theta": rows, "V": V, "batch": batch,
            "K": {2: 12, 3: 6, 4: 4}[V], "hostile_uniforms": hostile}


def _gen_srswor(rng, cls, tier):
    tmax = 6 if tier == "quick" else 9
    batched = rng.random() < 0.6
    if batched:
        bshape = rng.choice([[2], [3], [2, 2], [4]])
        n = bshape[0] * (bshape[1] if len(bshape) > 1 else 1)
        if rng.random() < 0.3:  # equal counts: enumerable support
            t = rng.randint(0, tmax)
            g = rng.randint(0, t)
            total, given = [t] * n, [g] * n
        else:
            total = [rng.randint(0, tmax) for _ in range(n)]
            given = [rng.randint(0, t) for t in total]
        if len(bshape) > 1:
            if rng.random() < 0.4:
                # constant along the last batch dimension, different across the first
                total = [total[0], total[0], total[2], total[2]] if rng.random() < 0.5 else [max(total)] * 4
                g0, g1 = rng.randint(0, min(total[:2])), rng.randint(0, min(total[2:]))
                if g0 == g1 and total[0] == total[2]:
                    g1 = (g0 + 1) % (total[0] + 1)
                given = [g0, g0, g1, g1]
            total = [total[:2], total[2:]]
            given = [given[:2], given[2:]]
        tm = max(max(x) if isinstance(x, list) else x for x in total)
    else:
        total = rng.randint(0, tmax)
        given = rng.randint(0, total)
        tm = total
    pad = rng.choice([None, None, 0, 1, 3])
    out_size = None if pad is None else tm + pad
    if tm == 0 and not out_size:
        out_size = rng.choice([1, 2])
    mode = "natural" if cls == "srswor" else rng.choice(["ones", "zeros", "alternate", "half"])
    return {"class": cls, "total": total, "given": given, "out_size": out_size,
            "sample_shape": rng.choice([[], [], [3], [2, 2]]), "seed": rng.randrange(10 ** 6), "bern": mode,
            "form": rng.choice(["dist", "dist", "func"]), "int_args": (not batched) and rng.random() < 0.5}


def _gen_comb(rng, cls, tier):
    sub = rng.choice(["binary", "vocab", "card_int", "card_tensor", "binom_small", "binom_big", "binom_big"])
    big = tier == "thorough"
    c = {"class": cls, "sub": sub}
    if sub == "binary":
        c["length"] = rng.randint(0, 10 if big else 8)
    elif sub == "vocab":
        c["vocab"] = rng.randint(1, 4)
        c["length"] = rng.randint(0, 5 if c["vocab"] <= 3 else 4)
    elif sub == "card_int":
        c["length"] = rng.randint(0, 10 if big else 8)
        c["count"] = rng.randint(0, c["length"])
    elif sub == "card_tensor":
        n = rng.randint(1, 5)
        c["length"] = [rng.randint(0, 7 if big else 6) for _ in range(n)]
        c["count"] = [rng.randint(0, L) for L in c["length"]]
    else:
        n = rng.randint(1, 8)
        hi = 20 if sub == "binom_small" else 66
        c["length"] = [rng.randint(0, hi) for _ in range(n)]
        if sub == "binom_big":
            c["length"][rng.randrange(n)] = rng.randint(21, 66)
        c["count"] = [rng.randint(0, L + (2 if rng.random() < 0.2 else 0)) for L in c["length"]]
        if rng.random() < 0.2:  # broadcasting: one count for all lengths
            c["count"] = [rng.randint(0, 5)]
    return c


def generate(rng, tier, i):
    cls = CLASSES[i % len(CLASSES)]
    if cls in ("direct", "direct_cv", "direct_log", "direct_cv_detached", "importance", "importance_log", "enumerate"):
        return _gen_estimator(rng, cls)
    if cls in ("st_bernoulli", "st_categorical", "relax_bernoulli", "relax_categorical"):
        return _gen_relaxed_est(rng, cls)
    if cls in ("imh_drawn", "imh_given"):
        return _gen_imh(rng, cls)
    if cls in ("dist_logistic_bernoulli", "dist_gumbel_categorical"):
        return _gen_dist(rng, cls)
    if cls in ("srswor", "srswor_hostile"):
        return _gen_srswor(rng, cls, tier)
    return _gen_comb(rng, cls, tier)


def enumerate_cases(tier):
    """All total<=6, given<=total x bernoulli modes x (exact size | padded): every run, both tiers."""
    k = 0
    for total in range(0, 7):
        for given in range(0, total + 1):
            for mode in ("natural", "ones", "zeros", "alternate", "half"):
                for pad in (0, 2):
                    if total == 0 and pad == 0:
                        continue
                    k += 1
                    yield {"class": "srswor_exhaustive", "total": total, "given": given, "out_size": total + pad,
                           "sample_shape": [4] if mode == "natural" else [], "seed": 1000 + k, "bern": mode,
                           "form": "dist" if k % 3 else "func", "int_args": bool(k % 2)}
    # enumerations / binomial coefficients, exhaustive small scope (cheap): every run, both tiers
    for n in range(0, 67):
        yield {"class": "comb_exhaustive", "sub": "binom_big" if n > 20 else "binom_small",
               "length": [n] * (n + 2), "count": list(range(n + 2))}
    for L in range(0, 9 if tier == "thorough" else 8):
        yield {"class": "comb_exhaustive", "sub": "binary", "length": L}
        for cnt in range(0, L + 1):
            yield {"class": "comb_exhaustive", "sub": "card_int", "length": L, "count": cnt}
    for V in range(1, 5):
        for L in range(0, 5 if V <= 3 else 4):
            yield {"class": "comb_exhaustive", "sub": "vocab", "length": L, "vocab": V}


# =========================================================================== execution helpers


def _dt(name):
    import torch

    return torch.float64 if name == "float64" else torch.float32


def _tols(dtype_name):
    return (1e-5, 1e-5) if dtype_name == "float32" else (1e-10, 1e-9)


def _is_const(t):
    flat = []

    def walk(x):
        if isinstance(x, list):
            for y in x:
                walk(y)
        else:
            flat.append(x)

    walk(t)
    return len(set(flat)) <= 1


def _srswor_func(weights, quad, dtype):
    import torch

    w = torch.tensor(weights, dtype=dtype)

    def f(b):
        return (b * w).sum(-1) + quad * b[..., 0] * b[..., -1]

    return f


def _srswor_value(cfg, weights, quad):
    return sum(x * w for x, w in zip(cfg, weights)) + quad * cfg[0] * cfg[-1]


def _srswor_support(total, given, out_size):
    return [list(map(float, w)) + [0.0] * (out_size - total)
            for w in sorted(X.binary_sequences_with_cardinality(total, given))]


# --------------------------------------------------------------------------- exhaustive estimators


def _exec_estimator(case, mon):
    import torch
    import pydrobert.torch.estimators as E
    from . import _c19_scripted as S

    est, fam, is_log = case["est"], case["family"], case["is_log"]
    if fam == "srswor":
        return _exec_enumerate_srswor(case, mon)
    shape, kind, dtype = case["shape"], case["kind"], _dt(case["dtype"])
    atol, rtol = _tols(case["dtype"])
    if not is_log:
        # round-off of sums of products scales with the size of the terms (function and control-variate values),
        # not with the size of the (possibly cancelling) result
        flat = []

        def _walk(x):
            if isinstance(x, list):
                for y in x:
                    _walk(y)
            else:
                flat.append(abs(float(x)))

        _walk(case["table"])
        _walk(case.get("ctable") or [])
        atol *= max([1.0] + flat)
    N = case["N"]
    omegas = X.omega(fam, shape)
    val, jac, P = X.expectation(fam, kind, shape, case["theta"], case["table"], is_log)
    nout = val.numel()
    if _is_const(case["table"]):
        mon.trivial()
    mon.observe("estimator-configurations", "%s/%s/%s/%s/N%d/cv=%s/log=%d" % (
        est, fam, kind, case["dtype"], N, case.get("cv"), is_log))
    if est == "importance":
        theta_q = torch.tensor(case["theta_q"], dtype=torch.float64)
        W = X.joint_probs(fam, case["kind_q"], shape, theta_q)
    else:
        W = P
    name = {"direct": "DirectEstimator", "importance": "ImportanceSamplingEstimator",
            "enumerate": "EnumerateEstimator"}[est]

    def one_call(idxs):
        leaf = torch.tensor(case["theta"], dtype=dtype, requires_grad=True)
        func = S.make_func(fam, shape, case["table"], dtype, is_log)
        if case.get("func_view") and est == "direct":
            func = lambda b: b  # noqa: E731
        leaves = [leaf]
        if est == "enumerate":
            prop = S.build(fam, kind, shape, leaf)
            e = mon.lib(name, E.EnumerateEstimator, prop, func, is_log)
        else:
            batch = S.sample_tensor(fam, omegas, idxs, dtype)
            if est == "direct":
                prop = S.build(fam, kind, shape, leaf, scripted=True)
                cv = cvm = None
                if case["cv"] != "none":
                    cv = S.make_func(fam, shape, case["ctable"], dtype, is_log)
                    cvm = S.cv_mean(fam, kind, shape, leaf, case["ctable"], is_log)
                    if case["cv"] == "detached":
                        cvm = cvm.detach()
                e = mon.lib(name, E.DirectEstimator, prop, func, N, cv, cvm, is_log)
            else:
                if case["density"] == "same_object":
                    prop = dens = S.build(fam, kind, shape, leaf, scripted=True)
                    mon.stat("importance:density-is-proposal-object")
                else:
                    leaf_q = torch.tensor(case["theta_q"], dtype=dtype, requires_grad=True)
                    leaves.append(leaf_q)
                    prop = S.build(fam, case["kind_q"], shape, leaf_q, scripted=True)
                    dens = S.build(fam, kind, shape, leaf)
                    if case["density"] == "wrapper":
                        dens = _DensityWrapper(dens)
                e = mon.lib(name, E.ImportanceSamplingEstimator, prop, func, N, dens, False, is_log)
            prop._vmon["queue"] = [batch]
        r = mon.lib(name + ".__call__", e)
        if est != "enumerate":
            if prop._vmon["calls"] != [(N,)]:
                mon.stat("unexpected-sampling-pattern")
                mon.ood("sampling-pattern")
                return None
        _shape_note(mon, r, prop.batch_shape, nout, name)
        out = (r.exp() if is_log else r).reshape(-1)
        vals = out.detach().double()
        grads = []
        for j in range(nout):
            if not out.requires_grad:  # nothing reaches the parameters: the gradient of this call is zero
                mon.stat("result-without-gradient")
                gs = [None] * len(leaves)
            else:
                gs = torch.autograd.grad(out[j], leaves, retain_graph=True, allow_unused=True)
            grads.append([torch.zeros_like(l).double() if g is None else g.detach().double()
                          for g, l in zip(gs, leaves)])
        return vals, grads

    if est == "enumerate":
        res = one_call(None)
        acc_v, acc_g = res[0], [g[0] for g in res[1]]
    else:
        acc_v = torch.zeros(nout, dtype=torch.float64)
        acc_g = [torch.zeros_like(jac[0]) for _ in range(nout)]
        acc_q = [torch.zeros_like(jac[0]) for _ in range(nout)]
        for idxs in itertools.product(range(len(omegas)), repeat=N):
            w = 1.0
            for i in idxs:
                w = w * float(W[i])
            res = one_call(list(idxs))
            if res is None:
                return
            mon.stat("sample-tuples-driven")
            vals, grads = res
            acc_v += w * vals
            for j in range(nout):
                acc_g[j] += w * grads[j][0]
                if est == "importance" and len(grads[j]) > 1:
                    gq = grads[j][1]
                    mon.check(bool((gq == 0).all()), "importance-proposal-gradient-zero", observed=gq,
                              sample=list(idxs), output=j)
                    acc_q[j] += w * gq
    scale_note = dict(estimator=name, family=fam, N=N)
    for j in range(nout):
        mon.close(acc_v[j], val[j], atol, "mean-value:" + est, rel=rtol, output=j, **scale_note)
    gdetached = est == "direct" and case["cv"] == "detached"
    worst = 0.0
    for j in range(nout):
        got, want = acc_g[j].reshape(-1), jac[j].reshape(-1)
        for k in range(want.numel()):
            if gdetached:
                worst = max(worst, abs(float(got[k]) - float(want[k])))
                continue
            mon.close(got[k], want[k], atol, "mean-gradient:" + est, rel=rtol, output=j, parameter=k,
                      mean_gradient=got, exact_gradient=want, **scale_note)
    if gdetached:
        # documented: unbiased only if mu_c is the (differentiable) expectation of c; observation, not a claim
        mon.stat("detached-cv-mean:gradient-%s" % ("biased" if worst > 1e-4 else "unbiased"))


def _shape_note(mon, r, batch_shape, nout, name):
    """The property speaks about the returned *value*: one number per independent problem is required
    (otherwise nothing can be compared); a shape other than batch_shape (the log-space direct / RELAX
    estimators return (1,)+batch_shape) is only recorded."""
    mon.check(r.numel() == nout, "result-size", observed=list(r.shape), expected_elements=nout, estimator=name)
    if tuple(r.shape) != tuple(batch_shape):
        mon.stat("observation:result-shape-not-batch_shape:" + name)


class _DensityWrapper:
    """A bare density object (only `log_prob`), as the Density interface allows."""

    def __init__(self, dist):
        self._dist = dist

    def log_prob(self, value):
        return self._dist.log_prob(value)


def _exec_enumerate_srswor(case, mon):
    import torch
    import pydrobert.torch.estimators as E
    from . import _c19_scripted as S

    dtype = _dt(case["dtype"])
    total, given, out = case["total"], case["given"], case["out_size"]
    mon.observe("estimator-configurations", "enumerate/srswor/log=%d" % case["is_log"])
    dist = S.build_srswor(given, total, out)
    f = _srswor_func(case["weights"], case["quad"], dtype)
    func = (lambda b: f(b)) if not case["is_log"] else (lambda b: f(b))
    e = mon.lib("EnumerateEstimator", E.EnumerateEstimator, dist, func, case["is_log"])
    r = mon.lib("EnumerateEstimator.__call__", e)
    supp = _srswor_support(total, given, out)
    vals = [_srswor_value(c, case["weights"], case["quad"]) for c in supp]
    if case["is_log"]:
        want = sum(math.exp(v) for v in vals) / len(vals)
        got = float(r.exp())
    else:
        want = sum(vals) / len(vals)
        got = float(r)
    if len(set(vals)) <= 1:
        mon.trivial()
    mon.close(got, want, 1e-5, "mean-value:enumerate", rel=1e-5, family="srswor")


# --------------------------------------------------------------------------- relaxation-based estimators


def _exec_relaxed_est(case, mon):
    import torch
    import pydrobert.torch.distributions as PD
    import pydrobert.torch.estimators as E
    import pydrobert.torch.modules as PM
    from . import _c19_rand as R
    from . import _c19_scripted as S

    relax = case["est"] == "relax"
    dtype = _dt(case["dtype"])
    is_log = case["is_log"]
    M = 2 ** case["m_exp"]
    fam = case["family"]
    if fam == "lb":
        d = case["d"]
        p64 = torch.tensor(case["p"], dtype=torch.float64)
        theta = p64 if case["kind"] == "probs" else (p64 / (1 - p64)).log()
        leaf = theta.to(dtype).requires_grad_(True)
        dist = mon.lib("LogisticBernoulli", PD.LogisticBernoulli, **{case["kind"]: leaf})
        tabs = [torch.tensor(t, dtype=dtype) for t in case["tables"]]

        def func(b):
            return torch.stack([S.multilinear(b, t) for t in tabs], -1)

        tables = case["tables"] if not is_log else [[math.exp(v) for v in t] for t in case["tables"]]
        exact = X.lb_multilinear_expectation(case["p"], tables)
        fscale = max(abs(v) for t in tables for v in t)
        nvar = d
        cvcls = PM.LogisticBernoulliRebarControlVariate
    else:
        V, batch = case["V"], case["batch"]
        rows = case["p"] if batch else case["p"][0]
        p64 = torch.tensor(rows, dtype=torch.float64)
        p64 = p64 / p64.sum(-1, keepdim=True)
        theta = torch.tensor(rows, dtype=torch.float64) if case["kind"] == "probs" else p64.log() + 0.37
        leaf = theta.to(dtype).requires_grad_(True)
        dist = mon.lib("GumbelOneHotCategorical", PD.GumbelOneHotCategorical, **{case["kind"]: leaf})
        wrows = case["weights"] if batch else case["weights"][0]
        w = torch.tensor(wrows, dtype=dtype)
        a = case["curv"]

        def func(b):
            return (b * w).sum(-1) + a * ((b * b).sum(-1) - 1)

        w64 = torch.tensor(wrows, dtype=torch.float64)
        exact = (p64 * (w64.exp() if is_log else w64)).sum(-1).reshape(-1).tolist()
        fscale = float((w64.exp() if is_log else w64).abs().max())
        nvar = V * max(batch, 1)
        cvcls = PM.GumbelOneHotCategoricalRebarControlVariate
    dims = nvar * (2 if relax else 1)
    cvscale = 0.0
    cv = None
    args = []
    if relax:
        if case["cv"] == "rebar":
            cv = mon.lib(cvcls.__name__, cvcls, func, case["temp"], case["eta"])
            cv = cv.to(dtype)
            if is_log:
                # log c = eta * log f(sigma(z/lambda)); c is bounded by max(f, 1)^|eta| on the hull of f's values
                cvscale = max(fscale, 1.0) ** abs(case["eta"]) + 1.0
            else:
                cvscale = abs(case["eta"]) * fscale * (1.0 + (abs(case["curv"]) if fam == "goh" else 0.0))
            if case["varmin"]:
                args = [[leaf], list(cv.parameters())]
        else:
            ca, cs, ct = case["cv_a"], case["cv_s"], case["cv_t"]
            if fam == "lb":
                def cv(z):
                    return ca * torch.tanh(cs * z + ct) + 0.3 * ca * torch.tanh(z.roll(1, -1))
            else:
                def cv(z):
                    return (ca * torch.tanh(cs * z + ct)).sum(-1)
            cvscale = abs(ca) * (1.3 if fam == "lb" else case["V"])
            if is_log:
                cvscale = math.exp(cvscale)
    name = "RelaxEstimator" if relax else "StraightThroughEstimator"
    mon.observe("estimator-configurations", "%s/%s/%s/%s/cv=%s/varmin=%s/log=%d/aligned=%d" % (
        case["est"], fam, case["kind"], case["dtype"], case.get("cv"), case.get("varmin"), is_log, case["aligned"]))
    pts = R.sobol_midpoints(case["m_exp"], dims)
    with R.interpose_rand(R.PointFeeder(pts)) as fd:
        if relax:
            e = mon.lib(name, E.RelaxEstimator, dist, func, M, cv, *args, is_log=is_log)
        else:
            e = mon.lib(name, E.StraightThroughEstimator, dist, func, M, is_log)
        r = mon.lib(name + ".__call__", e)
    sshape = (M,) + tuple(leaf.shape)
    if fd.calls != [sshape] * (2 if relax else 1):
        mon.stat("unexpected-rand-pattern")
        mon.ood("rand-pattern")
        return
    mon.ev("rand-interposed", len(fd.calls))
    mon.stat("quadrature-points", M)
    _shape_note(mon, r, dist.batch_shape, len(exact), name)
    out = (r.exp() if is_log else r).detach().double().reshape(-1)
    # calibrated on the unchanged tree (2 500 configurations): largest error seen <= 0.3 of these
    if fam == "goh":
        coef = 5e-3 if relax else 1.2e-2
    elif not case["aligned"]:
        coef = 8e-4
    else:
        coef = 5e-5 if relax else 1e-5
    tol = coef * max(fscale + cvscale, 0.05)
    if all(_is_const(t) for t in (case.get("tables") or case.get("weights"))):
        mon.trivial()
    mname = "quadrature-mean:" + ("relax" if relax else "straight-through")
    for j in range(out.numel()):
        mon.dev(mname + "(fraction of tolerance)", abs(float(out[j]) - exact[j]) / tol, 1.0)
        mon.close(out[j], exact[j], tol, mname, output=j, estimator=name, family=fam, points=M,
                  scale=fscale + cvscale)


# --------------------------------------------------------------------------- Metropolis-Hastings


def _exec_imh(case, mon):
    import torch
    import pydrobert.torch.estimators as E
    from . import _c19_rand as R
    from . import _c19_scripted as S

    fam, dtype, is_log = case["family"], _dt(case["dtype"]), case["is_log"]
    mc, burn = case["mc_samples"], case["burn_in"]
    rec = []
    if fam == "srswor":
        total, given, out = case["total"], case["given"], case["out_size"]
        supp = _srswor_support(total, given, out)
        prop = S.build_srswor(given, total, out, scripted=True)
        twin = S.build_srswor(given, total, out)
        f0 = _srswor_func(case["weights"], case["quad"], dtype)

        def func(b):
            rec.append(b.detach().clone())
            return f0(b)

        fvals = [[_srswor_value(c, case["weights"], case["quad"])] for c in supp]
        omegas = supp

        def draw(i):
            return torch.tensor([supp[i]], dtype=dtype)
    else:
        shape, kind = case["shape"], case["kind"]
        omegas = X.omega(fam, shape)
        theta = torch.tensor(case["theta"], dtype=dtype)
        prop = S.build(fam, kind, shape, theta, scripted=True)
        twin = S.build(fam, kind, shape, theta.clone())
        func = S.make_func(fam, shape, case["table"], dtype, False, record=rec)
        if case.get("func_view"):
            mon.cls("imh_func_returns_its_argument")

            def func(b):
                rec.append(b.detach().clone())
                return b

        fvals = X.ftable(fam, shape, case["table"])

        def draw(i):
            return S.sample_tensor(fam, omegas, [i], dtype)
    mon.observe("estimator-configurations", "imh/%s/%s/initial=%s/density=%s/u=%s/log=%d" % (
        fam, case["dtype"], case["initial"] is not None, case["density"], case["uniforms"], is_log))
    prop._vmon["queue"] = [draw(i) for i in case["script"]]
    density = {"same_object": prop, "twin": twin, "wrapper": _DensityWrapper(twin)}[case["density"]]
    kwargs = {}
    if case["initial"] is not None:
        init = draw(case["initial"])
        if not case["initial_leading1"]:
            init = init[0]
        kwargs["initial_sample"] = init
        ename = "IndependentMetropolisHastingsEstimator(initial_sample)"
    else:
        kwargs["initial_sample_tries"] = case["tries"]
        ename = "IndependentMetropolisHastingsEstimator(drawn start)"
    e = mon.lib(ename, E.IndependentMetropolisHastingsEstimator, prop, func, mc, density, burn, is_log=is_log,
                **kwargs)
    if case.get("params_updated_in_place"):
        with torch.no_grad():
            for d in (prop, getattr(prop, "base_dist", None)):
                for nm in ("logits", "probs"):
                    t = getattr(d, "__dict__", {}).get(nm)
                    if torch.is_tensor(t):
                        if nm == "logits":
                            t.neg_()
                        else:
                            t.neg_().add_(1)
        mon.cls("imh_params_updated_in_place_before_the_call")
    if case["uniforms"] == "natural":
        torch.manual_seed(case["seed"])
        r = mon.lib("IndependentMetropolisHastingsEstimator.__call__", e)
    else:
        one = 1.0 - (2.0 ** -24)
        fd = R.ConstFeeder(one if case["uniforms"] == "hostile_high" else 0.0)
        with R.interpose_rand(fd):
            r = mon.lib("IndependentMetropolisHastingsEstimator.__call__", e)
        mon.ev("rand-interposed", len(fd.calls))
    given_draws = prop._vmon["given"]
    mon.stat("imh-proposal-draws", len(given_draws))
    if len(given_draws) < mc:
        mon.fail("imh-too-few-proposals", drawn=len(given_draws), mc_samples=mc)
    proposals = given_draws[len(given_draws) - mc:]
    kept = proposals[burn:]
    seen = torch.cat([x.reshape((-1,) + tuple(kept[0].shape[1:])) for x in rec], 0) if rec else None
    want_seen = torch.cat(kept, 0)
    ok = seen is not None and seen.shape == want_seen.shape and bool((seen.to(want_seen.dtype) == want_seen).all())
    mon.check(ok, "imh-all-accepted", handed_to_func=seen, proposals_after_burn_in=want_seen,
              burn_in=burn, mc_samples=mc)
    # plain post-burn-in average of func over the proposals
    idx_of = {repr(o): k for k, o in enumerate(omegas)}
    fm = torch.tensor(fvals, dtype=torch.float64)
    rows = []
    for x in kept:
        key = x[0].tolist()
        rows.append(fm[idx_of[repr(key if fam != "cat" else int(key))]])
    Fk = torch.stack(rows)  # (kept, nout)
    want = (Fk.exp().mean(0).log() if is_log else Fk.mean(0)).reshape(-1)
    got = r.detach().double().reshape(-1)
    _shape_note(mon, r, prop.batch_shape, want.numel(), "IndependentMetropolisHastingsEstimator")
    if len({tuple(row.tolist()) for row in rows}) <= 1 and mc - burn > 1:
        mon.stat("imh-constant-chain")
    for j in range(want.numel()):
        mon.close(got[j], want[j], 1e-5, "imh-plain-average", rel=1e-5, output=j, kept=len(kept))
    if _is_const(case.get("table", case.get("weights"))):
        mon.trivial()


# --------------------------------------------------------------------------- relaxed distributions


def _uniform_values(K, hostile, dtype_name):
    vals = [(i + 0.5) / K for i in range(K)]
    if hostile:
        ulp = 2.0 ** -24 if dtype_name == "float32" else 2.0 ** -53
        # legal outcomes of torch.rand (multiples of the ulp in [0,1)): both ends, a few ulps below 1, small values
        vals = [0.0, 1e-6, 1e-4, 1.0 - 4 * ulp, 1.0 - ulp] + vals
    return vals


def _exec_dist_lb(case, mon):
    import torch
    import pydrobert.torch.distributions as PD
    from . import _c19_rand as R

    dtype = _dt(case["dtype"])
    f32 = case["dtype"] == "float32"
    theta = torch.tensor(case["theta"], dtype=dtype)
    dist = mon.lib("LogisticBernoulli", PD.LogisticBernoulli, **{case["kind"]: theta})
    bshape = tuple(theta.shape)
    n = theta.numel()
    vals = _uniform_values(case["K"], case["hostile_uniforms"], case["dtype"])
    G = len(vals)
    base = torch.tensor(vals, dtype=torch.float64)
    grid = torch.stack([base.roll(3 * c) for c in range(n)], -1).reshape((G,) + bshape)
    t64 = theta.double()
    logits64 = t64 if case["kind"] == "logits" else (t64.log() - (-t64).log1p())
    atol, rtol = (1e-4, 1e-5) if f32 else (1e-9, 1e-10)
    if case["hostile_uniforms"]:
        mon.cls("hostile_uniforms")

    def judge(z, where):
        b = mon.lib("LogisticBernoulli.threshold", dist.threshold, z)
        mon.check(bool(((b == 0) | (b == 1)).all()), "threshold-in-support:logistic-bernoulli", observed=b)
        lp = mon.lib("LogisticBernoulli.log_prob", dist.log_prob, z)
        tl = mon.lib("LogisticBernoulli.tlog_prob", dist.tlog_prob, b)
        cl = mon.lib("LogisticBernoulli.clog_prob", dist.clog_prob, z, b)
        dev = (lp - (tl + cl)).abs().double()
        bound = atol + rtol * lp.abs().double()
        mon.dev("density-factorisation:logistic-bernoulli(relative to bound)", float((dev / bound).max()), 1.0)
        mon.check(bool((dev <= bound).all()), "density-factorisation:logistic-bernoulli", where=where,
                  log_prob=lp, tlog_prob=tl, clog_prob=cl, z=z, max_dev=float(dev.max()))
        wrong = mon.lib("LogisticBernoulli.clog_prob", dist.clog_prob, z, 1 - b)
        mon.check(bool((wrong == -float("inf")).all()), "wrong-image-density-zero:logistic-bernoulli",
                  observed=wrong, z=z, where=where)
        # the factors are what they are called: threshold probability and the logistic density
        tl_x = X.bernoulli_log_prob(logits64, b.double())
        d2 = (tl.double() - tl_x).abs()
        mon.check(bool((d2 <= atol + rtol * tl_x.abs()).all()), "threshold-probability:logistic-bernoulli",
                  observed=tl, expected=tl_x, where=where)
        lp_x = X.logistic_log_density(logits64, z.double())
        d3 = (lp.double() - lp_x).abs()
        mon.check(bool((d3 <= atol + rtol * lp_x.abs()).all()), "relaxed-density:logistic-bernoulli",
                  observed=lp, expected=lp_x, where=where)

    patterns = {
        "zeros": torch.zeros((G,) + bshape, dtype=dtype),
        "ones": torch.ones((G,) + bshape, dtype=dtype),
        "mixed": ((torch.arange(G * n).reshape((G,) + bshape) * 7 // 3) % 2).to(dtype),
    }
    for pname, b in patterns.items():
        with R.interpose_rand(R.ListFeeder([grid])) as fd:
            zc = mon.lib("LogisticBernoulli.csample", dist.csample, b)
        mon.ev("rand-interposed", len(fd.calls))
        hb = mon.lib("LogisticBernoulli.threshold", dist.threshold, zc)
        bad = hb != b
        mon.check(not bool(bad.any()), "csample-threshold:logistic-bernoulli", pattern=pname,
                  n_wrong=int(bad.sum()), uniforms=grid[bad][:8], zcond=zc[bad][:8], b=b[bad][:8],
                  parameters=theta)
        mon.check(bool(torch.isfinite(zc).all()), "csample-finite:logistic-bernoulli", pattern=pname)
        judge(zc, "csample:" + pname)
    with R.interpose_rand(R.ListFeeder([grid])) as fd:
        z = mon.lib("LogisticBernoulli.rsample", dist.rsample, [G])
    mon.ev("rand-interposed", len(fd.calls))
    mon.check(tuple(z.shape) == (G,) + bshape and bool(torch.isfinite(z).all()), "sample-in-support:logistic-bernoulli",
              shape=list(z.shape))
    judge(z, "rsample")
    mon.stat("relaxed-points-judged", 4 * G * n)


def _exec_dist_goh(case, mon):
    import torch
    import pydrobert.torch.distributions as PD
    from . import _c19_rand as R

    dtype = _dt(case["dtype"])
    f32 = case["dtype"] == "float32"
    V, batch = case["V"], case["batch"]
    rows = case["theta"] if batch else case["theta"][0]
    theta = torch.tensor(rows, dtype=dtype)
    dist = mon.lib("GumbelOneHotCategorical", PD.GumbelOneHotCategorical, **{case["kind"]: theta})
    if (V + case["K"] + len(str(rows))) % 3 == 0:
        # the distribution after Distribution.expand() (to its own batch shape), for half of them after its lazily
        # computed parameters have been looked at
        if (V + len(str(rows))) % 2 == 0:
            _ = dist.logits, dist.probs
        dist = mon.lib("GumbelOneHotCategorical.expand", dist.expand, dist.batch_shape)
        mon.cls("goh_expanded")
    vals = _uniform_values(case["K"], case["hostile_uniforms"], case["dtype"])
    pts = torch.tensor(list(itertools.product(vals, repeat=V)), dtype=torch.float64)  # (G, V)
    G = pts.shape[0]
    if batch:
        grid = torch.stack([pts, pts.flip(0).roll(1, -1)], 1)  # (G, 2, V)
    else:
        grid = pts
    t64 = theta.double()
    logp64 = (t64 / t64.sum(-1, keepdim=True)).log() if case["kind"] == "probs" else t64.log_softmax(-1)
    atol, rtol = (1e-4, 2e-5) if f32 else (1e-9, 1e-10)
    if case["hostile_uniforms"]:
        mon.cls("hostile_uniforms")
    eye = torch.eye(V, dtype=dtype)

    def judge(z, where):
        b = mon.lib("GumbelOneHotCategorical.threshold", dist.threshold, z)
        mon.check(bool(((b == 0) | (b == 1)).all() and (b.sum(-1) == 1).all()),
                  "threshold-in-support:gumbel-categorical", observed=b)
        lp = mon.lib("GumbelOneHotCategorical.log_prob", dist.log_prob, z)
        tl = mon.lib("GumbelOneHotCategorical.tlog_prob", dist.tlog_prob, b)
        cl = mon.lib("GumbelOneHotCategorical.clog_prob", dist.clog_prob, z, b)
        dev = (lp - (tl + cl)).abs().double()
        g64 = logp64 - z.double()
        mag = (g64.abs() + g64.exp()).sum(-1)  # size of the terms that are summed (rounding scales with it)
        bound = atol + rtol * mag
        mon.dev("density-factorisation:gumbel-categorical(relative to bound)", float((dev / bound).max()), 1.0)
        mon.check(bool((dev <= bound).all()), "density-factorisation:gumbel-categorical", where=where,
                  max_dev=float(dev.max()), worst_z=z.reshape(-1, V)[int(dev.reshape(-1).argmax())],
                  parameters=theta)
        for s in range(1, V):
            wrong = mon.lib("GumbelOneHotCategorical.clog_prob", dist.clog_prob, z, b.roll(s, -1))
            mon.check(bool((wrong == -float("inf")).all()), "wrong-image-density-zero:gumbel-categorical",
                      shift=s, where=where, n_finite=int((wrong != -float("inf")).sum()))
        tl_x = X.categorical_log_prob(logp64, b.double())
        d2 = (tl.double() - tl_x).abs()
        mon.check(bool((d2 <= atol + rtol * tl_x.abs()).all()), "threshold-probability:gumbel-categorical",
                  observed=tl, expected=tl_x, where=where)
        lp_x = X.gumbel_log_density(logp64, z.double())
        d3 = (lp.double() - lp_x).abs()
        b3 = atol + rtol * mag
        mon.check(bool((d3 <= b3).all()), "relaxed-density:gumbel-categorical", where=where,
                  max_dev=float(d3.max()))

    for k in range(V):
        if batch:
            b = torch.stack([eye[k], eye[(k + 1) % V]]).expand(G, 2, V).contiguous()
        else:
            b = eye[k].expand(G, V).contiguous()
        with R.interpose_rand(R.ListFeeder([grid])) as fd:
            zc = mon.lib("GumbelOneHotCategorical.csample", dist.csample, b)
        mon.ev("rand-interposed", len(fd.calls))
        hb = mon.lib("GumbelOneHotCategorical.threshold", dist.threshold, zc)
        bad = (hb != b).any(-1)
        mon.check(not bool(bad.any()), "csample-threshold:gumbel-categorical", category=k,
                  n_wrong=int(bad.sum()), uniforms=grid[bad][:6], zcond=zc[bad][:6], thresholded=hb[bad][:6],
                  parameters=theta)
        mon.check(bool(torch.isfinite(zc).all()), "csample-finite:gumbel-categorical", category=k)
        judge(zc, "csample:%d" % k)
    with R.interpose_rand(R.ListFeeder([grid])) as fd:
        z = mon.lib("GumbelOneHotCategorical.rsample", dist.rsample, [G])
    mon.ev("rand-interposed", len(fd.calls))
    mon.check(tuple(z.shape) == (G,) + tuple(theta.shape) and bool(torch.isfinite(z).all()),
              "sample-in-support:gumbel-categorical", shape=list(z.shape))
    judge(z, "rsample")
    mon.stat("relaxed-points-judged", (V + 1) * G * max(batch, 1))


# --------------------------------------------------------------------------- cardinality sampling


def _flat(x):
    if isinstance(x, list):
        out = []
        for y in x:
            out.extend(_flat(y))
        return out
    return [x]


def _exec_srswor(case, mon):
    import torch
    import pydrobert.torch.distributions as PD
    import pydrobert.torch.functional as PF
    from . import _c19_rand as R

    total, given, out_size = case["total"], case["given"], case["out_size"]
    tl, gl = _flat(total), _flat(given)
    for t, g in zip(tl, gl):
        mon.observe("srswor-total-given", "%d/%d" % (t, g))
    if all(g in (0, t) for t, g in zip(tl, gl)):
        mon.trivial()
    tmax = max(tl)
    osz = tmax if out_size is None else out_size
    zero_event = osz == 0
    if case["int_args"] and not isinstance(total, list):
        targ, garg = total, given
    else:
        targ, garg = torch.tensor(total), torch.tensor(given)
    sshape = list(case["sample_shape"])
    hb = None
    torch.manual_seed(case["seed"])
    documented = (RuntimeError, IndexError) if zero_event else ()
    if zero_event:
        mon.cls("zero_size_event")
    if case["form"] == "func":
        tt = torch.as_tensor(targ).expand(sshape + list(torch.as_tensor(targ).shape))
        gg = torch.as_tensor(garg).expand(sshape + list(torch.as_tensor(garg).shape))
        call = lambda: PF.simple_random_sampling_without_replacement(tt, gg, out_size)  # noqa: E731
        name = "simple_random_sampling_without_replacement"
        dist = None
    else:
        dist = mon.lib("SimpleRandomSamplingWithoutReplacement", PD.SimpleRandomSamplingWithoutReplacement,
                       garg, targ, out_size, documented=documented)
        call = lambda: dist.sample(sshape)  # noqa: E731
        name = "SimpleRandomSamplingWithoutReplacement.sample"
    if case["bern"] == "natural":
        b = mon.lib(name, call, documented=documented)
    else:
        hb = R.HostileBernoulli(case["bern"])
        # whichever primitive the sampler draws from: the uniform generator is as hostile as the Bernoulli one
        # (0.0, the smallest legal uniform, where the Bernoulli stub says 1; the largest float below 1 where it says 0)
        uni = R.ConstFeeder({"ones": 0.0, "alternate": 0.0, "half": 0.5}.get(case["bern"], 1.0 - 2.0 ** -24))
        with R.interpose_bernoulli(hb), R.interpose_rand(uni):
            b = mon.lib(name, call, documented=documented)
        mon.ev("uniform-interposed", len(uni.calls))
        mon.ev("bernoulli-interposed", hb.calls)
        mon.stat("bernoulli-fractional-probabilities", hb.fractional)
    bshape = tuple(torch.as_tensor(targ).shape)
    exp_shape = tuple(sshape) + bshape + (osz,)
    mon.check(tuple(b.shape) == exp_shape, "srswor-shape", observed=list(b.shape), expected=list(exp_shape))
    flat = b.reshape(-1, len(tl), osz) if tl else b
    for n, (t, g) in enumerate(zip(tl, gl)):
        v = flat[:, n]
        ok = bool(((v == 0) | (v == 1)).all()) and bool((v[:, :t].sum(-1) == g).all()) and bool((v[:, t:] == 0).all())
        mon.check(ok, "srswor-cardinality", total=t, given=g, out_size=osz, samples=v[:6], bernoulli=case["bern"])
    if dist is None:
        return
    inside = mon.lib("SimpleRandomSamplingWithoutReplacement.support.check", lambda: dist.support.check(b))
    mon.check(bool(inside.all()), "srswor-sample-in-own-support", samples=b)
    equal = len(set(tl)) == 1 and len(set(gl)) == 1
    if equal:
        mon.check(bool(dist.has_enumerate_support), "srswor-enumerable", total=tl[0], given=gl[0])
    elif dist.has_enumerate_support:
        mon.stat("srswor-claims-enumerable-with-unequal-counts")
    if equal or dist.has_enumerate_support:
        # whatever the distribution offers as its enumerated support: per batch element exactly that element's own
        # support, over which its probabilities sum to one
        es = mon.lib("SimpleRandomSamplingWithoutReplacement.enumerate_support", dist.enumerate_support)
        want = X.binary_sequences_with_cardinality(tl[0], gl[0])
        mon.check(es.shape[0] == len(want) and tuple(es.shape[1:]) == bshape + (osz,), "srswor-support-size",
                  observed=list(es.shape), expected=[len(want)] + list(bshape) + [osz])
        for n in range(len(tl)):
            col = es.reshape(es.shape[0], -1, osz)[:, n]
            want_n = X.binary_sequences_with_cardinality(tl[n], gl[n])
            got = set(tuple(int(x) for x in row[:tl[n]]) for row in col.tolist())
            mon.check(got == want_n and bool((col[:, tl[n]:] == 0).all()), "srswor-support-elements",
                      observed=sorted(got), expected=sorted(want_n), total=tl[n], given=gl[n], batch_element=n)
        lp = mon.lib("SimpleRandomSamplingWithoutReplacement.log_prob", dist.log_prob, es)
        s = lp.double().exp().sum(0).reshape(-1)
        for n in range(s.numel()):
            mon.close(s[n], 1.0, 1e-5, "srswor-support-sums-to-one", total=tl[n % len(tl)], given=gl[n % len(gl)])
    if equal:
        lps = mon.lib("SimpleRandomSamplingWithoutReplacement.log_prob", dist.log_prob, b)
        mon.close(lps.double().exp().reshape(-1)[0], 1.0 / max(len(want), 1), 1e-6, "srswor-sample-probability",
                  rel=1e-5)


# --------------------------------------------------------------------------- enumerations


def _exec_comb(case, mon):
    import torch
    import pydrobert.torch.functional as PF

    sub = case["sub"]
    if sub == "binary":
        L = case["length"]
        s = mon.lib("enumerate_binary_sequences", PF.enumerate_binary_sequences, L)
        got = [tuple(r) for r in s.tolist()]
        want = X.binary_sequences(L)
        mon.check(tuple(s.shape) == (2 ** L, L) and len(set(got)) == len(got) and set(got) == want,
                  "enumeration", function="enumerate_binary_sequences", length=L, observed_shape=list(s.shape))
        if L == 0:
            mon.trivial()
    elif sub == "vocab":
        L, V = case["length"], case["vocab"]
        s = mon.lib("enumerate_vocab_sequences", PF.enumerate_vocab_sequences, L, V)
        got = [tuple(r) for r in s.tolist()]
        want = X.vocab_sequences(L, V)
        mon.check(tuple(s.shape) == (V ** L, L) and len(set(got)) == len(got) and set(got) == want,
                  "enumeration", function="enumerate_vocab_sequences", length=L, vocab=V,
                  observed_shape=list(s.shape))
        if L == 0:
            mon.trivial()
    elif sub == "card_int":
        L, C = case["length"], case["count"]
        s = mon.lib("enumerate_binary_sequences_with_cardinality", PF.enumerate_binary_sequences_with_cardinality, L, C)
        got = [tuple(r) for r in s.tolist()]
        want = X.binary_sequences_with_cardinality(L, C)
        mon.check(len(got) == X.comb(L, C) and len(set(got)) == len(got) and set(got) == want,
                  "enumeration", function="enumerate_binary_sequences_with_cardinality", length=L, count=C,
                  observed_shape=list(s.shape))
        if L == 0:
            mon.trivial()
    elif sub == "card_tensor":
        Ls, Cs = case["length"], case["count"]
        s, binom = mon.lib("enumerate_binary_sequences_with_cardinality",
                           PF.enumerate_binary_sequences_with_cardinality, torch.tensor(Ls), torch.tensor(Cs))
        mon.check(binom.tolist() == [X.comb(a, c) for a, c in zip(Ls, Cs)], "binomial-coefficient",
                  observed=binom, length=Ls, count=Cs, via="enumerate_binary_sequences_with_cardinality")
        for n, (L, C) in enumerate(zip(Ls, Cs)):
            k = X.comb(L, C)
            got = [tuple(r) for r in s[n, :k, :L].tolist()]
            want = X.binary_sequences_with_cardinality(L, C)
            mon.check(len(set(got)) == len(got) and set(got) == want, "enumeration",
                      function="enumerate_binary_sequences_with_cardinality(tensor)", length=L, count=C, row=n,
                      observed=got)
        if max(Ls) == 0:
            mon.trivial()
    else:
        Ls, Cs = case["length"], case["count"]
        r = mon.lib("binomial_coefficient", PF.binomial_coefficient, torch.tensor(Ls), torch.tensor(Cs))
        cs = Cs if len(Cs) == len(Ls) else Cs * len(Ls)
        want = [X.comb(a, c) for a, c in zip(Ls, cs)]
        mon.check(r.tolist() == want, "binomial-coefficient", observed=r, expected=want, length=Ls, count=Cs)
        mon.cls("binom_gt20" if max(Ls) > 20 else "binom_le20")
        if max(Ls) == 0:
            mon.trivial()


# =========================================================================== dispatch


def execute(case, mon):
    import warnings

    with warnings.catch_warnings():
        warnings.simplefilter("ignore")
        cls = case["class"]
        if "est" in case:
            if case["est"] in ("direct", "importance", "enumerate"):
                return _exec_estimator(case, mon)
            if case["est"] in ("st", "relax"):
                return _exec_relaxed_est(case, mon)
            return _exec_imh(case, mon)
        if cls == "dist_logistic_bernoulli":
            return _exec_dist_lb(case, mon)
        if cls == "dist_gumbel_categorical":
            return _exec_dist_goh(case, mon)
        if cls in ("srswor", "srswor_hostile", "srswor_exhaustive"):
            return _exec_srswor(case, mon)
        return _exec_comb(case, mon)


def classify(entry_id, vrec):
    """No open finding for C19 (D15 is fixed; fixed entries suppress nothing)."""
    return False
