"""C02 - error rate counts the edits of some minimum-cost alignment.

Monitored entry points: functional.error_rate, prefix_error_rates, minimum_error_rate_loss and
the modules ErrorRate, PrefixErrorRates, MinimumErrorRateLoss (case["form"]).
Only dyadic costs are generated, so "minimum cost" is decided without rounding.
"""
import itertools
import math
import warnings
from fractions import Fraction

from .. import layout as LY
from ..oracles import c02_align as A
from ..oracles import lev
from . import _strgen as G

ID = "C02"
LEVEL = "exploration"
RULE = (
    "class-directed random ragged batches as in C01 but with dyadic cost triples only (N<=6, lengths "
    "0..6 quick / 0..12 thorough, alphabets 1-4, hostile eos/filler, sub=ins+del ties and sub>ins+del "
    "so that the cheapest alignment is not the shortest, empty references, all flag combinations, "
    "functional and module forms); every 4th case drives minimum_error_rate_loss (N<=4, 2<=M<=4, 2-D "
    "and 3-D references, every reduction, both layouts, log_probs with small and large spread); in "
    "thorough additionally every (ref,hyp) over a 2-letter alphabet with lengths<=4 under every flag "
    "combination and 3 cost triples.  A case is distinct by the hash of its concrete inputs and "
    "non-trivial if at least one pair has a non-empty reference and hypothesis that differ"
)
ASSUMPTIONS = [
    "oracle: per-pair DP over Fractions carrying the exact set of edit counts of min-cost alignments; "
    "cross-checked in the same run against lev.table_counts (lo/hi) and, for |ref|,|hyp|<=4, against "
    "an enumeration of all alignments",
    "dyadic costs: float32 cost sums are exact, so no tie exists only in floating point",
    "normalised values compared with relative tolerance 1e-6 (one float32 division)",
    "loss compared in float64: per entry within 5e-7*S + 5e-6*|expected| (S = max(1, largest admissible error rate of the batch)), totals within sqrt(N*M) times the absolute part (float32 cancellation under sub_avg)",
    "USE_JIT off (library runs as plain Python)",
]
BUDGET = {
    "quick": dict(cases=2000, shards=4, timeout=1800),
    "thorough": dict(cases=10000, shards=16, timeout=5400),
}
ER_CLASSES = [c for c in G.CLASSES if c != "nondyadic"] + ["sub_eq_insdel", "sub_gt_insdel"]
LOSS_CLASSES = ["loss_ref2d", "loss_ref3d", "loss_spread", "loss_equal_costs", "loss_tie_costs",
                "loss_empty_ref"]
CLASSES = ER_CLASSES + LOSS_CLASSES + ["zero_dim_eos"]
FLOORS = {
    "quick": {
        "events": {"error_rate": 2000, "prefix_error_rates": 2000, "minimum_error_rate_loss": 700,
                   "assert:count-of-some-optimal-alignment": 20000,
                   "assert:within-optimal-interval": 20000,
                   "assert:equals-plain-levenshtein": 5000,
                   "assert:empty-ref-convention": 1000,
                   "assert:prefix-padding": 3000,
                   "assert:oracle-enumeration": 5000,
                   "assert:loss-value": 800},
        "classes": dict({c: 100 for c in ER_CLASSES}, **{c: 100 for c in LOSS_CLASSES}),
        "stats": {"pairs_lo_lt_hi": 300, "cheapest_not_shortest": 300, "loss_rate_sets_nonsingleton": 20,
                  "loss_reduction_none": 200, "loss_reduction_sum": 200, "loss_reduction_mean": 200,
                  "form_module": 800, "loss_zero_width_tensor": 15},
        "distinct": 2000,
    },
    "thorough": {
        "events": {"error_rate": 100000, "prefix_error_rates": 100000, "minimum_error_rate_loss": 25000,
                   "assert:count-of-some-optimal-alignment": 1000000, "assert:oracle-enumeration": 200000,
                   "assert:loss-value": 25000},
        "classes": dict({c: 4000 for c in ER_CLASSES}, exhaustive2=46128,
                        **{c: 3000 for c in LOSS_CLASSES}),
        "stats": {"pairs_lo_lt_hi": 10000, "cheapest_not_shortest": 10000, "loss_zero_width_tensor": 300},
        "distinct": 100000,
    },
}
EXHAUSTIVE = {"thorough": False}


# --------------------------------------------------------------------------
# generation


def generate(rng, tier, i):
    if i % 97 == 96:
        # zero-size sequence dimension with eos set: observation class only (DESIGN 3/C01 limits)
        case = G.gen_string_case(rng, tier, 0, classes=ER_CLASSES)
        case["class"], case["kind"] = "zero_dim_eos", "er"
        case["eos"] = 0 if case["eos"] is None else case["eos"]
        if rng.random() < 0.5:
            case["R"], case["ref"] = 0, [[] for _ in case["ref"]]
        else:
            case["H"], case["hyp"] = 0, [[] for _ in case["hyp"]]
        return case
    if i % 4 == 3:
        return gen_loss_case(rng, tier, i // 4)
    j = (i // 4) * 3 + i % 4
    if i % 1600 == 798:
        # a batch whose (R + 1) x (R + 1) x N working set runs to millions of entries, N not a round number
        R = rng.choice([31, 63, 63, 127, 255])
        cells = rng.choice([2 ** 20, 2 ** 21, 2 ** 22, 2 ** 22, 2 ** 23])
        N = max(3, int(cells * rng.uniform(1.0, 2.6)) // (R + 1) ** 2 + rng.randint(1, 13))
        case = G.gen_string_case(rng, tier, j, classes=ER_CLASSES, dims=(N, R, rng.randint(3, 9)))
        case["huge"] = True
    else:
        case = G.gen_string_case(rng, tier, j, classes=ER_CLASSES)
    case["kind"] = "er"
    a, b = rng.choice([0.25, 0.5, 1.0, 1.5]), rng.choice([0.25, 0.5, 1.0, 1.5])
    extra = rng.choice([0.25, 0.5, 1.0])
    if case["class"] == "sub_eq_insdel":
        case["costs"] = [a, b, a + b]
    elif case["class"] == "sub_gt_insdel":
        case["costs"] = [a, b, a + b + extra]
    return case


def gen_loss_case(rng, tier, j):
    cls = LOSS_CLASSES[j % len(LOSS_CLASSES)]
    big = tier == "thorough"
    maxlen = 10 if big else 6
    N, M = rng.randint(1, 4), rng.randint(2, 4)
    R, H = rng.randint(1, maxlen), rng.randint(1, maxlen)
    eos = rng.choice([None, 0, 0, 9])
    if cls == "loss_empty_ref":
        eos = rng.choice([0, 9])
        z = rng.random()
        if z < 0.3:
            # zero-width tensors without eos: every reference (or hypothesis) of the batch is empty
            eos = None
            if z < 0.2:
                R = 0
            if z > 0.1:
                H = 0
    alphabet = list(range(1, rng.randint(1, 4) + 1))
    ref3d = cls == "loss_ref3d" or (cls != "loss_ref2d" and rng.random() < 0.4)
    include_eos = rng.random() < 0.5
    if cls == "loss_empty_ref":
        include_eos = False

    def col(width, mode="any"):
        return G.gen_col(rng, width, alphabet, eos, mode)

    def rcol():
        if cls == "loss_empty_ref" and rng.random() < 0.6:
            return col(R, "eos0")
        return col(R)

    def hcol():
        if cls == "loss_empty_ref" and rng.random() < 0.3:
            return col(H, "eos0")
        return col(H)

    if ref3d:
        refs = [[rcol() for _ in range(M)] for _ in range(N)]
    else:
        refs = [rcol() for _ in range(N)]
    hyps = [[hcol() for _ in range(M)] for _ in range(N)]
    if cls == "loss_equal_costs" or (cls not in ("loss_tie_costs",) and rng.random() < 0.35):
        c = rng.choice(G.DYADIC)
        costs = [c, c, c]
    elif cls == "loss_tie_costs":
        a, b = rng.choice([0.25, 0.5, 1.0, 1.5]), rng.choice([0.25, 0.5, 1.0, 1.5])
        costs = [a, b, a + b] if rng.random() < 0.6 else [a, b, a + b + rng.choice([0.5, 1.0])]
    else:
        costs = [rng.choice(G.DYADIC) for _ in range(3)]
    scale = rng.choice([20.0, 40.0]) if cls == "loss_spread" else rng.choice([0.5, 1.0, 3.0])
    log_probs = [[round(rng.gauss(0.0, 1.0) * scale - rng.choice([0.0, 5.0]), 4) for _ in range(M)]
                 for _ in range(N)]
    return {
        "class": cls, "kind": "loss", "ref": refs, "hyp": hyps, "ref3d": ref3d, "log_probs": log_probs,
        "eos": eos, "include_eos": include_eos, "norm": rng.random() < 0.5,
        "sub_avg": rng.random() < 0.6, "batch_first": rng.random() < 0.5,
        "reduction": ["none", "sum", "mean"][(j // len(LOSS_CLASSES)) % 3], "costs": costs,
        "form": rng.choice(["functional", "module"]), "N": N, "M": M, "R": R, "H": H,
    }


def enumerate_cases(tier):
    if tier != "thorough":
        return
    seqs = [list(s) for L in range(0, 5) for s in itertools.product([1, 2], repeat=L)]
    costs = [[1.0, 1.0, 1.0], [0.5, 1.0, 1.5], [1.0, 0.5, 3.0]]
    for ref in seqs:
        for hyp in seqs:
            R, H = 4, 4
            r = ref + ([0] + [1] * (R - len(ref) - 1) if len(ref) < R else [])
            h = hyp + ([0] + [2] * (H - len(hyp) - 1) if len(hyp) < H else [])
            for k in range(16):
                for c in costs:
                    yield {
                        "class": "exhaustive2", "kind": "er", "ref": [r], "hyp": [h], "eos": 0,
                        "include_eos": bool(k & 1), "norm": bool(k & 2), "batch_first": bool(k & 4),
                        "exclude_last": bool(k & 8), "costs": c, "padding": -100,
                        "form": "functional", "R": R, "H": H,
                    }


# --------------------------------------------------------------------------
# error_rate / prefix_error_rates


def _call(mon, case, which, ref, hyp, **over):
    import pydrobert.torch.functional as F
    import pydrobert.torch.modules as M

    ins, dl, sub = G.costs_as_given(case)
    kw = dict(eos=case["eos"], include_eos=case["include_eos"], norm=case["norm"],
              batch_first=case["batch_first"], ins_cost=ins, del_cost=dl, sub_cost=sub, warn=G.warn_flag(case))
    if which == "prefix_error_rates":
        kw.update(padding=case["padding"], exclude_last=case["exclude_last"])
    kw.update(over)
    # zero-size sequence *tensor dimension* (not an empty sequence): with eos set, or with
    # exclude_last on a hypothesis tensor without any column, the library raises; DESIGN 3/C01 limits
    zero_dim = (case["R"] == 0 or case["H"] == 0) and case["eos"] is not None
    zero_dim = zero_dim or (case["H"] == 0 and which == "prefix_error_rates" and case["exclude_last"])
    documented = (RuntimeError, IndexError) if zero_dim else ()
    with warnings.catch_warnings(), G.process_mode(case):
        warnings.simplefilter("ignore")
        if case["form"] == "module":
            mon.stat("form_module")
            cls = M.ErrorRate if which == "error_rate" else M.PrefixErrorRates
            return mon.lib(which, lambda: LY.travelled(G.build_module(cls, kw, case), case["R"], case["H"], len(case["ref"]))(ref, hyp), documented=documented)
        fn = getattr(F, which)
        return mon.lib(which, lambda: fn(ref, hyp, **kw), documented=documented)


def _judge(mon, got, counts, lo, hi, unit, R, k, norm, equal, where, **ctx):
    """got: the library's value for a pair (or prefix k of its hypothesis); counts: the exact set of
    edit counts of minimum-cost alignments; lo/hi: lev.table_counts' interval; unit: plain
    Levenshtein distance."""
    mon.check(got == got and abs(got) != float("inf"), "finite", observed=got, where=where, **ctx)
    if norm and R == 0:
        want = 0.0 if k == 0 else 1.0
        mon.check(got == want, "empty-ref-convention", observed=got, expected=want, where=where,
                  hyp_prefix_len=k, **ctx)
        return
    c = got * R if norm else got
    ci = int(round(c))
    mon.check(abs(c - ci) <= 1e-5 * max(1.0, abs(c)), "count-integral", observed=got, ref_len=R,
              where=where, **ctx)
    if norm:
        mon.close(got, ci / R, 0.0, "norm-division", rel=1e-6, where=where, ref_len=R, **ctx)
    mon.check(lo <= ci <= hi, "within-optimal-interval", observed=ci, fewest=lo, most=hi,
              where=where, **ctx)
    mon.check(ci in counts, "count-of-some-optimal-alignment", observed=ci, admissible=sorted(counts),
              where=where, **ctx)
    if equal:
        mon.check(ci == unit, "equals-plain-levenshtein", observed=ci, expected=unit, where=where, **ctx)
    if lo < hi:
        mon.stat("pairs_lo_lt_hi")
    if lo > unit:
        mon.stat("cheapest_not_shortest")


def _oracles(mon, r, h, costs):
    """Set table, interval table and unit table for a pair; the three are compared with each other
    and (small pairs) with the enumeration of all alignments."""
    ins, dl, sub = costs
    S = A.count_sets(r, h, ins, dl, sub)
    T = lev.table_counts(r, h, ins, dl, sub)
    U = lev.table(r, h, 1, 1, 1)
    R = len(r)
    for k in range(len(h) + 1):
        c, counts = S[k][R]
        mon.check(c == T[k][R][0] and min(counts) == T[k][R][1] and max(counts) == T[k][R][2],
                  "oracle-consistency", sets=[float(c), sorted(counts)], interval=[float(x) for x in T[k][R]],
                  ref=r, hyp=h[:k])
    if R <= 4 and len(h) <= 4:
        for k in range(len(h) + 1):
            c, counts = A.enumerate_optimal_counts(r, h[:k], ins, dl, sub)
            mon.check((c, counts) == S[k][R], "oracle-enumeration", enumerated=[float(c), sorted(counts)],
                      table=[float(S[k][R][0]), sorted(S[k][R][1])], ref=r, hyp=h[:k])
    return S, T, U


def _exec_er(case, mon):
    ref_t, hyp_t = G.to_tensors(case)
    N = len(case["ref"])
    eos, inc = case["eos"], case["include_eos"]
    ins, dl, sub = case["costs"]
    judged = G.is_dyadic(case["costs"]) and min(case["costs"]) > 0
    if not judged:
        # not generated; a replay / hooked call with such costs is only driven, never judged
        mon.ambiguous("non-dyadic-costs")
    equal = ins == dl == sub
    norm = case["norm"]
    if case.get("huge"):
        mon.cls("huge_batch")
    er = _call(mon, case, "error_rate", ref_t, hyp_t)
    pe = _call(mon, case, "prefix_error_rates", ref_t, hyp_t)
    if case["class"] == "zero_dim_eos":
        mon.stat("zero_dim_eos_returned")
    H = case["H"]
    rows = H if case["exclude_last"] else H + 1
    mon.check(tuple(er.shape) == (N,), "shape", observed=list(er.shape), expected=[N])
    exp_shape = (N, rows) if case["batch_first"] else (rows, N)
    mon.check(tuple(pe.shape) == exp_shape, "prefix-shape", observed=list(pe.shape), expected=list(exp_shape))
    if not judged:
        return
    if not case["batch_first"]:
        pe = pe.t()
    nontrivial = False
    for n in range(N):
        r = lev.seq_of(case["ref"][n], eos, inc)
        h = lev.seq_of(case["hyp"][n], eos, inc)
        if r and h and r != h:
            nontrivial = True
        S, T, U = _oracles(mon, r, h, case["costs"])
        R = len(r)
        cell = T[len(h)][R]
        _judge(mon, float(er[n]), S[len(h)][R][1], cell[1], cell[2], int(U[len(h)][R]), R, len(h), norm,
               equal, "error_rate", n=n, ref=r, hyp=h)
        if R == 0:
            mon.stat("empty_ref_pairs")
        last = len(h) - (1 if case["exclude_last"] else 0)
        for k in range(rows):
            g = float(pe[n, k])
            if k <= last:
                cell = T[k][R]
                _judge(mon, g, S[k][R][1], cell[1], cell[2], int(U[k][R]), R, k, norm, equal,
                       "prefix_error_rates", n=n, prefix=k, ref=r, hyp=h[:k])
            else:
                mon.check(g == float(case["padding"]), "prefix-padding", observed=g,
                          expected=case["padding"], n=n, k=k, hyp_len=len(h))
    if not nontrivial:
        mon.trivial()


# --------------------------------------------------------------------------
# minimum_error_rate_loss


def _loss_tensors(case):
    import torch

    N, M, R, H = case["N"], case["M"], case["R"], case["H"]
    hyp = torch.tensor(case["hyp"], dtype=torch.long).reshape(N, M, H)
    if case["ref3d"]:
        ref = torch.tensor(case["ref"], dtype=torch.long).reshape(N, M, R)
    else:
        ref = torch.tensor(case["ref"], dtype=torch.long).reshape(N, R)
    if not case["batch_first"]:
        hyp = hyp.permute(2, 0, 1).contiguous()
        ref = (ref.permute(2, 0, 1) if case["ref3d"] else ref.t()).contiguous()
    lp = torch.tensor(case["log_probs"], dtype=torch.float32).reshape(N, M)
    lay = G.LAYOUTS[(3 * R + 5 * H + N + M) % len(G.LAYOUTS)] if not case.get("layout") else case["layout"]
    return G.relayout(lp, lay), G.relayout(ref, lay), G.relayout(hyp, lay)


def _call_loss(mon, case, lp, ref, hyp):
    import pydrobert.torch.functional as F
    import pydrobert.torch.modules as M

    ins, dl, sub = G.costs_as_given(case)
    kw = dict(eos=case["eos"], include_eos=case["include_eos"], sub_avg=case["sub_avg"],
              batch_first=case["batch_first"], norm=case["norm"], ins_cost=ins, del_cost=dl,
              sub_cost=sub, reduction=case["reduction"])
    with warnings.catch_warnings(), G.process_mode(case):
        warnings.simplefilter("ignore")
        if case["form"] == "module":
            mon.stat("form_module")
            return mon.lib("minimum_error_rate_loss",
                           lambda: LY.travelled(G.build_module(M.MinimumErrorRateLoss, kw, case), case["R"], case["H"])(lp, ref, hyp, warn=G.warn_flag(case)))
        return mon.lib("minimum_error_rate_loss",
                       lambda: F.minimum_error_rate_loss(lp, ref, hyp, warn=G.warn_flag(case), **kw))


def _softmax64(row):
    m = max(row)
    e = [math.exp(x - m) for x in row]
    s = sum(e)
    return [x / s for x in e]


def _exec_loss(case, mon):
    import torch

    N, M = case["N"], case["M"]
    eos, inc, norm = case["eos"], case["include_eos"], case["norm"]
    ins, dl, sub = case["costs"]
    judged = G.is_dyadic(case["costs"]) and min(case["costs"]) > 0
    if not judged:
        mon.ambiguous("non-dyadic-costs")
    lp, ref, hyp = _loss_tensors(case)
    out = _call_loss(mon, case, lp, ref, hyp)
    red = case["reduction"]
    mon.stat("loss_reduction_" + red)
    if case["R"] == 0 or case["H"] == 0:
        mon.stat("loss_zero_width_tensor")
    want_shape = (N, M) if red == "none" else ()
    mon.check(tuple(out.shape) == want_shape, "loss-shape", observed=list(out.shape), expected=list(want_shape))
    if not judged:
        return
    lp64 = lp.double().tolist()
    nontrivial = False
    # admissible loss rows: one per choice of admissible error rates of the row's samples
    row_cands = []
    scale = [1.0]  # largest admissible error rate of the batch (>= 1): float32 error scales with it
    for n in range(N):
        sets = []
        for m in range(M):
            rcol = case["ref"][n][m] if case["ref3d"] else case["ref"][n]
            r = lev.seq_of(rcol, eos, inc)
            h = lev.seq_of(case["hyp"][n][m], eos, inc)
            if r and h and r != h:
                nontrivial = True
            c, counts = A.count_sets(r, h, ins, dl, sub)[len(h)][len(r)]
            rates = sorted(A.rate_set(counts, len(r), len(h), norm))
            if len(rates) > 1:
                mon.stat("loss_rate_sets_nonsingleton")
            if len(r) == 0:
                mon.stat("loss_empty_ref_pairs")
            sets.append([float(x) for x in rates])
            scale[0] = max(scale[0], float(rates[-1]))
        p = _softmax64(lp64[n])
        cands = []
        if math.prod(len(x) for x in sets) > 20000:
            mon.ambiguous("admissible-rate-combinations-not-enumerable")
            return
        for choice in itertools.product(*sets):
            mu = sum(choice) / M if case["sub_avg"] else 0.0
            cands.append([p[m] * (choice[m] - mu) for m in range(M)])
        row_cands.append(cands)
    got = out.double()

    def tol(b, total=False):
        return 5e-7 * scale[0] * (math.sqrt(N * M) if total else 1.0) + 5e-6 * abs(b)

    def near(a, b, total=False):
        return abs(a - b) <= tol(b, total)

    if red == "none":
        for n in range(N):
            g = got[n].tolist()
            ok = any(all(near(g[m], cand[m]) for m in range(M)) for cand in row_cands[n])
            if ok:
                best = min(max(abs(g[m] - cand[m]) / tol(cand[m]) for m in range(M))
                           for cand in row_cands[n])
                mon.dev("loss-value(fraction of tolerance)", best, 1.0)
            mon.check(ok and all(x == x for x in g), "loss-value", observed=g,
                      admissible=row_cands[n][:8], n=n, log_probs=lp64[n], reduction=red)
    else:
        row_sums = [sorted({round(sum(c), 12) for c in cands}) for cands in row_cands]
        space = 1
        for rs in row_sums:
            space *= len(rs)
        if space > 200000:
            # too many admissible totals to enumerate: let the real function's own unreduced output
            # (judged row by row as above) select the admissible assignment it used
            mon.stat("loss_total_via_unreduced_hint")
            none = _call_loss(mon, dict(case, reduction="none"), lp, ref, hyp).double()
            row_sums = []
            for n in range(N):
                gn = none[n].tolist()
                match = [cand for cand in row_cands[n] if all(near(gn[m], cand[m]) for m in range(M))]
                mon.check(bool(match), "loss-value", observed=gn, admissible=row_cands[n][:8], n=n,
                          log_probs=lp64[n], reduction="none (hint for %s)" % red)
                row_sums.append(sorted({round(sum(c), 12) for c in match}))
        totals = {0.0}
        for rs in row_sums:
            totals = {round(t + x, 12) for t in totals for x in rs}
        if red == "mean":
            totals = {t / (N * M) for t in totals}
        g = float(got)
        ok = any(near(g, t, True) for t in totals)
        if ok:
            mon.dev("loss-value(fraction of tolerance)",
                    min(abs(g - t) / tol(t, True) for t in totals), 1.0)
        if not ok and space > 200000 and g == g:
            # the hinted assignment does not explain the total, and the full set of admissible totals
            # was not enumerated: undecided rather than an alarm
            mon.ambiguous("loss-total-not-enumerable")
        else:
            mon.check(ok and g == g, "loss-value", observed=g, admissible=sorted(totals)[:8], reduction=red)
    if not nontrivial:
        mon.trivial()


def execute(case, mon):
    if case.get("kind", "er") == "loss":
        _exec_loss(case, mon)
    else:
        _exec_er(case, mon)


# ---- mechanism B: the repository's own tests as an additional workload (thorough tier)
PYTEST_FILES = ["tests/test_string.py"]


def hook_case(module, args, kwargs, output):
    import torch

    if torch.jit.is_tracing() or torch.jit.is_scripting():
        return None  # shapes are traced values there; the eager calls of the same tests are observed
    name = type(module).__name__
    if name in ("ErrorRate", "PrefixErrorRates"):
        ref, hyp = args[0], args[1]
        if ref.dim() != 2 or hyp.dim() != 2 or ref.numel() > 4000 or hyp.numel() > 4000:
            return None
        bf = bool(module.batch_first)
        r = (ref if bf else ref.t()).tolist()
        h = (hyp if bf else hyp.t()).tolist()
        if len(r) != len(h) or len(r) == 0:
            return None
        return {
            "class": "repo_test_call", "kind": "er", "ref": r, "hyp": h, "eos": module.eos,
            "include_eos": bool(module.include_eos), "norm": bool(module.norm), "batch_first": bf,
            "exclude_last": bool(getattr(module, "exclude_last", False)),
            "costs": [float(module.ins_cost), float(module.del_cost), float(module.sub_cost)],
            "padding": int(getattr(module, "padding", -100)), "form": "functional",
            "R": len(r[0]), "H": len(h[0]), "observed_module": name,
        }
    if name == "MinimumErrorRateLoss":
        lp, ref, hyp = args[0], args[1], args[2]
        if hyp.dim() != 3 or ref.dim() not in (2, 3) or lp.dim() != 2 or hyp.numel() > 4000:
            return None
        bf = bool(module.batch_first)
        ref3d = ref.dim() == 3
        if not bf:
            hyp = hyp.permute(1, 2, 0)
            ref = ref.permute(1, 2, 0) if ref3d else ref.t()
        N, M, H = (int(x) for x in hyp.shape)
        if M < 2 or N == 0 or H == 0 or ref.shape[-1] == 0:
            return None
        return {
            "class": "repo_test_call", "kind": "loss", "ref": ref.tolist(), "hyp": hyp.tolist(),
            "ref3d": ref3d, "log_probs": lp.detach().double().tolist(), "eos": module.eos,
            "include_eos": bool(module.include_eos), "norm": bool(module.norm),
            "sub_avg": bool(module.sub_avg), "batch_first": bf, "reduction": module.reduction,
            "costs": [float(module.ins_cost), float(module.del_cost), float(module.sub_cost)],
            "form": "functional", "N": N, "M": M, "R": int(ref.shape[-1]), "H": H,
            "observed_module": name,
        }
    return None


def hook_compare(case, output, mon):
    """The value the test itself received must be what the judged re-execution produced."""
    if case["kind"] == "loss":
        lp, ref, hyp = _loss_tensors(case)
        again = _call_loss(mon, case, lp, ref, hyp)
    else:
        ref_t, hyp_t = G.to_tensors(case)
        which = "error_rate" if case["observed_module"] == "ErrorRate" else "prefix_error_rates"
        again = _call(mon, case, which, ref_t, hyp_t)
    output = output.detach()
    same = (again == output) | (again.isnan() & output.isnan())
    mon.check(tuple(again.shape) == tuple(output.shape) and bool(same.all()), "observed-output",
              observed=output, expected=again)
