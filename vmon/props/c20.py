"""C20 - attention is a masked convex combination of values, blind to masked positions.

Relations between a recorded call of a real attention module and re-invocations of the same
module on transformed inputs (range, blindness, permutation, query broadcasting), plus, for
MultiHeadedAttention, a head-by-head reference built in the harness from the module's own
parameters and the real wrapped single-head attention.
"""
from ..core import Violation

from .. import layout as LY

ID = "C20"
LEVEL = "exploration"
RULE = (
    "class-directed random calls of DotProduct/GeneralizedDotProduct/Concat soft attention and of "
    "MultiHeadedAttention wrapping each of them: key rank 2-5, sequence dimension at every legal position "
    "(negative too for single-head), every dim size 1..4 (quick) / 1..5 (thorough), query/key/value/mask "
    "each broadcasting on a random subset of the batch dims, masks explicit (>=1 kept per sequence line; "
    "hostile: exactly one kept, last mask dim == number of heads, mask omitted), heads 1-4, all 16 bias-flag "
    "combinations, float32 and float64, values centred or offset (offset makes the range clause sensitive to "
    "weights that do not sum to one); parameters and inputs come from a torch.Generator seeded by the case. "
    "A case is distinct by the hash of its concrete description (shapes, mask, seed, parameters' spec) and "
    "non-trivial if the sequence length is >= 2"
)
ASSUMPTIONS = [
    "PyTorch kernels (linear, softmax, masked_fill, index_select, expand) are trusted",
    "USE_JIT off: the modules run as plain Python; scripted/traced modules are not monitored",
    "float tolerances relative to max(1,|reference|): float32 1e-6 (blindness, single kept position), 2e-5 (range), "
    "2e-4 (permutation, broadcasting, head-by-head reference: re-associated sums feeding a softmax); float64 "
    "1e-12 / 1e-10 / 1e-10; score scales > 1 only in float64",
    "the head-by-head reference calls the real single-head module per head; the single-head flavours are "
    "judged by the range/blindness/permutation/broadcasting clauses of the same run",
]
BUDGET = {
    "quick": dict(cases=600, shards=4, timeout=900),
    "thorough": dict(cases=6000, shards=16, timeout=5400),
}

SINGLE = ["dot", "general", "concat"]
CLASSES = [
    "dot", "general", "concat", "mh_dot", "mh_general", "mh_concat",
    "single_kept", "mh_mask_last_eq_heads", "no_mask", "neg_dim", "broadcast_query",
    "mh_bias_flags", "saturated", "mh_single_kept", "rank2", "mh_broadcast_query", "long_seq",
    "mask_wider_than_scores", "mh_nested", "huge_negative_scores",
]
_CLS_NAMES = {"dot": "DotProductSoftAttention", "general": "GeneralizedDotProductSoftAttention",
              "concat": "ConcatSoftAttention", "mh": "MultiHeadedAttention"}

FLOORS = {
    "quick": {
        "events": {
            "DotProductSoftAttention": 500, "GeneralizedDotProductSoftAttention": 500,
            "ConcatSoftAttention": 500, "MultiHeadedAttention": 1800,
            "MultiHeadedAttention.single_head_attention": 600, "single_head(reference)": 1500,
            "assert:range": 600, "assert:inner-range": 600, "assert:blindness": 800,
            "assert:permutation": 1000, "assert:broadcast-query": 350,
            "assert:multihead-reference": 600, "assert:bias-flag": 2500, "assert:bias-effect": 2500,
            "assert:single-kept-exact": 70,
        },
        "classes": dict({c: 100 for c in CLASSES}, neg_dim_call=120, mask_none=200, mh_masked=500, mask_lower_rank=40,
                        mh_mask_last_eq_heads_nonconstant=100, query_broadcasts=350, float64=250,
                        rank2=150, rank3=300, rank4=300, rank5=150),
        "sets": {"bias_flags": 16, "flavour_rank_dim": 66, "mh_inner_heads": 12},
        "distinct": 1200,
    },
    "thorough": {
        "events": {
            "DotProductSoftAttention": 20000, "GeneralizedDotProductSoftAttention": 20000,
            "ConcatSoftAttention": 20000, "MultiHeadedAttention": 70000,
            "MultiHeadedAttention.single_head_attention": 25000, "single_head(reference)": 60000,
            "assert:range": 20000, "assert:inner-range": 25000, "assert:blindness": 30000,
            "assert:permutation": 40000, "assert:broadcast-query": 12000,
            "assert:multihead-reference": 25000, "assert:bias-flag": 100000, "assert:bias-effect": 100000,
            "assert:single-kept-exact": 3000,
        },
        "classes": dict({c: 4000 for c in CLASSES}, neg_dim_call=5000, mask_none=8000, mh_masked=20000,
                        mh_mask_last_eq_heads_nonconstant=3000, query_broadcasts=12000, float64=10000,
                        rank2=6000, rank3=12000, rank4=12000, rank5=6000, repo_test_call=60),
        "stats": {"hooked:MultiHeadedAttention": 20, "hooked:ConcatSoftAttention": 20,
                  "hooked:GeneralizedDotProductSoftAttention": 20, "hooked:DotProductSoftAttention": 2},
        "sets": {"bias_flags": 16, "flavour_rank_dim": 78, "mh_inner_heads": 12},
        "distinct": 50000,
    },
}
EXHAUSTIVE = {"quick": False, "thorough": False}


# --------------------------------------------------------------------------
# generation (pure Python, everything from rng)


def _nested(rng, shape, p):
    if len(shape) == 0:
        return rng.random() < p
    return [_nested(rng, shape[1:], p) for _ in range(shape[0])]


def _lines(shape, pos):
    """index prefixes/suffixes of every line along `pos`"""
    import itertools

    other = [range(s) for i, s in enumerate(shape) if i != pos]
    return itertools.product(*other)


def _get(m, idx):
    for j in idx:
        m = m[j]
    return m


def _set(m, idx, val):
    for j in idx[:-1]:
        m = m[j]
    m[idx[-1]] = val


def _fix_mask(rng, mask, shape, pos, single):
    T = shape[pos]
    for rest in _lines(shape, pos):
        idxs = [tuple(rest[:pos]) + (t,) + tuple(rest[pos:]) for t in range(T)]
        kept = [ix for ix in idxs if _get(mask, ix)]
        if single:
            keep = rng.choice(idxs)
            for ix in idxs:
                _set(mask, ix, ix == keep)
        elif not kept:
            _set(mask, rng.choice(idxs), True)


def _single_spec(rng, fl, mx, dim):
    if fl == "dot":
        size = rng.randint(1, mx)
        return {"flavour": "dot", "size": size, "query_size": size, "key_size": size, "dim": dim,
                "scale_factor": rng.choice([1.0, 0.5, size ** -0.5, 2.0, -1.0])}
    spec = {"flavour": fl, "query_size": rng.randint(1, mx), "key_size": rng.randint(1, mx), "dim": dim,
            "bias": rng.random() < 0.5}
    if fl == "concat":
        spec["hidden_size"] = rng.randint(1, 6)
    return spec


def generate(rng, tier, i):
    cls = CLASSES[i % len(CLASSES)]
    rnd = i // len(CLASSES)
    mx = 5 if tier == "thorough" else 4
    multi = cls.startswith("mh_")
    if cls in SINGLE:
        fl = cls
    elif cls in ("mh_dot", "mh_general", "mh_concat"):
        fl = cls[3:]
    else:
        fl = SINGLE[rng.randrange(3)]
    if cls == "huge_negative_scores":
        fl = "dot"
    # ---- shapes
    n = 2 if cls == "rank2" else rng.choice([2, 3, 3, 3, 4, 4, 5])
    if cls in ("neg_dim", "broadcast_query", "mh_broadcast_query", "mask_wider_than_scores") and n == 2:
        n = rng.choice([3, 4])
    p = rng.randrange(0, n - 1)
    if cls == "neg_dim" and p == 0:
        p = rng.randrange(1, n - 1)
    T = rng.choice([1, 2, 2, 3, 3, 4, 4, 5][: 6 + (mx - 3)])
    full = [rng.randint(1, mx) for _ in range(n - 1)]
    if cls == "long_seq":
        # sequences far longer than anything the unit tests use (block-wise code paths), few other dims
        n = 3
        p = rng.randrange(0, 2)
        T = rng.choice([257, 300, 520])
        full = [rng.randint(1, 3), rng.randint(1, 3)]
    full[p] = T
    heads = rng.randint(1, 4)
    if cls == "mh_mask_last_eq_heads":
        heads = rng.randint(2, 4)
        full[-1] = heads
        T = full[p]
    if cls in ("broadcast_query", "mh_broadcast_query"):
        for j in range(n - 1):
            if j != p and full[j] == 1:
                full[j] = rng.randint(2, mx)
    if cls in ("single_kept", "mh_single_kept", "huge_negative_scores") and T == 1:
        T = full[p] = rng.randint(2, mx)
    key_b, qry_b, val_b, msk_b = [], [], [], []
    for j in range(n - 1):
        if j == p:
            key_b.append(T), val_b.append(T), msk_b.append(T)
            continue
        f = full[j]
        kb = 1 if (f > 1 and rng.random() < 0.2) else f
        if cls in ("broadcast_query", "mh_broadcast_query"):
            kb = f
        qb = f if kb == 1 else (1 if (f > 1 and rng.random() < 0.25) else f)
        key_b.append(kb), qry_b.append(qb)
        val_b.append(1 if (f > 1 and rng.random() < 0.15) else f)
        msk_b.append(1 if (f > 1 and rng.random() < 0.25) else f)
    if cls in ("broadcast_query", "mh_broadcast_query"):
        qry_b[rng.randrange(n - 2)] = 1  # every non-sequence dim is >= 2 in this class
    if cls == "mh_mask_last_eq_heads":
        msk_b = list(full)
    if cls == "mask_wider_than_scores":
        # query AND key shared along a batch dimension along which mask and value vary: the mask is then wider than
        # the scores it is applied to (legal: it only has to broadcast with them)
        cand = [j for j in range(n - 1) if j != p]
        j = rng.choice(cand)
        jj = j if j < p else j - 1  # the query has no sequence dimension
        if full[j] == 1:
            full[j] = rng.randint(2, mx)
        key_b[j], qry_b[jj] = 1, 1
        val_b[j] = msk_b[j] = full[j]
    # ---- mask
    no_mask = cls == "no_mask" or (cls not in ("single_kept", "mh_single_kept", "mh_mask_last_eq_heads",
                                              "mask_wider_than_scores", "huge_negative_scores")
                                   and rng.random() < 0.15)
    mask = None
    mask_off = 0
    if not no_mask:
        pk = rng.choice([0.25, 0.5, 0.5, 0.8])
        if p >= 1 and cls not in ("mh_mask_last_eq_heads", "mask_wider_than_scores") and rng.random() < 0.35:
            # a mask of LOWER RANK than the scores (leading batch dims left out altogether): it still
            # broadcasts, e.g. one (Lk, Lq) mask shared by a whole batch of (N, Lk, Lq) scores
            mask_off = rng.randint(1, p)
        msk_shape = msk_b[mask_off:]
        mask = _nested(rng, msk_shape, pk)
        if cls == "long_seq":
            mp = p - mask_off
            for rest in _lines(msk_shape, mp):
                a = rng.choice([0, rng.randrange(T), rng.randrange(256, T), T - 1])  # kept span [a, b)
                b_ = rng.randint(a + 1, T)
                style = rng.choice(["left_pad", "span", "random"])
                for t in range(T):
                    ix = tuple(rest[:mp]) + (t,) + tuple(rest[mp:])
                    if style == "left_pad":
                        _set(mask, ix, t >= a)
                    elif style == "span":
                        _set(mask, ix, a <= t < b_)
        _fix_mask(rng, mask, msk_shape, p - mask_off, cls in ("single_kept", "mh_single_kept"))
    # ---- module spec
    alias_kv = False
    if cls == "no_mask" or cls == "saturated" or cls == "rank2":
        multi = rng.random() < 0.4
    if multi:
        inner = _single_spec(rng, fl, 3, p)
        if cls == "mh_bias_flags":
            k = rnd % 16
            flags = [bool(k & 1), bool(k & 2), bool(k & 4), bool(k & 8)]
        else:
            flags = [rng.random() < 0.5 for _ in range(4)]
        spec = {
            "flavour": "mh", "query_size": rng.randint(1, mx), "key_size": rng.randint(1, mx),
            "value_size": rng.randint(1, mx), "num_heads": heads, "inner": inner,
            "out_size": rng.choice([None, None, rng.randint(1, mx)]),
            "d_v": rng.choice([None, rng.randint(1, 3)]), "flags": flags, "dim": p,
        }
        if cls == "mh_nested":
            # a composite as the wrapped "single head": a multi-headed attention (around one of the three flavours)
            # used as the head of another one
            dv = rng.randint(1, 3)
            spec["d_v"] = dv
            inner = _single_spec(rng, rng.choice(["concat", "concat", "dot", "general"]), 3, p)
            spec["inner"] = {
                "flavour": "mh", "query_size": rng.randint(1, 3), "key_size": rng.randint(1, 3), "value_size": dv,
                "num_heads": rng.randint(1, 3), "inner": inner, "out_size": None,
                "d_v": rng.choice([None, 1, 2]), "flags": [rng.random() < 0.6 for _ in range(4)], "dim": p,
            }
        vsize = spec["value_size"]
        if rng.random() < 0.25:
            # self-attention style call: the very same tensor object is handed over as key AND value
            spec["value_size"] = vsize = spec["key_size"]
            val_b = list(key_b)
            alias_kv = True
    else:
        dim = p
        if cls == "neg_dim" or (p >= 1 and rng.random() < 0.2):
            dim = p - n
        spec = _single_spec(rng, fl, mx, dim)
        vsize = rng.randint(1, mx)
    dtype = "float64" if (cls == "saturated" or rng.random() < 0.15) else "float32"
    if cls == "huge_negative_scores":
        dtype = "float32"
    if cls == "saturated":
        qk_scale = rng.choice([10.0, 30.0])
    elif dtype == "float64":
        qk_scale = rng.choice([0.3, 1.0, 3.0])
    else:
        qk_scale = rng.choice([0.3, 1.0])
    return {
        "class": cls, "spec": spec, "n": n, "pos": p,
        "query_shape": qry_b + [spec["query_size"]], "key_shape": key_b + [spec["key_size"]],
        "value_shape": val_b + [vsize], "mask": mask, "mask_leading_dims_dropped": mask_off, "dtype": dtype,
        "alias_kv": alias_kv,
        # every score finite but far below -1e9 (queries and keys of magnitude 1e5 whose products are all negative)
        "qk_mode": "scores_below_minus_1e9" if cls == "huge_negative_scores" else None,
        "seed": rng.getrandbits(31),
        "qk_scale": qk_scale, "v_offset": rng.choice([0.0, 0.0, 10.0, 100.0, -50.0]),
        "v_noise": rng.choice([1.0, 1.0, 0.1]), "p_scale": rng.choice([0.5, 1.0]),
    }


# --------------------------------------------------------------------------
# materialisation


def _build(spec):
    import pydrobert.torch.modules as M

    fl = spec["flavour"]
    if fl == "dot":
        return M.DotProductSoftAttention(spec["size"], spec["dim"], float(spec["scale_factor"]))
    if fl == "general":
        return M.GeneralizedDotProductSoftAttention(spec["query_size"], spec["key_size"], spec["dim"], spec["bias"])
    if fl == "concat":
        return M.ConcatSoftAttention(spec["query_size"], spec["key_size"], spec["dim"], spec["bias"],
                                     spec["hidden_size"])
    inner = _build(spec["inner"])
    kw = {}
    if spec.get("flags") is not None:
        kw = dict(zip(("bias_WQ", "bias_WK", "bias_WV", "bias_WC"), spec["flags"]))
    else:
        kw = dict(zip(("bias_WQ", "bias_WK", "bias_WV", "bias_WC"), spec["has_bias"]))
    if (spec["query_size"] + spec["num_heads"]) % 2 == 0:
        # the four flags in the documented positional order
        mod = M.MultiHeadedAttention(spec["query_size"], spec["key_size"], spec["value_size"], spec["num_heads"],
                                     inner, spec["out_size"], spec["d_v"],
                                     *[kw[k] for k in ("bias_WQ", "bias_WK", "bias_WV", "bias_WC")])
    else:
        mod = M.MultiHeadedAttention(spec["query_size"], spec["key_size"], spec["value_size"], spec["num_heads"],
                                     inner, spec["out_size"], spec["d_v"], **kw)
    # the single-head module AS THE CALLER HOLDS IT (not registered a second time): its parameters are set, and the
    # head-by-head reference is computed, through this handle
    object.__setattr__(mod, "_vmon_given_inner", inner)
    return mod


def _params_by_caller_handles(mod):
    """name -> parameter, the wrapped single-head attention's ones reached through the caller's own handle."""
    params = dict(mod.named_parameters())
    given = getattr(mod, "_vmon_given_inner", None)
    if given is not None:
        for name, prm in given.named_parameters():
            params["single_head_attention." + name] = prm
    return params


def _travel(mod, case, dt, *ints):
    """The module after a journey: deepcopy / pickle, or its state_dict loaded into a freshly built twin."""
    k = sum((2 * j + 3) * int(x) for j, x in enumerate(ints))
    if k % 7 == 3:
        twin = _build(case["spec"]).to(dt)
        twin.load_state_dict(mod.state_dict())
        twin.eval()
        LY.TRAVEL_SEEN["state_dict"] = LY.TRAVEL_SEEN.get("state_dict", 0) + 1
        return twin
    return LY.travelled(mod, *ints, toggle_ok=False)


def _materialise(case):
    import torch

    dt = getattr(torch, case["dtype"])
    mod = _build(case["spec"])
    mod = mod.to(dt)
    mod.eval()
    ex = case.get("explicit")
    if ex is not None:
        with torch.no_grad():
            params = _params_by_caller_handles(mod)
            for name, val in ex["state"].items():
                params[name].copy_(torch.tensor(val, dtype=dt).reshape(params[name].shape))
        q = torch.tensor(ex["query"], dtype=dt).reshape(case["query_shape"])
        k = torch.tensor(ex["key"], dtype=dt).reshape(case["key_shape"])
        v = torch.tensor(ex["value"], dtype=dt).reshape(case["value_shape"])
        mask = None
        if ex["mask"] is not None:
            mask = torch.tensor(ex["mask"], dtype=torch.bool).reshape(ex["mask_shape"])
        return _travel(mod, case, dt, q.numel(), k.numel()), q, k, v, mask, torch.Generator().manual_seed(12345)
    g = torch.Generator().manual_seed(case["seed"])
    with torch.no_grad():
        for name, prm in sorted(_params_by_caller_handles(mod).items()):
            val = torch.randn(prm.shape, generator=g, dtype=torch.float64) * case["p_scale"]
            if name.endswith("bias"):
                val = torch.where(val < 0, val - 0.5, val + 0.5)  # a requested bias is never ~0
            prm.copy_(val.to(dt))
    mod = _travel(mod, case, dt, case["seed"], case["n"])
    q = (torch.randn(case["query_shape"], generator=g, dtype=torch.float64) * case["qk_scale"]).to(dt)
    k = (torch.randn(case["key_shape"], generator=g, dtype=torch.float64) * case["qk_scale"]).to(dt)
    if case.get("qk_mode") == "scores_below_minus_1e9":
        sgn = 1.0 if float(case["spec"]["scale_factor"]) > 0 else -1.0
        q = ((q.double().abs() / case["qk_scale"] + 0.5) * 2e5).to(dt)
        k = (-sgn * (k.double().abs() / case["qk_scale"] + 0.5) * 2e5).to(dt)
    v = (case["v_offset"] + torch.randn(case["value_shape"], generator=g, dtype=torch.float64) * case["v_noise"]).to(dt)
    mask = None
    if case["mask"] is not None:
        mask = torch.tensor(case["mask"], dtype=torch.bool)
    # same values, hostile memory layout (strides / storage offset), chosen from the case's own numbers
    lay = case.get("layout") or LY.pick(case["seed"], case["n"], case["pos"])
    q, k, v, mask = (LY.relayout(t, lay) for t in (q, k, v, mask))
    if case.get("alias_kv"):
        v = k  # one tensor object in both roles
    return mod, q, k, v, mask, g


# --------------------------------------------------------------------------
# the judged execution


class _Soft:
    """evaluate every relation of a case, then report the first failure (and name the others)"""

    def __init__(self, mon):
        self.mon, self.fails = mon, []

    def run(self, fn, *a, **k):
        try:
            return fn(*a, **k)
        except Violation as v:
            self.fails.append(v)
            return None

    def finish(self):
        if self.fails:
            first = self.fails[0]
            det = dict(first.details)
            det["also_failed"] = [f.monitor for f in self.fails[1:]]
            raise Violation(first.monitor, det)


def _tols(case):
    """(exact-type relations, re-associated sums, range) relative to max(1, |reference|)"""
    if case["dtype"] == "float64":
        return 1e-12, 1e-10, 1e-10
    # float32: scores of magnitude ~10-100 carry ~1e-5 relative weight error after a re-associated
    # projection (largest seen over 2 x 96000 thorough cases: 1.5e-5); float64 cases give the sharp check
    # (the "exact" tolerance was 1e-6 until strided / offset input layouts were added: replacing masked rows of
    # a non-contiguous key changes how the projection kernels block the matrix product, which moved results by
    # up to 1.4e-6 relative on the unchanged tree; garbage at masked positions is of magnitude 1e3-1e4, so a
    # genuine leak is still orders of magnitude above 1e-5, and float64 cases keep the sharp 1e-12 check)
    return 1e-5, 2e-4, 2e-5


def _cmp(mon, monitor, got, want, c, dtype, **details):
    """max|got-want| <= c*max(1,|want|max); NaN/inf never close"""
    import torch

    if tuple(got.shape) != tuple(want.shape):
        mon.check(False, monitor, why="shape", observed_shape=list(got.shape), expected_shape=list(want.shape),
                  **details)
    if want.numel() == 0:
        mon.check(True, monitor)
        return
    fin = bool(torch.isfinite(got).all())
    S = max(1.0, float(want.abs().max())) if bool(torch.isfinite(want).all()) else 1.0
    d = float((got - want).abs().max()) / S if fin else float("inf")
    if fin and bool(torch.isfinite(want).all()):
        mon.dev(monitor + ":" + dtype, d, c)
    mon.check(fin and d <= c, monitor, deviation=d, tol=c, observed=got, expected=want, **details)


def _call(mon, mod, q, k, v, mask, name=None):
    name = name or type(mod).__name__
    if mask is None:
        return mon.lib(name, mod, q, k, v)
    return mon.lib(name, mod, q, k, v, mask)


def _bshape(a, b):
    """broadcast of two shapes of equal rank (torch.broadcast_shapes drags sympy in)"""
    a, b = tuple(a), tuple(b)
    if len(a) != len(b) or any(x != y and x != 1 and y != 1 for x, y in zip(a, b)):
        raise ValueError("shapes %s and %s do not broadcast" % (a, b))
    return tuple(max(x, y) if 0 not in (x, y) else 0 for x, y in zip(a, b))


def _eshape(q, k, pos):
    qs = list(q.shape[:-1])
    qs.insert(pos, 1)
    return _bshape(qs, k.shape[:-1])


def _range_check(mon, monitor, out, q, k, v, mask, pos, c, dtype, **details):
    """every output coordinate within [min, max] of the kept values at that coordinate"""
    import torch

    es = _eshape(q, k, pos)
    es = _bshape(es, v.shape[:-1])
    D = v.shape[-1]
    ve = v.expand(es + (D,))
    if mask is None:
        me = torch.ones(es, dtype=torch.bool)
    else:
        me = mask.expand(es)
    inf = float("inf")
    lo = ve.masked_fill(~me.unsqueeze(-1), inf).amin(pos)
    hi = ve.masked_fill(~me.unsqueeze(-1), -inf).amax(pos)
    if tuple(out.shape) != tuple(lo.shape):
        mon.check(False, monitor, why="shape", observed_shape=list(out.shape), expected_shape=list(lo.shape),
                  **details)
    if not bool(torch.isfinite(lo).all()):
        # a line without any kept position (only possible for an inner call fed a mis-aligned mask)
        mon.check(False, monitor, why="a sequence line of the observed call has no kept position",
                  observed=out, **details)
    S = max(1.0, float(v.abs().max())) if v.numel() else 1.0
    tol = c * S
    fin = bool(torch.isfinite(out).all())
    below = (lo - out).clamp_min(0)
    above = (out - hi).clamp_min(0)
    d = float(torch.maximum(below, above).max()) / S if (fin and out.numel()) else (0.0 if fin else float("inf"))
    if fin:
        mon.dev(monitor + ":" + dtype, d, c)
    mon.check(fin and d <= c, monitor, excess=d, tol=c, observed=out, lower=lo, upper=hi, **details)
    return lo, hi


def execute(case, mon):
    import torch

    torch.manual_seed(case.get("seed", 0))  # constructors draw initial parameters from the global stream
    mod, q, k, v, mask, g = _materialise(case)
    spec = case["spec"]
    fl = spec["flavour"]
    multi = fl == "mh"
    pos = case["pos"]
    dtype = case["dtype"]
    c_eq, c_sum, c_rng = _tols(case)
    T = k.shape[pos]
    n = k.dim()
    soft = _Soft(mon)
    name = type(mod).__name__
    inner_fl = spec["inner"]["flavour"] if multi else fl
    mon.cls("rank%d" % n, dtype, "multi" if multi else "single")
    mon.observe("flavour_rank_dim", "%s/%s/%d/%d" % ("mh" if multi else "sh", inner_fl, n, spec["dim"]))
    if spec["dim"] < 0:
        mon.cls("neg_dim_call")
    if mask is not None and case.get("mask_leading_dims_dropped"):
        mon.cls("mask_lower_rank")
    if mask is None:
        mon.cls("mask_none")
    elif multi:
        mon.cls("mh_masked")
        if mask.shape[-1] == spec["num_heads"] and spec["num_heads"] > 1:
            nonconst = bool((mask != mask.select(-1, 0).unsqueeze(-1)).any())
            mon.cls("mh_mask_last_eq_heads_nonconstant" if nonconst else "mh_mask_last_eq_heads_constant")
    if T < 2:
        mon.trivial()

    # ---- the recorded call (for multi-headed attention the wrapped single-head call is observed too)
    inner_calls = []
    handle = None
    if multi:
        def inner_hook(m, args, kwargs, output):
            mon.ev("MultiHeadedAttention.single_head_attention")
            inner_calls.append((args, kwargs, output))

        handle = mod.single_head_attention.register_forward_hook(inner_hook, with_kwargs=True)
    warm = None
    if not multi and spec["dim"] < 0 and case["seed"] % 2 == 0:
        # a history on ONE module object: first the same data with one more leading dimension (a negative sequence
        # dimension means the same thing for every rank), then the judged call
        mw = mask if (mask is None or case.get("mask_leading_dims_dropped")) else mask.unsqueeze(0)
        with torch.no_grad():
            warm = soft.run(_call, mon, mod, q.unsqueeze(0), k.unsqueeze(0), v.unsqueeze(0), mw,
                            name + "(first call, one rank higher)")
        mon.cls("module_called_with_another_rank_first")
    try:
        with torch.no_grad():
            out = _call(mon, mod, q, k, v, mask)
    finally:
        if handle is not None:
            handle.remove()
    if warm is not None:
        soft.run(_cmp, mon, "rank-change-history", warm.squeeze(0), out, c_sum, dtype)
    if case["seed"] % 3 == 0 and q.dtype.is_floating_point:
        # the same call as part of an autograd graph (training): the same numbers
        with torch.enable_grad():
            og = soft.run(_call, mon, mod, q.clone().requires_grad_(True), k.clone().requires_grad_(True),
                          v.clone().requires_grad_(True), mask, name + "(grad enabled)")
        if og is not None:
            soft.run(_cmp, mon, "grad-mode-independence", og.detach(), out, c_sum, dtype)
    if not multi and case["seed"] % 5 == 0 and dtype == "float32":
        # integer-typed values (counts, class indicators) are values like any other
        vi = v.round().to(torch.int64)
        with torch.no_grad():
            out_i = soft.run(_call, mon, mod, q, k, vi, mask, name + "(integer values)")
            out_f = soft.run(_call, mon, mod, q, k, vi.to(q.dtype), mask, name + "(the same values as floats)")
        if out_i is not None and out_f is not None:
            soft.run(mon.check, out_i.dtype.is_floating_point, "integer-values", what="output dtype",
                     observed=str(out_i.dtype))
            soft.run(_cmp, mon, "integer-values", out_i.to(out_f.dtype), out_f, c_sum, dtype)
    es = _eshape(q, k, pos)
    es_v = _bshape(es, v.shape[:-1])
    out_batch = es_v[:pos] + es_v[pos + 1:]
    me = torch.ones(es_v, dtype=torch.bool) if mask is None else mask.expand(es_v)
    if bool((~me.any(pos)).any()):
        mon.ood("line without kept position")  # the property only speaks about >= 1 kept position
        return

    with torch.no_grad():
        # ---- 5. multi-head: bias flags and the head-by-head reference
        if multi:
            H, d_q, d_k = spec["num_heads"], spec["inner"]["query_size"], spec["inner"]["key_size"]
            d_v = spec["d_v"] if spec["d_v"] is not None else max(1, spec["value_size"] // H)
            osz = spec["out_size"] if spec["out_size"] is not None else spec["value_size"]
            mon.observe("mh_inner_heads", "%s/%d" % (inner_fl, H))
            if spec.get("flags") is not None:
                mon.observe("bias_flags", "".join("1" if f else "0" for f in spec["flags"]))
                for pname, flag in zip(("WQ", "WK", "WV", "WC"), spec["flags"]):
                    lin = getattr(mod, pname)
                    soft.run(mon.check, (lin.bias is not None) == bool(flag), "bias-flag", projection=pname,
                             requested=bool(flag), has_bias=lin.bias is not None)
                    z = mon.lib("MultiHeadedAttention." + pname, lin, torch.zeros(lin.in_features, dtype=q.dtype))
                    soft.run(mon.check, bool((z != 0).any()) == bool(flag), "bias-effect", projection=pname,
                             requested=bool(flag), projection_of_zero=z)

            def reference():
                F = torch.nn.functional
                heads = []
                for h in range(H):
                    def sl(lin, d):
                        b = None if lin.bias is None else lin.bias[h * d:(h + 1) * d]
                        return lin.weight[h * d:(h + 1) * d], b

                    qh = F.linear(q, *sl(mod.WQ, d_q))
                    kh = F.linear(k, *sl(mod.WK, d_k))
                    vh = F.linear(v, *sl(mod.WV, d_v))
                    sha = getattr(mod, "_vmon_given_inner", None) or mod.single_head_attention
                    heads.append(_call(mon, sha, qh, kh, vh, mask, "single_head(reference)"))
                cat = torch.cat(heads, -1)
                return F.linear(cat, mod.WC.weight, mod.WC.bias)

            ref = soft.run(reference)
            if ref is not None:
                soft.run(_cmp, mon, "multihead-reference", out, ref, c_sum, dtype, heads=H,
                         mask_shape=None if mask is None else list(mask.shape))
            exp_shape = tuple(out_batch) + (osz,)
            soft.run(mon.check, tuple(out.shape) == exp_shape, "shape", observed=list(out.shape),
                     expected=list(exp_shape))
            # the wrapped call the module really made: range clause on what it was given
            mon.check(len(inner_calls) >= 1, "inner-observed", calls=len(inner_calls))
            for args, kwargs, o in inner_calls:
                if inner_fl == "mh":
                    break  # a wrapped composite projects its values: the range clause does not apply to it
                names = ["query", "key", "value", "mask"]
                a = dict(zip(names, args))
                a.update(kwargs)
                soft.run(_range_check, mon, "inner-range", o, a["query"], a["key"], a["value"], a.get("mask"),
                         pos, c_rng, dtype)
        else:
            # ---- 1. range
            r = soft.run(_range_check, mon, "range", out, q, k, v, mask, pos, c_rng, dtype)
            if case["class"] == "single_kept" and r is not None:
                soft.run(_cmp, mon, "single-kept-exact", out, r[0], c_eq, dtype)
            if case["class"] == "mask_wider_than_scores":
                # this class is judged on the range clause (and on the call returning at all) only
                soft.run(mon.check, tuple(out.shape) == tuple(out_batch) + (v.shape[-1],), "shape",
                         observed=list(out.shape), expected=list(out_batch) + [v.shape[-1]])
                soft.finish()
                return

        # ---- 2. blindness
        if mask is not None and not bool(me.all()):
            kept_k = me.to(torch.int64).sum_to_size(k.shape[:-1]) > 0
            kept_v = me.to(torch.int64).sum_to_size(v.shape[:-1]) > 0
            if not (bool(kept_k.all()) and bool(kept_v.all())):
                def junk(x):
                    mag = 1e3 + 9e3 * torch.rand(x.shape, generator=g, dtype=torch.float64)
                    sgn = torch.where(torch.rand(x.shape, generator=g) < 0.5, -1.0, 1.0)
                    return (mag * sgn).to(x.dtype)

                k2 = torch.where(kept_k.unsqueeze(-1), k, junk(k))
                v2 = torch.where(kept_v.unsqueeze(-1), v, junk(v))
                out2 = soft.run(_call, mon, mod, q, k2, v2, mask)
                if out2 is not None:
                    soft.run(_cmp, mon, "blindness", out2, out, c_eq, dtype,
                             masked_key_positions=int((~kept_k).sum()), masked_value_positions=int((~kept_v).sum()))
                if not multi and not bool(kept_k.all()):
                    # keys at masked positions that are finite but at the very edge of the type: their scores
                    # overflow (or mix infinities into NaN) - and must still not matter
                    big = torch.finfo(k.dtype).max
                    sgn = torch.where(torch.rand(k.shape, generator=g) < 0.5, -1.0, 1.0).to(k.dtype)
                    k5 = torch.where(kept_k.unsqueeze(-1), k, sgn * big)
                    out5 = soft.run(_call, mon, mod, q, k5, v, mask, name + "(extreme masked keys)")
                    if out5 is not None:
                        soft.run(_cmp, mon, "blindness-extreme-keys", out5, out, c_eq, dtype,
                                 masked_key_positions=int((~kept_k).sum()))
            else:
                mon.stat("blindness-not-applicable(no key/value position masked for all queries)")
        else:
            mon.stat("blindness-not-applicable(nothing masked)")

        # ---- 3. permutation of the sequence positions
        if T >= 2:
            perm = torch.randperm(T, generator=g)
            if bool((perm == torch.arange(T)).all()):
                perm = torch.roll(perm, 1)
            k3 = k.index_select(pos, perm)
            v3 = v.index_select(pos, perm) if v.shape[pos] == T else v
            m3 = mask
            mpos = pos - int(case.get("mask_leading_dims_dropped") or 0)  # the mask's own sequence dim
            if mask is not None and mask.shape[mpos] == T:
                m3 = mask.index_select(mpos, perm)
            out3 = soft.run(_call, mon, mod, q, k3, v3, m3)
            if out3 is not None:
                soft.run(_cmp, mon, "permutation", out3, out, c_sum, dtype, perm=perm.tolist())

        # ---- 4. broadcasting of the query
        q_full_shape = tuple(es[:pos] + es[pos + 1:]) + (q.shape[-1],)
        if tuple(q.shape) != q_full_shape:
            mon.cls("query_broadcasts")
            q4 = q.expand(q_full_shape).contiguous()
            out4 = soft.run(_call, mon, mod, q4, k, v, mask)
            if out4 is not None:
                soft.run(_cmp, mon, "broadcast-query", out4, out, c_sum, dtype, query_shape=list(q.shape),
                         expanded_shape=list(q_full_shape))

        # ---- 5. a history of calls on the same module object (inference mode): the same key / value tensor
        # OBJECTS are handed over again after having been refilled in place - the output must be the one of
        # their current contents (what a fresh pair of tensors with the same values gives)
        was_training = mod.training
        try:
            mod.eval()
            first = soft.run(_call, mon, mod, q, k, v, mask, name + "(eval)")
            if first is not None:
                soft.run(_cmp, mon, "eval-equals-train", first, out, c_sum, dtype)
            with torch.no_grad():
                k.mul_(-0.5).add_(0.25)
                v.mul_(0.5).sub_(1.0)
            again = soft.run(_call, mon, mod, q, k, v, mask, name + "(eval, refilled tensors)")
            fresh = soft.run(_call, mon, mod, q, k.clone(), v.clone(), mask, name + "(eval, fresh tensors)")
            if again is not None and fresh is not None:
                soft.run(_cmp, mon, "same-objects-new-contents", again, fresh, c_sum, dtype)
        finally:
            mod.train(was_training)
    soft.finish()


def classify(entry_id, vrec):
    # no open finding for C20: D16 (bias flags, mask alignment) and D20 (negative dim) are fixed
    return False


# ---- mechanism B: the repository's own tests as an additional workload (thorough tier)
PYTEST_FILES = ["tests/test_attn.py"]
# scripted / traced modules are not nn.Module Python calls the hook could judge (and a hook running
# inside torch.jit.trace would be recorded into the trace): only the plain-Python variants are run
PYTEST_ARGS = ["-m", "not script and not trace"]
_CAP = 40000


def _spec_of(module):
    name = type(module).__name__
    if name == "DotProductSoftAttention":
        return {"flavour": "dot", "size": module.query_size, "query_size": module.query_size,
                "key_size": module.key_size, "dim": module.dim, "scale_factor": float(module.scale_factor)}
    if name == "GeneralizedDotProductSoftAttention":
        return {"flavour": "general", "query_size": module.query_size, "key_size": module.key_size,
                "dim": module.dim, "bias": module.bias is not None}
    if name == "ConcatSoftAttention":
        return {"flavour": "concat", "query_size": module.query_size, "key_size": module.key_size,
                "dim": module.dim, "bias": module.bias is not None, "hidden_size": int(module.v.shape[0])}
    if name == "MultiHeadedAttention":
        inner = _spec_of(module.single_head_attention)
        if inner is None or inner["flavour"] == "mh":
            return None
        return {"flavour": "mh", "query_size": module.query_size, "key_size": module.key_size,
                "value_size": module.value_size, "num_heads": module.num_heads, "inner": inner,
                "out_size": module.out_size, "d_v": module.d_v, "flags": None, "dim": module.dim,
                "has_bias": [getattr(module, p).bias is not None for p in ("WQ", "WK", "WV", "WC")]}
    return None


def hook_case(module, args, kwargs, output):
    import torch

    spec = _spec_of(module)
    if spec is None or torch.jit.is_tracing() or torch.jit.is_scripting():
        return None
    a = dict(zip(["query", "key", "value", "mask"], args))
    a.update(kwargs)
    q, k, v, mask = a["query"], a["key"], a["value"], a.get("mask")
    if max(q.numel(), k.numel(), v.numel(), 0 if mask is None else mask.numel()) > _CAP:
        return None
    if q.dtype not in (torch.float32, torch.float64) or q.device.type != "cpu":
        return None
    n = k.dim()
    pos = spec["dim"] if spec["dim"] >= 0 else spec["dim"] + n
    return {
        "class": "repo_test_call", "spec": spec, "n": n, "pos": pos,
        "query_shape": list(q.shape), "key_shape": list(k.shape), "value_shape": list(v.shape),
        "mask": None, "dtype": str(q.dtype).replace("torch.", ""), "seed": 0,
        "explicit": {
            "query": q.detach().reshape(-1).tolist(), "key": k.detach().reshape(-1).tolist(),
            "value": v.detach().reshape(-1).tolist(),
            "mask": None if mask is None else mask.detach().bool().reshape(-1).tolist(),
            "mask_shape": None if mask is None else list(mask.shape),
            "state": {nm: p.detach().reshape(-1).tolist() for nm, p in module.named_parameters()},
        },
    }


def hook_compare(case, output, mon):
    """The value the test itself received must be what the judged re-execution produced."""
    import torch

    mod, q, k, v, mask, _ = _materialise(case)
    with torch.no_grad():
        again = _call(mon, mod, q, k, v, mask)
    c_eq, c_sum, c_rng = _tols(case)
    _cmp(mon, "observed-output", output.detach(), again, c_sum, case["dtype"])
