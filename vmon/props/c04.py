"""C04 - beam search returns distinct, correctly scored, best-first paths per element.

Monitors (DESIGN 3/C04):
  * instrumented collaborator `HashLM` (vmon/props/_hashlm.py): self-check of the threaded
    state inside every `calc_idx_log_probs` call, recorded; judged offline against the step
    log on live rows only (finite score, batch element not yet frozen);
  * step hook: `_decoding.beam_search_advance` is wrapped, every internal prune/extend step
    is recorded and judged (chosen candidates are the best ones, prefixes follow `next_src`);
  * boundary oracle on `BeamSearch.__call__`: invariants, stateless chained score,
    textbook dictionary beam search, exhaustive set, batch independence (solo re-run).
"""
import math

from .. import layout as LY
from ..oracles import c04_hashtable as HT
from . import _hashlm as LM

ID = "C04"
LEVEL = "exploration"
RULE = (
    "class-directed random searches: V 1-5, widths 1..64 (far beyond the number of complete sequences), "
    "eos unset / any token (also given as a negative index), finish_all_paths both, max_iters 0..7 and unset, "
    "batch unset / 1..6 with conditioning values that make elements finish at very different steps, "
    "near-deterministic tables; language models: HashLM (state = rolling hash of the whole history, "
    "self-checking), a GRU-cell model and the library's LookupLanguageModel; plus direct calls of "
    "beam_search_advance on random beams.  A case is distinct by the hash of its concrete inputs and "
    "non-trivial if at least one internal step re-ordered or pruned the beam of a live element "
    "(next_src differs from the identity), i.e. model state really had to follow surviving paths"
)
ASSUMPTIONS = [
    "oracle: stateless evaluation of the same logit table in float64 (HashLM) or the model's own full "
    "forward pass (GRU, lookup); textbook dictionary beam search per element",
    "language models emit finite scores only (the class docstring puts -inf outside the domain)",
    "ties (two candidates closer than 4e-5 relative at a pruning boundary, or at the head when the best "
    "path decides termination) make a case ambiguous: invariants only",
    "LM-state self-check is judged only on rows with a finite score of elements not yet frozen",
    "USE_JIT off (library runs as plain Python)",
]
BUDGET = {
    "quick": dict(cases=600, shards=4, timeout=900),
    "thorough": dict(cases=7000, shards=16, timeout=3600),
}
CLASSES = [
    "basic", "staggered", "wide", "exhaustive", "peaky", "unbatched", "iters_edge",
    "open_ended", "v1", "rnn", "lookup", "advance_direct", "staggered", "wide", "fusion", "long_search",
]
# measured on the unchanged tree, seed 0, 1040 cases; a floor is a quarter of what the tier's
# number of cases is expected to produce
_Q = {
    "BeamSearch": 3284, "beam_search_advance(step hook)": 8440, "beam_search_advance": 72,
    "HashLM.calc_idx_log_probs": 7488, "lm-state-live-rows": 33112,
    "assert:lm-state-follows-path": 10422, "assert:lm-conditioning-follows-element": 10422,
    "assert:score-is-chained-log-prob": 11833, "assert:paths-distinct": 2358,
    "assert:stops-at-first-eos": 8696, "assert:best-first": 2358, "assert:minus-inf-at-end": 2358,
    "assert:reference-beam-search": 2328, "assert:batch-independence": 2328,
    "assert:exhaustive-set": 545, "assert:step-chosen-are-best": 13281,
    "assert:step-prefix-follows-src": 60575,
}
_QC = dict({c: 72 for c in set(CLASSES)}, **{
    "finish_spread>=2": 157, "filler_slots": 576, "exhaustive_condition": 243, "reordered": 703,
    "frozen_while_others_run": 205, "negative_eos_index": 162, "max_iters_unset": 76,
})


def _floors(tier, sets, distinct):
    f = BUDGET[tier]["cases"] * BUDGET[tier]["shards"] / 1040.0 * 0.25
    return {"events": {k: int(v * f) for k, v in _Q.items()},
            "classes": {k: int(v * f) for k, v in _QC.items()},
            "sets": sets, "distinct": distinct}


FLOORS = {
    "quick": _floors("quick", {"src-trajectory": 350, "finish-steps": 100}, 450),
    "thorough": _floors("thorough", {"src-trajectory": 4000, "finish-steps": 500}, 8000),
}
EXHAUSTIVE = {"quick": False, "thorough": False}
TOL, RTOL = 1e-4, 1e-5
OPEN_CAP = 24

_REC = {"on": False, "steps": []}


# --------------------------------------------------------------------------- generation


def _spec(rng, V, kind="random", scale=None, cbias=None):
    return {"lm": "hash", "V": V, "M": 509, "seed": rng.randrange(10 ** 9), "kind": kind,
            "scale": scale if scale is not None else rng.choice([0.5, 1.0, 2.0, 3.0]),
            "cbias": cbias or [[0.0] * V]}


def _eos(rng, V, allow_none=True):
    """(eos argument as given to the constructor)"""
    opts = list(range(V)) + ([None] if allow_none else [])
    e = rng.choice(opts)
    if e is not None and rng.random() < 0.2:
        e -= V  # negative index, documented as accepted
    return e


def _cbias(rng, V, C, eos=None, spread=0.0):
    rows = []
    for _ in range(C):
        row = [round(rng.uniform(-spread, spread) * 16) / 16 for _ in range(V)]
        rows.append(row)
    return rows


def generate(rng, tier, i):
    cls = CLASSES[i % len(CLASSES)]
    big = tier == "thorough"
    Tmax = 7 if big else 6
    case = {"class": cls, "pad_value": rng.choice([-1, -1, -100, 0, 7])}
    if cls == "advance_direct":
        return _gen_advance(rng, case)
    V = rng.randint(2, 5)
    N = rng.randint(1, 4)
    width = rng.randint(1, 8)
    T = rng.randint(1, Tmax)
    eos = _eos(rng, V)
    fin = rng.random() < 0.5
    kind = "random"
    spec = None
    if cls == "basic":
        pass
    elif cls == "staggered":
        # one element ends at step 1, another never ends, the others in between
        N = rng.randint(3, 6)
        eos = _eos(rng, V, allow_none=False)
        e = eos % V
        T = rng.randint(3, Tmax + 1)
        width = rng.randint(1, 6)
        cb = _cbias(rng, V, N, spread=0.5)
        levels = [8.0, -8.0] + [rng.choice([-3.0, -1.0, 0.0, 1.0, 2.0, 4.0]) for _ in range(N - 2)]
        rng.shuffle(levels)
        for n in range(N):
            cb[n][e] += levels[n]
        spec = _spec(rng, V, cbias=cb)
        case["cond"] = list(range(N))
    elif cls == "wide":
        V = rng.randint(2, 4)
        eos = _eos(rng, V)
        width = rng.choice([V + 1, V + 2, 2 * V + 1, rng.randint(V + 1, 30), rng.randint(20, 64), 64])
        T = rng.randint(1, 5)
        N = rng.randint(1, 3)
    elif cls == "exhaustive":
        cap = 130 if big else 64
        while True:
            V = rng.randint(2, 5)
            T = rng.randint(1, 6)
            eos = _eos(rng, V)
            cnt = HT.n_complete(V, None if eos is None else eos % V, T)
            if cnt <= cap:
                break
        width = cnt + rng.choice([0, 0, 1, 2, 5, rng.randint(0, 40)])
        fin = True
        N = rng.randint(1, 3)
    elif cls == "peaky":
        kind = "peaky" if rng.random() < 0.6 else "very_peaky"
        width = rng.choice([1, 2, 3, 5, 9, 20])
    elif cls == "unbatched":
        N = None
    elif cls == "iters_edge":
        T = rng.choice([0, 0, 1])
        width = rng.choice([1, 2, V, V + 1, 3 * V])
    elif cls == "open_ended":
        # max_iters unset: the model's eos bias makes the search end by itself
        eos = _eos(rng, V, allow_none=False)
        e = eos % V
        T = None
        N = rng.randint(1, 4)
        cb = _cbias(rng, V, N, spread=0.5)
        for n in range(N):
            cb[n][e] += rng.choice([3.0, 4.0, 6.0, 8.0])
        spec = _spec(rng, V, cbias=cb, scale=rng.choice([0.5, 1.0]))
        case["cond"] = list(range(N))
        width = rng.randint(1, 5)
        fin = rng.random() < 0.3
    elif cls == "v1":
        V = 1
        eos = rng.choice([None, 0, -1])
        width = rng.randint(1, 4)
        T = rng.randint(0, 4)
    elif cls == "rnn":
        width = rng.randint(1, 6)
        T = rng.randint(1, 5)
        spec = {"lm": "rnn", "V": V, "hidden": 8, "seed": rng.randrange(10 ** 9),
                "scale": rng.choice([0.6, 1.0, 1.5]), "hseed": rng.randrange(10 ** 9)}
    elif cls == "lookup":
        width = rng.randint(1, 6)
        T = rng.randint(1, 5)
        N = rng.choice([None, 1, 2])
        spec = _gen_lookup(rng, V)
    elif cls == "long_search":
        # searches of 64..130 steps (periodic bookkeeping, drift of accumulated scores), end-of-sequence unlikely
        V = rng.randint(2, 3)
        N = rng.randint(1, 3)
        width = rng.randint(1, 4)
        T = rng.choice([64, 65, 80, 128, 129, rng.randint(64, 130)])
        eos = _eos(rng, V)
        cb = _cbias(rng, V, N, spread=0.5)
        if eos is not None:
            for n in range(N):
                cb[n][eos % V] -= rng.choice([1.0, 2.0, 4.0])
        spec = _spec(rng, V, cbias=cb)
        case["cond"] = list(range(N))
    elif cls == "fusion":
        # the library's own state-carrying composite: two sub-models whose states travel in one dictionary
        width = rng.randint(1, 6)
        T = rng.randint(2, 5)
        subs = []
        for _ in range(2):
            subs.append({"lm": "rnn", "V": V, "hidden": rng.choice([8, 8, 8, 5]), "seed": rng.randrange(10 ** 9),
                         "scale": rng.choice([0.6, 1.0, 1.5]), "hseed": rng.randrange(10 ** 9)})
        if rng.random() < 0.25:
            subs[rng.randrange(2)] = _gen_lookup(rng, V)
        spec = {"lm": "fusion", "V": V, "first": subs[0], "second": subs[1],
                "beta": rng.choice([0.25, 0.5, 1.0, 2.0, -0.5]), "mixable": rng.random() < 0.5,
                "prefixes": rng.choice([None, None, ["a/", "b/"], ["f", "s"]])}
    if spec is None:
        C = 1 if N is None else N
        spec = _spec(rng, V, kind=kind, cbias=_cbias(rng, V, max(1, C), spread=1.0))
    if spec["lm"] == "hash" and "cond" not in case:
        C = len(spec["cbias"])
        if N is None:
            case["cond"] = rng.choice([None, [rng.randrange(C)]])
        else:
            case["cond"] = [rng.randrange(C + 2) for _ in range(N)]  # repeats and wrap-around allowed
    case.update(lm=spec, V=V, width=width, eos=eos, finish_all=fin, max_iters=T, batch=N)
    if eos is None and T is None:
        case["max_iters"] = 3
    return case


def _gen_lookup(rng, V):
    order = rng.randint(1, 3)
    sos = rng.choice([-1, V, 0])
    dicts = []
    uni = {}
    for v in range(V):
        uni[v] = [round(-rng.uniform(0.1, 4.0), 3), round(-rng.uniform(0.0, 1.5), 3)]
    if not 0 <= sos < V:
        uni[sos] = [-99.0, round(-rng.uniform(0.0, 1.5), 3)]
    dicts.append(uni)
    ctx = list(uni)
    prev_keys = [(k,) for k in ctx]
    for o in range(2, order + 1):
        d = {}
        for pk in prev_keys:
            for v in range(V):
                if rng.random() < 0.6:
                    key = pk + (v,)
                    lp = round(-rng.uniform(0.1, 4.0), 3)
                    d[key] = lp if o == order else [lp, round(-rng.uniform(0.0, 1.5), 3)]
        if not d:
            pk = prev_keys[0]
            d[pk + (0,)] = -1.0 if o == order else [-1.0, -0.5]
        dicts.append(d)
        prev_keys = list(d)
    if order == 1:
        dicts = [{k: v[0] for k, v in uni.items()}]
    # JSON: keys as lists
    return {"lm": "lookup", "V": V, "sos": sos,
            "dicts": [[[list(k) if isinstance(k, tuple) else [k], v] for k, v in d.items()] for d in dicts]}


def _gen_advance(rng, case):
    V = rng.randint(1, 5)
    N = rng.randint(1, 3)
    Kp = rng.randint(1, 5)
    S = rng.randint(0, 4)
    width = rng.choice([1, 2, Kp, Kp * V, Kp * V + 3, rng.randint(1, 12)])
    q = lambda x: round(x * 64) / 64
    lpt = [[[q(-rng.uniform(0, 6)) for _ in range(V)] for _ in range(Kp)] for _ in range(N)]
    lpp = [[q(-rng.uniform(0, 9)) for _ in range(Kp)] for _ in range(N)]
    for n in range(N):
        lpp[n].sort(reverse=True)
        if Kp > 1 and rng.random() < 0.4:
            for k in range(rng.randint(1, Kp - 1), Kp):
                lpp[n][k] = "-inf"
    y = [[[rng.randrange(V) for _ in range(Kp)] for _ in range(N)] for _ in range(S)]
    lens = None
    if rng.random() < 0.6:
        lens = [[rng.randint(0, S) for _ in range(Kp)] for _ in range(N)]
    case.update(V=V, width=width, lpt=lpt, lpp=lpp, y=y, lens=lens, S=S, N=N, Kp=Kp)
    return case


# --------------------------------------------------------------------------- hooks


def setup(mon):
    import pydrobert.torch._decoding as D

    if getattr(mon, "shard", 0) == -1:
        # inside the repository's test session some tests compile BeamSearch with TorchScript, which
        # cannot compile a Python wrapper: there the searches are judged on their results only
        return
    if getattr(D.beam_search_advance, "_vmon", False):
        return
    orig = D.beam_search_advance

    def recording_advance(log_probs_t, width, log_probs_prev, y_prev, y_prev_lens=None):
        out = orig(log_probs_t, width, log_probs_prev, y_prev, y_prev_lens)
        if _REC["on"]:
            _REC["steps"].append({
                "lpt": log_probs_t.detach().clone(), "width": int(width),
                "lpp": log_probs_prev.detach().clone(), "y_prev": y_prev.clone(),
                "lens_prev": None if y_prev_lens is None else y_prev_lens.clone(),
                "y_next": out[0].clone(), "lens_next": out[1].clone(),
                "lp_next": out[2].detach().clone(), "src": out[3].clone(),
            })
        return out

    recording_advance._vmon = True
    recording_advance._orig = orig
    D.beam_search_advance = recording_advance


def teardown(mon):
    import pydrobert.torch._decoding as D

    if getattr(D.beam_search_advance, "_vmon", False):
        D.beam_search_advance = D.beam_search_advance._orig


# --------------------------------------------------------------------------- step oracle


def _f(x):
    return float("-inf") if x == "-inf" else float(x)


def judge_step(mon, rec, where):
    """One prune/extend step: the new beam consists of the best candidates, best first, each
    new path is its source path plus one token, scored prefix + extension."""
    lpt, lpp = rec["lpt"], rec["lpp"]
    N, Kp, V = lpt.shape
    width = rec["width"]
    K = min(width, Kp * V)
    S = rec["y_prev"].size(0)
    y_next, lens_next, lp_next, src = rec["y_next"], rec["lens_next"], rec["lp_next"], rec["src"]
    mon.check(tuple(lens_next.shape) == (N, width) and tuple(lp_next.shape) == (N, width)
              and tuple(src.shape) == (N, width) and y_next.dim() == 3
              and tuple(y_next.shape[1:]) == (N, width) and y_next.size(0) in (S, S + 1),
              "step-shapes", where=where, y_next=list(y_next.shape), lens=list(lens_next.shape), S=S)
    cand = (lpp.unsqueeze(2) + lpt).flatten(1).tolist()
    ypl = rec["y_prev"].permute(1, 2, 0).tolist()  # [n][k] -> tokens
    ynl = y_next.permute(1, 2, 0).tolist()
    lens_prev = None if rec["lens_prev"] is None else rec["lens_prev"].tolist()
    lens_n, lp_n, src_n = lens_next.tolist(), lp_next.tolist(), src.tolist()
    reordered = False
    for n in range(N):
        chosen = []
        for k in range(width):
            s = lp_n[n][k]
            mon.check(s == s, "step-nan", where=where, n=n, k=k)
            if k >= K:
                mon.check(s == float("-inf"), "step-filler-minus-inf", where=where, n=n, k=k, observed=s)
                continue
            if k:
                mon.check(lp_n[n][k - 1] >= s, "step-best-first", where=where, n=n, k=k,
                          observed=lp_n[n][: k + 1])
            if s == float("-inf"):
                continue
            o = src_n[n][k]
            mon.check(0 <= o < Kp, "step-src-range", where=where, n=n, k=k, observed=o)
            plen = S if lens_prev is None else lens_prev[n][o]
            L = lens_n[n][k]
            mon.check(L == plen + 1 and L <= y_next.size(0), "step-length", where=where, n=n, k=k,
                      observed=L, expected=plen + 1)
            new = ynl[n][k][:L]
            tok = new[-1]
            mon.check(0 <= tok < V, "step-token-range", where=where, n=n, k=k, observed=tok)
            mon.check(new[:-1] == ypl[n][o][:plen], "step-prefix-follows-src", where=where, n=n, k=k,
                      observed=new, source_path=ypl[n][o][:plen], src=o)
            flat = o * V + tok
            mon.check(abs(cand[n][flat] - s) <= 1e-6 * max(1.0, abs(s)), "step-score", where=where, n=n, k=k,
                      observed=s, expected=cand[n][flat])
            chosen.append(flat)
            if o != k:
                reordered = True
        mon.check(len(set(chosen)) == len(chosen), "step-candidates-distinct", where=where, n=n,
                  observed=chosen)
        cs = set(chosen)
        rest = [c for j, c in enumerate(cand[n]) if j not in cs]
        worst = min([lp_n[n][k] for k in range(K)]) if K else float("inf")
        if len(chosen) < K:
            worst = float("-inf")
        best_rest = max(rest) if rest else float("-inf")
        mon.check(best_rest <= worst + 1e-6 * max(1.0, abs(worst)) if worst > float("-inf")
                  else best_rest == float("-inf"),
                  "step-chosen-are-best", where=where, n=n, worst_kept=worst, best_dropped=best_rest)
    return reordered


# --------------------------------------------------------------------------- models and scorers


class HashScorer:
    def __init__(self, spec, conds):
        self.ev = HT.Evaluator(spec)
        self.conds = conds

    def next_lp(self, n, path):
        return self.ev.next_log_probs(self.conds[n], path)

    def chain(self, n, path):
        return self.ev.chain(self.conds[n], path)


class OwnScorer:
    """The model's own chained log-probabilities of exactly that token sequence, evaluated from
    scratch on a batch of one (never re-using state the search produced)."""

    def __init__(self, lm, states):
        self.lm, self.states, self.memo = lm, states, {}

    def next_lp(self, n, path):
        import torch

        key = (n, tuple(path))
        if key not in self.memo:
            from pydrobert.torch.modules import SequentialLanguageModel

            hist = torch.tensor(list(path), dtype=torch.long).view(len(path), 1)
            # the chained definition itself: one calc_idx_log_probs call per position, state threaded
            # from the element's initial state (a model's batched full pass may be a different routine)
            prev = self.lm.update_input(dict(self.states[n]), hist)
            out = SequentialLanguageModel.calc_full_log_probs(self.lm, hist, prev)
            self.memo[key] = out[-1, 0].double().log_softmax(-1).tolist()
        return self.memo[key]

    def chain(self, n, path):
        path = tuple(path)
        return sum(self.next_lp(n, path[:s])[t] for s, t in enumerate(path))


def build_model(case, mon):
    """-> (lm, full initial state or None, per-element solo initial states, scorer, conds)"""
    import torch

    spec = case["lm"]
    N = case["batch"]
    n_el = 1 if N is None else N
    if spec["lm"] == "hash":
        lm = LM.make_hashlm(spec)
        if case.get("eos") is not None and case["V"] >= 2 and (case["width"] + case["V"]) % 3 == 0:
            lm.post_eos_zero = case["eos"] % case["V"]
            mon.cls("lm_forbids_eos_after_eos")
        if (case["width"] + 2 * case["V"] + n_el) % 3 == 1:
            lm.rebuild_state = True
            mon.cls("lm_rebuilds_start_state_on_every_update_input")
        cond = case.get("cond")
        conds = [0] * n_el if cond is None else list(cond)
        init = None if cond is None else lm.initial_state(cond)
        solo = [lm.initial_state([c]) for c in conds]
        return lm, init, solo, HashScorer(spec, conds), conds
    if spec["lm"] == "rnn":
        lm = LM.make_rnnlm(spec["V"], spec["hidden"], spec["seed"], spec["scale"])
        g = torch.Generator().manual_seed(spec["hseed"])
        h = torch.randn(n_el, spec["hidden"], generator=g)
        init = {"hidden": h}
        solo = [{"hidden": h[n:n + 1].clone()} for n in range(n_el)]
        return lm, init, solo, OwnScorer(lm, solo), None
    if spec["lm"] == "lookup":
        from pydrobert.torch.modules import LookupLanguageModel

        dicts = []
        for d in spec["dicts"]:
            dd = {}
            for k, v in d:
                key = k[0] if len(k) == 1 else tuple(k)
                dd[key] = tuple(v) if isinstance(v, list) else v
            dicts.append(dd)
        mon.ev("LookupLanguageModel.__init__")
        try:
            lm = LookupLanguageModel(spec["V"], spec["sos"], dicts)
        except IndexError as e:
            # defect D1 (property C06): n-gram tables of order >= 2 cannot be built; not C04's business
            mon.ood("lookup-model-unbuildable(C06/D1)")
            raise _Skip()
        solo = [dict() for _ in range(n_el)]
        return lm, None, solo, OwnScorer(lm, solo), None
    if spec["lm"] == "fusion":
        from pydrobert.torch import modules as M

        subs, init, solo = [], {}, [dict() for _ in range(n_el)]
        pre = spec["prefixes"] or ["first.", "second."]
        for sub, p in zip((spec["first"], spec["second"]), pre):
            lm_s, init_s, solo_s, _, _ = build_model(dict(case, lm=sub), mon)
            subs.append(lm_s)
            for k, v in (init_s or {}).items():
                init[p + k] = v
            for n in range(n_el):
                for k, v in solo_s[n].items():
                    solo[n][p + k] = v
        cls = M.MixableShallowFusionLanguageModel if spec["mixable"] else M.ExtractableShallowFusionLanguageModel
        kw = {} if spec["prefixes"] is None else dict(first_prefix=pre[0], second_prefix=pre[1])
        mon.ev(cls.__name__)
        lm = cls(subs[0], subs[1], spec["beta"], **kw)
        return lm, init, solo, OwnScorer(lm, solo), None
    raise ValueError(spec["lm"])


class _Skip(Exception):
    pass


# --------------------------------------------------------------------------- running a search


def run_search(mon, case, lm, init, batch, conds, label, warm=None):
    """Drive the real BeamSearch; returns the raw output, the recorded steps, the LM log.
    warm=(state, conds) : the SAME module object first runs a short single-element search (a history of
    calls with different batch sizes on one object), unrecorded, before the judged call."""
    from pydrobert.torch.modules import BeamSearch

    search = BeamSearch(lm, case["width"], case["eos"], case["finish_all"], case["pad_value"])
    # the search object (and the model inside it) after a deepcopy journey; the harness keeps talking to the copy's model
    search = LY.travelled(search, case["width"], case["V"], 0 if batch is None else batch, pickle_ok=False)
    lm = search.lm
    if (case["width"] + 3 * case["V"]) % 5 == 2:
        # restored from the checkpoint of a search over the same model built with OTHER settings: a checkpoint
        # carries the model's parameters, the search's own settings are the constructor's
        other = BeamSearch(lm, case["width"] + 1, None if case["eos"] is not None else 0, not case["finish_all"],
                           case["pad_value"] + 1)
        search.load_state_dict(other.state_dict())
        LY.TRAVEL_SEEN["state_dict(other settings)"] = LY.TRAVEL_SEEN.get("state_dict(other settings)", 0) + 1
    if warm is not None:
        _REC["on"] = False
        if hasattr(lm, "begin"):
            lm.begin(warm[1])
        st0 = None if warm[0] is None else {k: v.clone() for k, v in warm[0].items()}
        mon.lib("BeamSearch(warm-up call on the same object)", lambda: search(st0, 1, 2))
        mon.cls("module_object_reused")
    _REC["steps"], _REC["on"] = [], True
    if hasattr(lm, "begin"):
        lm.begin(conds)
    try:
        def call():
            state = None if init is None else {k: v.clone() for k, v in init.items()}
            return search(state, batch, case["_max_iters"])

        out = mon.lib("BeamSearch", call)
    finally:
        _REC["on"] = False
    steps, _REC["steps"] = _REC["steps"], []
    log = list(getattr(lm, "log", []))
    mon.ev("beam_search_advance(step hook)", len(steps))
    if hasattr(lm, "log"):
        mon.ev("HashLM.calc_idx_log_probs", len(log))
    return out, steps, log


def split_output(mon, case, out, batch, label):
    """-> per element: list of (path tuple, length, score) for every slot"""
    y, lens, lp = out
    width = case["width"]
    if batch is None:
        mon.check(y.dim() == 2 and tuple(lens.shape) == (width,) and tuple(lp.shape) == (width,)
                  and y.size(1) == width, "output-shape", label=label, y=list(y.shape),
                  lens=list(lens.shape), log_probs=list(lp.shape))
        y, lens, lp = y.unsqueeze(1), lens.unsqueeze(0), lp.unsqueeze(0)
    else:
        mon.check(y.dim() == 3 and tuple(y.shape[1:]) == (batch, width)
                  and tuple(lens.shape) == (batch, width) and tuple(lp.shape) == (batch, width),
                  "output-shape", label=label, y=list(y.shape), lens=list(lens.shape),
                  log_probs=list(lp.shape))
    S = y.size(0)
    yl = y.permute(1, 2, 0).tolist()
    ll, pl = lens.tolist(), lp.tolist()
    res = []
    for n in range(len(ll)):
        slots = []
        for k in range(width):
            L = ll[n][k]
            slots.append((tuple(yl[n][k][: max(0, min(L, S))]), L, pl[n][k]))
        res.append(slots)
    return res, S


def judge_element(mon, case, slots, S, scorer, n, label, ref=None):
    """Result-level oracle for one batch element.  Returns the finite slots."""
    V, eos = case["V"], case["_eos"]
    T = case["_max_iters"]
    det = dict(label=label, n=n)
    scores = [s for _, _, s in slots]
    mon.check(all(s == s and s < float("inf") for s in scores), "score-not-nan", observed=scores, **det)
    fin = [s > float("-inf") for s in scores]
    nf = sum(fin)
    mon.check(all(fin[:nf]) and not any(fin[nf:]), "minus-inf-at-end", observed=scores, **det)
    mon.check(nf >= 1, "at-least-one-path", observed=scores, **det)
    mon.check(all(scores[k] >= scores[k + 1] for k in range(nf - 1)), "best-first", observed=scores, **det)
    paths = []
    for k in range(nf):
        p, L, s = slots[k]
        mon.check(0 <= L <= S and L == len(p), "length-within-buffer", observed=L, buffer=S, k=k, **det)
        mon.check(all(0 <= t < V for t in p), "token-range", observed=p, k=k, **det)
        mon.check(L <= T, "length-within-step-limit", observed=L, max_iters=T, k=k, **det)
        if eos is None:
            mon.check(L == T, "length-is-step-count", observed=L, expected=T, k=k, **det)
        else:
            mon.check(eos not in p[:-1], "stops-at-first-eos", observed=p, eos=eos, k=k, **det)
        want = scorer.chain(n, p)
        mon.close(s, want, TOL, "score-is-chained-log-prob", rel=RTOL, path=p, k=k, **det)
        paths.append(p)
    mon.check(len(set(paths)) == len(paths), "paths-distinct", observed=paths, **det)
    # the full set when the width suffices and all paths run to completion
    if (eos is None or case["finish_all"]) and case["max_iters"] is not None:
        cnt = HT.n_complete(V, eos, T)
        if cnt <= case["width"]:
            mon.cls("exhaustive_condition")
            want = set(HT.complete_sequences(V, eos, T))
            mon.check(set(paths) == want, "exhaustive-set", observed=sorted(paths), expected=sorted(want),
                      missing=sorted(want - set(paths)), surplus=sorted(set(paths) - want), **det)
            tot = sum(math.exp(slots[k][2]) for k in range(nf))
            mon.close(tot, 1.0, 1e-4, "exhaustive-mass-is-one", **det)
    if ref is not None:
        beam, steps, tie, done = ref
        if not tie:
            got = [(slots[k][0], slots[k][2]) for k in range(nf)]
            ok = len(got) == len(beam) and {p for p, _ in got} == {p for p, _ in beam}
            mon.check(ok, "reference-beam-search", observed=got, expected=beam, steps=steps, **det)
            rs = dict(beam)
            for p, s in got:
                mon.close(s, rs[p], TOL, "reference-beam-search-score", rel=RTOL, path=p, **det)
            # order: equal up to exchanging paths whose scores are float32-indistinguishable
            for (p, s), (q, r) in zip(got, beam):
                mon.check(p == q or abs(rs[p] - r) <= 1e-4 * max(1.0, abs(r)), "reference-beam-search-order",
                          observed=[p for p, _ in got], expected=[q for q, _ in beam], **det)
    return nf


def judge_lm_log(mon, case, steps, log, label):
    """Offline verdict on HashLM's self-check: join the LM call log with the step log by call
    order; only rows whose slot had a finite score and whose element was not frozen count."""
    eos, fin_all = case["_eos"], case["finish_all"]
    mon.check(len(log) == len(steps), "lm-calls-match-steps", label=label, lm_calls=len(log),
              steps=len(steps))
    live_total = 0
    frozen_seen = False
    for i, (rec, st) in enumerate(zip(log, steps)):
        N, Kp = st["lpp"].shape
        mon.check(rec["rows"] == N * Kp, "lm-rows-match-beam", label=label, step=i, rows=rec["rows"],
                  beam=[N, Kp])
        mon.check(bool((rec["idx"] == i).all()), "lm-idx-is-step", label=label, step=i,
                  observed=rec["idx"])
        finite = (st["lpp"] > float("-inf"))
        frozen = [False] * N
        if eos is not None and i > 0:
            lens = st["lens_prev"]
            yp = st["y_prev"]
            last = yp.permute(1, 2, 0).gather(2, (lens - 1).clamp(min=0).unsqueeze(2)).squeeze(2)
            ended = (last == eos) & (lens > 0)
            for n in range(N):
                if fin_all:
                    frozen[n] = bool((ended[n] | ~finite[n]).all())
                else:
                    frozen[n] = bool(ended[n, 0])
        ok = rec["state_ok"].view(N, Kp)
        cok = rec["cond_ok"].view(N, Kp) if rec["cond_ok"] is not None else None
        for n in range(N):
            if frozen[n]:
                frozen_seen = True
                mon.stat("lm-rows-of-frozen-elements", Kp)
                mon.stat("lm-rows-of-frozen-elements-stale", int((~ok[n]).sum()))
                continue
            live = finite[n]
            nl = int(live.sum())
            live_total += nl
            mon.stat("lm-rows-filler", Kp - nl)
            mon.stat("lm-rows-filler-stale", int((~ok[n] & ~live).sum()))
            bad = live & ~ok[n]
            mon.check(not bool(bad.any()), "lm-state-follows-path", label=label, step=i, n=n,
                      slots=bad.nonzero().flatten(), state=rec["h"].view(N, Kp)[n],
                      expected_state=rec["want"].view(N, Kp)[n],
                      histories=rec["hist"].view(rec["hist"].size(0), N, Kp)[:, n].t())
            if cok is not None:
                badc = live & ~cok[n]
                mon.check(not bool(badc.any()), "lm-conditioning-follows-element", label=label, step=i,
                          n=n, observed=rec["cond"].view(N, Kp)[n])
    mon.ev("lm-state-live-rows", live_total)
    if frozen_seen:
        mon.cls("frozen_while_others_run")


# --------------------------------------------------------------------------- execute


def execute(case, mon):
    if case.get("kind") == "live":
        return _exec_live(case, mon)
    if case["class"] == "advance_direct":
        return _exec_advance(case, mon)
    try:
        lm, init, solo, scorer, conds = build_model(case, mon)
    except _Skip:
        return
    V = case["V"]
    case = dict(case)
    eos = case["eos"]
    case["_eos"] = None if eos is None else eos % V
    if eos is not None and eos < 0:
        mon.cls("negative_eos_index")
    N = case["batch"]
    n_el = 1 if N is None else N
    width = case["width"]
    # reference search per element; also tells whether an open-ended search ends by itself
    T = case["max_iters"]
    Tref = OPEN_CAP if T is None else T
    refs = [_reference(scorer, n, V, width, case["_eos"], case["finish_all"], Tref) for n in range(n_el)]
    any_tie = any(r[2] for r in refs)
    if T is None:
        if all(r[3] and not r[2] for r in refs):
            case["_max_iters"], limit = None, max(r[1] for r in refs)
            mon.cls("max_iters_unset")
        else:
            case["_max_iters"], limit = OPEN_CAP, OPEN_CAP
            mon.stat("open-ended-replaced-by-cap")
    else:
        case["_max_iters"], limit = T, T
    if any_tie:
        mon.ambiguous("tie-at-pruning-boundary")
    steps_n = tuple(r[1] for r in refs)
    mon.observe("finish-steps", steps_n)
    if max(steps_n) - min(steps_n) >= 2:
        mon.cls("finish_spread>=2")
    if width > V:
        mon.cls("width>V")

    warm = None
    if N is not None and N > 1 and (width + V + N) % 2 == 0:
        warm = (solo[0] if (init is not None or conds is None) else None, None if conds is None else [conds[0]])
    out, steps, log = run_search(mon, case, lm, init, N, conds, "batched", warm=warm)
    jcase = dict(case)
    jcase["_max_iters"] = limit if case["_max_iters"] is None else case["_max_iters"]
    res, S = split_output(mon, case, out, N, "batched")
    reordered = False
    for i, st in enumerate(steps):
        reordered = judge_step(mon, st, "batched step %d" % i) or reordered
    mon.stat("steps-beyond-reference" if len(steps) > max(steps_n) else "steps-as-reference")
    if any(bool((st["lpp"] == float("-inf")).any()) for st in steps) or \
            any(s == float("-inf") for el in res for _, _, s in el):
        mon.cls("filler_slots")
    mon.observe("src-trajectory", hash(tuple(tuple(map(tuple, st["src"].tolist())) for st in steps)))
    if spec_is_hash(case):
        judge_lm_log(mon, case, steps, log, "batched")
    for n in range(n_el):
        judge_element(mon, jcase, res[n], S, scorer, n, "batched", None if refs[n][2] else refs[n])
    if reordered:
        mon.cls("reordered")
    else:
        mon.trivial()
    # batch independence: every element searched alone
    for n in range(n_el):
        c1 = None if conds is None else [conds[n]]
        out1, steps1, log1 = run_search(mon, case, lm, solo[n] if (init is not None or conds is None) else None,
                                        1, c1, "solo %d" % n)
        res1, S1 = split_output(mon, case, out1, 1, "solo %d" % n)
        if spec_is_hash(case):
            judge_lm_log(mon, case, steps1, log1, "solo %d" % n)
        for i, st in enumerate(steps1):
            judge_step(mon, st, "solo %d step %d" % (n, i))
        if refs[n][2]:
            continue
        a, b = res[n], res1[0]
        same = all(
            (sa == sb == float("-inf")) or (pa == pb and la == lb and abs(sa - sb) <= 1e-5 * max(1.0, abs(sb)))
            for (pa, la, sa), (pb, lb, sb) in zip(a, b))
        mon.check(same, "batch-independence", n=n, batched=a, alone=b, finish_steps=steps_n)


def spec_is_hash(case):
    return case["lm"]["lm"] == "hash"


def _reference(scorer, n, V, width, eos, fin_all, T):
    """Textbook dictionary beam search of element n (vmon/oracles/c04_hashtable.py)."""
    return HT.textbook_beam_search(lambda p: scorer.next_lp(n, p), V, width, eos, fin_all, T)


def _exec_advance(case, mon):
    import torch
    import pydrobert.torch.functional as F

    lpt = torch.tensor(case["lpt"], dtype=torch.float32).view(case["N"], case["Kp"], case["V"])
    lpp = torch.tensor([[_f(x) for x in r] for r in case["lpp"]], dtype=torch.float32)
    y = torch.tensor(case["y"], dtype=torch.long).view(case["S"], case["N"], case["Kp"])
    lens = None if case["lens"] is None else torch.tensor(case["lens"], dtype=torch.long)
    # The filler branch (width > old_width * V) combined with prefixes that are all shorter than the
    # buffer raises inside the step function (it pads with S+1 rows although the buffer did not grow).
    # BeamSearch can never produce that combination (fillers only arise at step 0, where S = 0), so the
    # property does not speak about it: recorded as an out-of-domain observation, never an alarm.
    unreachable = (case["width"] > case["Kp"] * case["V"] and lens is not None and case["S"] > 0
                   and max(max(r) for r in case["lens"]) < case["S"])
    out = mon.lib("beam_search_advance",
                  lambda: F.beam_search_advance(lpt.clone(), case["width"], lpp.clone(), y.clone(),
                                                None if lens is None else lens.clone()),
                  documented=(RuntimeError,) if unreachable else ())
    if unreachable:
        mon.stat("advance-filler-branch-without-growth-returned")
    rec = {"lpt": lpt, "width": case["width"], "lpp": lpp, "y_prev": y, "lens_prev": lens,
           "y_next": out[0], "lens_next": out[1], "lp_next": out[2], "src": out[3]}
    re = judge_step(mon, rec, "direct")
    if case["width"] > case["Kp"] * case["V"]:
        mon.cls("filler_slots")
    if not re:
        mon.trivial()


# --------------------------------------------------------------------------- mechanism B: repository tests
# (thorough tier) every BeamSearch call made by the repository's own tests is judged on the output the
# test itself received; the scoring oracle is the test model's own full forward pass.
PYTEST_FILES = ["tests/test_decoding.py"]
PYTEST_ARGS = ["-k", "beam_search"]
_LIVE = {"n": 0}


def hook_case(module, args, kwargs, output):
    import torch

    if type(module).__name__ != "BeamSearch" or torch.jit.is_tracing() or torch.jit.is_scripting():
        return None
    init = args[0] if len(args) > 0 else kwargs.get("initial_state", kwargs.get("initial_state_"))
    batch = args[1] if len(args) > 1 else kwargs.get("batch_size")
    T = args[2] if len(args) > 2 else kwargs.get("max_iters")
    if T is None or module.lm.vocab_size > 64 or module.width > 32:
        return None
    _LIVE["n"] += 1
    _LIVE["cur"] = {"id": _LIVE["n"], "module": module, "init": init, "output": output}
    return {"kind": "live", "call": _LIVE["n"], "V": int(module.lm.vocab_size), "width": int(module.width),
            "eos": module.eos, "finish_all": bool(module.finish_all_paths), "max_iters": int(T),
            "batch": batch, "lm": {"lm": type(module.lm).__name__}}


def _exec_live(case, mon):
    import torch

    live = _LIVE.get("cur")
    if live is None or live["id"] != case["call"]:
        mon.ood("live-object-unavailable(replay of an observed repo-test call)")
        return
    mon.ev("BeamSearch(observed)")
    search, init, out = live["module"], live["init"] or {}, live["output"]
    N = case["batch"]
    n_el = 1 if N is None else N
    states = [{k: v[n:n + 1] for k, v in init.items()} for n in range(n_el)]
    jcase = dict(case, _eos=case["eos"], _max_iters=case["max_iters"])
    with torch.no_grad():
        scorer = OwnScorer(search.lm, states)
        res, S = split_output(mon, jcase, out, N, "observed")
        V, width = case["V"], case["width"]
        for n in range(n_el):
            ref = None
            if V * width * case["max_iters"] <= 6000:
                ref = _reference(scorer, n, V, width, case["eos"], case["finish_all"], case["max_iters"])
                if ref[2]:
                    mon.ambiguous("tie-at-pruning-boundary")
                    ref = None
            judge_element(mon, jcase, res[n], S, scorer, n, "observed", ref)
