"""Workload generator and driver helpers shared by C15 and C16 (training controller).

Everything a case needs is concrete and JSON-able: the controller configuration, the
metric sequences (on the grid k/8 < 100: exact in binary and in the 5-digit scientific
format of the history file), the user entries with their per-epoch values.
"""
import math
import os
import tempfile

from ..oracles import c15_controller as ref


def scratch_dir(prefix):
    """Per-case scratch directory: $TMPDIR if set, else the tmpfs /dev/shm when writable (thousands
    of tiny create/rename/unlink operations per case; a journalled disk shared with other checks
    makes them the bottleneck), else the default temp dir.  Process-death semantics (what another
    reader sees is what survives) are the same on all of them."""
    base = os.environ.get("TMPDIR") or None
    if base is None and os.path.isdir("/dev/shm") and os.access("/dev/shm", os.W_OK | os.X_OK):
        base = "/dev/shm"
    return tempfile.mkdtemp(prefix=prefix, dir=base)

THRESHOLDS = [0.0, 0.125, 0.25, 0.5, 1.0, 2.0]
EXACT_FACTORS = [0.5, 0.1, 0.2]
GENERAL_FACTORS = [0.3, 0.7, 0.9, 0.25, 0.333, 0.05, 0.61]
SHAPES = ["random", "monotone_down", "monotone_up", "slippery", "plateau", "exact_threshold", "sawtooth", "touch_zero"]
STR_ALPHABET = ["a", "B", "z", " ", ",", '"', "'", ";", "0", "-", "x,y", '""', "#", "\n", "p\nq"]


def grid(rng, lo=0.0, hi=99.875):
    return rng.randint(int(lo * 8), int(hi * 8)) / 8.0


def gen_metrics(rng, shape, n, thr):
    """Validation metrics, n values on the grid; `thr` is the threshold the hostile shapes aim at."""
    t = thr if thr > 0 else 0.5
    if shape == "random":
        lo = grid(rng, 0, 90)
        return [min(99.875, lo + rng.randint(0, 24) / 8.0) for _ in range(n)]
    if shape == "monotone_down":
        v, out = grid(rng, 40, 99), []
        for _ in range(n):
            out.append(v)
            v = max(0.0, v - rng.choice([0.125, 0.25, t, 2 * t, 3.0]))
        return out
    if shape == "monotone_up":
        v, out = grid(rng, 0, 40), []
        for _ in range(n):
            out.append(v)
            v = min(99.875, v + rng.choice([0.0, 0.125, t, 1.0]))
        return out
    if shape == "slippery":
        # every step improves, but by less than the threshold
        step = rng.choice([s for s in (0.125, 0.25, 0.5, 1.0) if s < t] or [0.125])
        v, out = grid(rng, 40, 99), []
        for _ in range(n):
            out.append(v)
            v = max(0.0, v - step)
        return out
    if shape == "plateau":
        v, out = grid(rng, 1, 99), []
        for _ in range(n):
            out.append(v)
            if rng.random() < 0.3:
                v = max(0.0, min(99.875, v + rng.choice([-2 * t, -t, t, -0.125, 0.125])))
        return out
    if shape == "exact_threshold":
        # improvements exactly equal to the threshold, mixed with just-below ones
        v, out = grid(rng, 50, 99), []
        for _ in range(n):
            out.append(v)
            v = max(0.0, v - rng.choice([t, t, t - 0.125 if t > 0.125 else 0.0, 0.0]))
        return out
    if shape == "sawtooth":
        v, out = grid(rng, 20, 80), []
        for i in range(n):
            out.append(v)
            v = max(0.0, min(99.875, v + (rng.choice([t, 1.0, 0.125]) if i % 2 == 0 else -rng.choice([t, 2 * t, 0.125, 1.5]))))
        return out
    if shape == "touch_zero":
        # the metric reaches exactly 0 and hovers there (a value that is falsy, not "missing")
        v, out = rng.choice([0.25, 0.75, 1.0, 2.0]), []
        for _ in range(n):
            out.append(v)
            v = rng.choice([0.0, 0.0, 0.0, 0.125, t, 0.25])
        return out
    raise ValueError(shape)


def gen_cfg(rng, exact_lr, max_epochs):
    cfg = {
        "num_epochs": rng.choice([None, None, rng.randint(1, max_epochs), max_epochs, max_epochs + 3]),
        "es_threshold": rng.choice(THRESHOLDS),
        "es_patience": rng.randint(1, 3),
        "es_burnin": rng.randint(0, 3),
        "rlr_threshold": rng.choice(THRESHOLDS[1:] + [0.0]),
        "rlr_patience": rng.randint(1, 3),
        "rlr_burnin": rng.randint(0, 3),
        "rlr_cooldown": rng.randint(0, 2),
        "factor": rng.choice(EXACT_FACTORS if exact_lr else GENERAL_FACTORS),
        "log10_eps": rng.choice([-8, -8, -3, -2, -1.5]),
        "log10_lr": rng.choice([None, None, -1, -2, -3, 0, 0.0] if exact_lr else [None, -1, -2.5, -0.3, 0.0]),
        "opt_lr": rng.choice([0.1, 0.5, 1.0, 0.25] if exact_lr else [0.1, 0.03, 0.7, 1.7]),
    }
    return cfg


def lr0_of(cfg):
    return 10 ** cfg["log10_lr"] if cfg["log10_lr"] is not None else cfg["opt_lr"]


def lr_class(cfg, vals):
    """'exact' iff every rate of the reference run is (to 1e-12) a 5-digit number, so that a
    rate re-read from the history file continues identically; None if the negligible-change
    decision is too close to call (generator then re-draws)."""
    steps = ref.run(cfg, lr0_of(cfg), vals)
    exact = True
    for s in steps:
        if s["margin"] is not None:
            d, eps = s["margin"]
            if abs(d - eps) <= 1e-2 * max(d, eps):
                return None
        lr = s["lr"]
        if abs(float("%.4e" % lr) - lr) > 1e-12 * lr:
            exact = False
    if abs(float("%.4e" % lr0_of(cfg)) - lr0_of(cfg)) > 1e-12 * lr0_of(cfg):
        exact = False
    return "exact" if exact else "general"


def gen_entries(rng, n):
    """User entries: [name, type name, format, values]."""
    out = []
    for j in range(rng.choice([0, 0, 1, 2, 3])):
        typ = rng.choice(["int", "float", "str"])
        name = "u%d_%s" % (j, typ)
        if typ == "int":
            fmt = rng.choice(["{}", "{:04d}", "{:d}"])
            vals = [rng.randint(-50, 5000) for _ in range(n)]
        elif typ == "float":
            fmt = rng.choice(["{}", "{:.3f}", "{:.4e}", "{!r}"])
            vals = [rng.randint(-800, 800) / 8.0 for _ in range(n)]
            if fmt == "{}" and rng.random() < 0.5:
                vals = [rng.uniform(-3, 3) for _ in range(n)]  # repr round-trips exactly
        else:
            fmt = "{}"
            vals = ["".join(rng.choice(STR_ALPHABET) for _ in range(rng.randint(0, 5))) for _ in range(n)]
        out.append([name, typ, fmt, vals])
    return out


def gen_history(rng, n_max, exact_lr=True, shape=None, force=None, want_general=False):
    """A configuration + metric history of at most n_max epochs (shorter if the reference stops)."""
    for _ in range(2000):
        cfg = gen_cfg(rng, exact_lr, n_max)
        if force:
            cfg.update(force)
        sh = shape or rng.choice(SHAPES)
        thr = rng.choice([cfg["es_threshold"], cfg["rlr_threshold"]])
        val = gen_metrics(rng, sh, n_max, thr)
        cls = lr_class(cfg, val)
        if cls is None or (exact_lr and cls != "exact") or (want_general and cls != "general"):
            continue
        train = [grid(rng) for _ in range(n_max)]
        return {"cfg": cfg, "val": val, "train": train, "shape": sh, "lr_class": cls,
                "entries": gen_entries(rng, n_max)}
    raise RuntimeError("generator could not draw a history")


# --------------------------------------------------------------------------
# driving the real controller


TYPES = {"int": int, "float": float, "str": str}


def make_params(T, cfg, keep2=True, model_fmt=None, optim_fmt=None):
    kw = dict(
        early_stopping_threshold=cfg["es_threshold"], early_stopping_patience=cfg["es_patience"],
        early_stopping_burnin=cfg["es_burnin"], reduce_lr_threshold=cfg["rlr_threshold"],
        reduce_lr_patience=cfg["rlr_patience"], reduce_lr_burnin=cfg["rlr_burnin"],
        reduce_lr_cooldown=cfg["rlr_cooldown"], reduce_lr_factor=cfg["factor"],
        reduce_lr_log10_epsilon=cfg["log10_eps"], keep_last_and_best_only=keep2,
    )
    if cfg["num_epochs"] is not None:
        kw["num_epochs"] = cfg["num_epochs"]
    if cfg["log10_lr"] is not None:
        kw["log10_learning_rate"] = cfg["log10_lr"]
    if model_fmt is not None:
        kw["saved_model_fmt"] = model_fmt
    if optim_fmt is not None:
        kw["saved_optimizer_fmt"] = optim_fmt
    return T.TrainingStateParams(**kw)


def make_model_opt(cfg, groups=1):
    import torch

    model = torch.nn.Linear(1, 1)
    ps = list(model.parameters())
    if groups == 2:
        pg = [{"params": [ps[0]]}, {"params": [ps[1]]}]
    else:
        pg = ps
    opt = torch.optim.SGD(pg, lr=cfg["opt_lr"], momentum=0.5)
    return model, opt


def train_to(model, opt, e):
    """'Train' one epoch: afterwards every weight is e and every momentum buffer e + 0.5, so that
    the epoch a checkpoint stems from can be read off the tensors."""
    import torch

    ps = list(model.parameters())
    if any("momentum_buffer" not in opt.state.get(p, {}) or opt.state[p]["momentum_buffer"] is None for p in ps):
        lrs = [g["lr"] for g in opt.param_groups]
        opt.zero_grad()
        model(torch.ones(1, 1)).sum().backward()
        opt.step()
        opt.zero_grad()
        for g, lr in zip(opt.param_groups, lrs):
            g["lr"] = lr
    with torch.no_grad():
        for p in ps:
            p.fill_(float(e))
            opt.state[p]["momentum_buffer"].fill_(float(e) + 0.5)


def epoch_of_model(model):
    """Which epoch do these weights stem from? (None if they are not uniform integers)"""
    vals = set()
    for p in model.parameters():
        vals.update(p.detach().reshape(-1).tolist())
    if len(vals) == 1:
        v = vals.pop()
        if v == int(v):
            return int(v)
    return None


def epoch_of_opt(opt):
    vals = set()
    for g in opt.param_groups:
        for p in g["params"]:
            st = opt.state.get(p, {})
            mb = st.get("momentum_buffer")
            if mb is None:
                vals.add("missing")
            else:
                vals.update(mb.detach().reshape(-1).tolist())
    if len(vals) == 1:
        v = vals.pop()
        if v != "missing" and v - 0.5 == int(v - 0.5):
            return int(v - 0.5)
    return None


def user_kwargs(hist, e):
    return {name: vals[e - 1] for name, typ, fmt, vals in hist["entries"]}


def add_entries(ctrl, hist):
    for name, typ, fmt, vals in hist["entries"]:
        ctrl.add_entry(name, TYPES[typ], fmt)


def same_float(a, b, rel):
    if a is None or b is None:
        return a is b
    if isinstance(a, float) and math.isinf(a) or isinstance(b, float) and math.isinf(b):
        return a == b
    return abs(a - b) <= rel * abs(b)
