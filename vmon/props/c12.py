"""C12 - data-directory validation accepts exactly well-formed directories; fixes stick;
the statistics report is the recount; sos/eos are put around every transcript and stripped
again by write_hyp.

Mechanism A (boundary contract) around ``data.validate_spect_data_set``,
``command_line.get_torch_spect_data_dir_info``, ``SpectDataSet.__getitem__`` and
``SpectDataSet.write_hyp``; the oracle is the directory model of
``vmon/oracles/c12_dirmodel.py``.  Every step of a history is judged from a *snapshot of the
directory as it is on disk before the step* (all tensor files re-read by the harness), so a
history may have any length and continue after a failed repair.
"""
import hashlib
import os
import shutil
import tempfile
import traceback
import warnings

from ..oracles import c12_dirmodel as DM

ID = "C12"
LEVEL = "exploration"
RULE = (
    "class-directed random directory models (1-5 utterances, <=8 frames, widths 1-3, optional ali/, ref/ "
    "absent/1-D/2-D) with a multiset of injected defects (feature dtype/width/rank, alignment dtype/rank/"
    "length +-j, reference dtype/rank/width, half-open boundaries, end = T+j, start>end, start>T, mixed "
    "1-D/2-D, non-tensors), tolerances 0..3, non-default prefix/suffix/sub-directories, stray files, "
    "subset ids, materialised in a scratch directory and driven through a history of strict/fix/info/read "
    "steps through the Python entry point and the command line; a case is distinct by the hash of its "
    "concrete model and history and non-trivial if the data set it describes has at least one utterance"
)
ASSUMPTIONS = [
    "oracle: directory model with well_formed/repair/recount written from the documented numbered lists",
    "condition 1 (CPU tensors) is not exercised: no other device exists in the sandbox",
    "which of int8/int16 count as 'bytes or 32-bit integers' for the up-cast is left open: both readings accepted",
    "rcount_<i> of a class owning an empty segment may be -1 or the sum (documentation does not settle it)",
    "the report of an ill-formed directory is not guaranteed by the documentation and is not judged",
    "token ids non-negative (quantifier); negative ids and validation through sos/eos/tokens_only views are observations",
    "sos/eos distinct from each other and from every stored token id for the write_hyp round trip",
]
BUDGET = {
    "quick": dict(cases=330, shards=4, timeout=600),
    "thorough": dict(cases=3000, shards=16, timeout=3000),
}
CLASSES = [
    "wellformed", "single_fixable", "single_unfixable", "pair_fixable_first", "pair_fixable_last",
    "pair_both_fixable", "multi", "same_file_combo", "tolerance_edge", "discovery", "subset",
    "small_int", "info_stats", "info_all_empty_refs", "read_1d", "read_2d", "read_empty",
    "hyp_junk", "cli_fix", "neg_token", "view_validate",
]
_JUDGED = ["wf", "ill_repairable", "ill_unrepairable", "fix_ok", "fix_raised", "fix_partial_then_raise",
           "empty_transcript_read", "refs_all_empty_report", "fix0_cli"]
FLOORS = {
    "quick": {
        "events": {"validate_spect_data_set": 1500, "get-torch-spect-data-dir-info": 700,
                   "SpectDataSet.__getitem__": 1200, "SpectDataSet.write_hyp": 600,
                   "assert:strict-iff-wellformed": 900, "assert:fix-iff-repairable": 700,
                   "assert:fix-on-disk": 300, "assert:fix-failed-on-disk": 100,
                   "assert:fix-idempotent": 150, "assert:info-values": 500,
                   "assert:read-sos-eos": 600, "assert:hyp-roundtrip": 500},
        "classes": dict({c: 40 for c in CLASSES},
                        **{"wf": 300, "ill_repairable": 150, "ill_unrepairable": 150, "fix_ok": 200,
                           "fix_raised": 100, "fix_partial_then_raise": 15, "empty_transcript_read": 60,
                           "refs_all_empty_report": 30, "fix0_cli": 20}),
        "sets": {"repairs": 10, "defects": 40},
        "distinct": 800,
    },
    "thorough": {
        "events": {"validate_spect_data_set": 20000, "get-torch-spect-data-dir-info": 10000,
                   "SpectDataSet.__getitem__": 20000, "SpectDataSet.write_hyp": 10000},
        "classes": dict({c: 600 for c in CLASSES},
                        **{"wf": 5000, "ill_repairable": 2500, "ill_unrepairable": 2500,
                           "fix_partial_then_raise": 200, "empty_transcript_read": 1000,
                           "refs_all_empty_report": 500, "fix0_cli": 300}),
        "sets": {"repairs": 12, "defects": 100},
        "distinct": 12000,
    },
}

# ======================================================================== generation

# ids that end in characters of the usual suffix (".pt") next to their own stems, ids ending in a dot
_UTT_POOL = ["a", "b", "c", "utt1", "utt2", "utt10", "x-1", "k.d", "Z", "m_n", "ta", "tap", "at", "x.", "p", "utt1.p"]


def _feat(rng, T, F, dtype):
    if dtype.startswith("int"):
        data = [[rng.randint(-3, 3) for _ in range(F)] for _ in range(T)]
    else:
        data = [[rng.randint(-6, 6) * 0.5 for _ in range(F)] for _ in range(T)]
    return DM.tspec(dtype, [T, F], data)


def _ali_data(rng, n, maxc):
    out, cur = [], rng.randint(0, maxc)
    for _ in range(n):
        if rng.random() < 0.5:
            cur = rng.randint(0, maxc)
        out.append(cur)
    return out


def _row(rng, T, maxr, kind=None):
    tok = rng.randint(0, maxr)
    kind = kind or rng.choice(["unk", "unk2", "in", "in", "in", "empty", "full", "atT", "zero"])
    if kind == "unk":
        return [tok, -1, -1]
    if kind == "unk2":
        return [tok, -rng.randint(1, 5), -rng.randint(1, 5)]
    if kind == "empty":
        s = rng.randint(0, T)
        return [tok, s, s]
    if kind == "full":
        return [tok, 0, T]
    if kind == "atT":
        return [tok, T, T]
    if kind == "zero":
        return [tok, 0, 0]
    s = rng.randint(0, T)
    return [tok, s, rng.randint(s, T)]


def _ref(rng, mode, T, maxr, R=None):
    R = rng.choice([0, 0, 1, 2, 3, 5]) if R is None else R
    if mode == "1d":
        return DM.tspec("int64", [R], [rng.randint(0, maxr) for _ in range(R)])
    return DM.tspec("int64", [R, 3], [_row(rng, T, maxr) for _ in range(R)])


def _base(rng, tier, n=None, ali=None, ref=None, maxc=None, maxr=None, fdt=None, R=None, minT=0):
    big = tier == "thorough"
    n = n or rng.randint(1, 6 if big else 5)
    F = rng.randint(1, 3)
    fdt = fdt or rng.choice(["float32"] * 4 + ["float64", "int64"])
    ali = (rng.random() < 0.7) if ali is None else ali
    ref = ref or rng.choice(["none", "1d", "2d", "2d", "2d"])
    maxc = maxc if maxc is not None else rng.choice([1, 3, 11])
    maxr = maxr if maxr is not None else rng.choice([2, 4, 12])
    utts = sorted(rng.sample(_UTT_POOL, n))
    model = {"prefix": "", "suffix": ".pt", "dirs": {"feat": "feat", "ali": "ali", "ref": "ref"},
             "subset": None, "files": {"feat": {}}}
    if ali:
        model["files"]["ali"] = {}
    if ref != "none":
        model["files"]["ref"] = {}
    for u in utts:
        T = rng.choice([0, 1, 2, 3, 4, 5, 6, 8] + ([10, 12] if big else []))
        T = max(T, minT)
        fn = u + ".pt"
        model["files"]["feat"][fn] = _feat(rng, T, F, fdt)
        if ali:
            model["files"]["ali"][fn] = DM.tspec("int64", [T], _ali_data(rng, T, maxc))
        if ref != "none":
            model["files"]["ref"][fn] = _ref(rng, ref, T, maxr, R)
    return model, utts, dict(maxc=maxc, maxr=maxr, ref=ref, ali=ali, F=F, fdt=fdt)


FIXABLE = ["ali_int32", "ali_uint8", "ali_long_le_k", "ref_int32", "ref_uint8", "ref_halfopen",
           "ref_halfopen_far", "ref_end_le_k"]
UNFIXABLE = ["feat_dtype", "feat_width", "feat_1d", "feat_3d", "feat_py", "ali_short", "ali_long_gt_k",
             "ali_float", "ali_bool", "ali_2d", "ali_py", "ref_float", "ref_start_gt_end", "ref_end_gt_k",
             "ref_start_over", "ref_width", "ref_mixed", "ref_3d", "ref_py"]
SMALL_INT = ["ali_int8", "ali_int16", "ref_int8", "ref_int16"]


def _nonneg_rows(rng, spec, T, maxr):
    rows = []
    for tok, s, e in spec["data"]:
        if s < 0 or e < 0:
            tok2, s, e = _row(rng, T, maxr, "in")
        rows.append([tok, s, e])
    return rows


def _inject(rng, model, utt, kind, k, meta):
    """Inject one defect into the files of `utt`; False if the kind does not apply here."""
    f = model["files"]
    fn = model["prefix"] + utt + model["suffix"]
    dirs = model["dirs"]
    feat = f[dirs["feat"]][fn]
    T = DM.frames(feat)
    part = kind.split("_")[0]
    if part == "feat":
        if not DM.is_tensor(feat) or T is None:
            return False
        F = feat["shape"][1]
        if kind == "feat_dtype":
            new = "float64" if feat["dtype"] != "float64" else "float32"
            f[dirs["feat"]][fn] = _feat(rng, T, F, new)
        elif kind == "feat_width":
            f[dirs["feat"]][fn] = _feat(rng, T, F + rng.choice([1, 2]), feat["dtype"])
        elif kind == "feat_1d":
            f[dirs["feat"]][fn] = DM.tspec(feat["dtype"], [max(T, 1)], [0.5] * max(T, 1) if not feat["dtype"].startswith("int") else [1] * max(T, 1))
        elif kind == "feat_3d":
            f[dirs["feat"]][fn] = DM.tspec(feat["dtype"], [T, F, 1], [[[v] for v in r] for r in feat["data"]])
        elif kind == "feat_py":
            f[dirs["feat"]][fn] = {"py": [1, 2, 3]}
        return True
    if T is None:
        return False
    if part == "ali":
        name = dirs.get("ali")
        if not name or name not in f or fn not in f[name]:
            return False
        ali = f[name][fn]
        if not DM.is_tensor(ali) or DM.ndim(ali) != 1:
            return False
        n = ali["shape"][0]
        data = list(ali["data"])
        if kind in ("ali_int32", "ali_uint8", "ali_int8", "ali_int16", "ali_bool"):
            if ali["dtype"] != "int64":
                return False
            if kind == "ali_bool":
                data = [bool(v % 2) for v in data]
            f[name][fn] = DM.tspec(kind[4:], [n], data)
        elif kind == "ali_float":
            f[name][fn] = DM.tspec("float32", [n], [float(v) for v in data])
        elif kind == "ali_long_le_k":
            if k < 1:
                return False
            j = rng.randint(1, k)
            f[name][fn] = DM.tspec(ali["dtype"], [n + j], data + _ali_data(rng, j, meta["maxc"]))
        elif kind == "ali_long_gt_k":
            j = k + rng.randint(1, 2)
            f[name][fn] = DM.tspec(ali["dtype"], [n + j], data + _ali_data(rng, j, meta["maxc"]))
        elif kind == "ali_short":
            if n < 1:
                return False
            j = rng.randint(1, min(n, 3))
            f[name][fn] = DM.tspec(ali["dtype"], [n - j], data[: n - j])
        elif kind == "ali_2d":
            f[name][fn] = DM.tspec(ali["dtype"], [n, 1], [[v] for v in data])
        elif kind == "ali_py":
            f[name][fn] = {"py": data}
        return True
    # references
    name = dirs.get("ref")
    if not name or name not in f or fn not in f[name]:
        return False
    ref = f[name][fn]
    if not DM.is_tensor(ref) or DM.ndim(ref) not in (1, 2):
        return False
    two = DM.ndim(ref) == 2
    R = ref["shape"][0]
    if two and ref["shape"][1] != 3 and kind in ("ref_3d", "ref_mixed", "ref_width"):
        return False  # already carries a width defect: the shape-changing injections assume width 3
    if kind in ("ref_int32", "ref_int8", "ref_int16"):
        if ref["dtype"] != "int64":
            return False
        f[name][fn] = DM.tspec(kind[4:], ref["shape"], ref["data"])
    elif kind == "ref_uint8":
        if ref["dtype"] != "int64" or (two and ref["shape"][1] != 3):
            return False
        data = _nonneg_rows(rng, ref, T, meta["maxr"]) if two else ref["data"]
        f[name][fn] = DM.tspec("uint8", ref["shape"], data)
    elif kind == "ref_float":
        data = [[float(v) for v in r] for r in ref["data"]] if two else [float(v) for v in ref["data"]]
        f[name][fn] = DM.tspec("float32", ref["shape"], data)
    elif kind == "ref_py":
        f[name][fn] = {"py": ref["data"]}
    elif kind == "ref_3d":
        f[name][fn] = DM.tspec(ref["dtype"], [R, 1, 1] if not two else [R, 3, 1],
                               [[[v]] for v in ref["data"]] if not two else [[[v] for v in r] for r in ref["data"]])
    elif kind == "ref_mixed":
        if two:
            f[name][fn] = DM.tspec(ref["dtype"], [R], [r[0] for r in ref["data"]])
        else:
            f[name][fn] = DM.tspec(ref["dtype"], [R, 3], [[t, -1, -1] for t in ref["data"]])
    elif kind == "ref_width":
        if not two:
            return False
        w = rng.choice([2, 4, 1])
        rows = [(list(r) + [-1] * w)[:w] for r in ref["data"]]
        f[name][fn] = DM.tspec(ref["dtype"], [R, w], rows)
    else:
        if not two or ref["shape"][1] != 3 or ref["dtype"] not in ("int64", "int32", "int16", "int8"):
            return False
        tok = rng.randint(0, meta["maxr"])
        if kind == "ref_halfopen":
            s = rng.randint(0, T)
            row = [tok, -1, rng.randint(s, T)] if rng.random() < 0.5 else [tok, s, -rng.randint(1, 3)]
        elif kind == "ref_halfopen_far":
            row = [tok, -1, T + rng.randint(1, 6)] if rng.random() < 0.5 else [tok, T + rng.randint(1, 6), -1]
        elif kind == "ref_end_le_k":
            if k < 1:
                return False
            row = [tok, rng.randint(0, T), T + rng.randint(1, k)]
        elif kind == "ref_end_gt_k":
            row = [tok, rng.randint(0, T), T + k + rng.randint(1, 2)]
        elif kind == "ref_start_over":
            s = T + rng.randint(1, 2)
            row = [tok, s, s + rng.randint(0, 1)]
        elif kind == "ref_start_gt_end":
            if T < 1:
                return False
            s = rng.randint(1, T)
            row = [tok, s, rng.randint(0, s - 1)]
        else:
            return False
        rows = [list(r) for r in ref["data"]]
        if rows and rng.random() < 0.5:
            rows[rng.randrange(len(rows))] = row
        else:
            rows.insert(rng.randint(0, len(rows)), row)
        f[name][fn] = DM.tspec(ref["dtype"], [len(rows), 3], rows)
    return True


def _inject_any(rng, model, utts, kinds, k, meta, utt=None):
    kinds = list(kinds)
    rng.shuffle(kinds)
    order = [utt] if utt else rng.sample(utts, len(utts))
    for kind in kinds:
        for u in order:
            if _inject(rng, model, u, kind, k, meta):
                return kind, u
    return None, None


def _read_step(rng, meta, junk=False, force=None):
    maxr = meta["maxr"]
    if rng.random() < 0.1:
        sos, eos = -1, -2
    else:
        sos = maxr + rng.randint(1, 3)
        eos = sos + rng.randint(1, 3)
    which = force or rng.choice(["both", "both", "both", "sos", "eos", "none"])
    step = {"op": "read", "sos": sos if which in ("both", "sos") else None,
            "eos": eos if which in ("both", "eos") else None,
            "tokens_only": rng.random() < 0.3, "suppress_alis": rng.random() < 0.3,
            "suppress_uttids": rng.random() < 0.5,
            "hyp": "junk" if junk else rng.choice(["as_read", "as_read", "int32", "float", "junk"]),
            "hyp_dir": rng.choice(["explicit", "explicit", "default"]),
            "by": rng.choice(["index", "id"]), "junk_seed": rng.randrange(1 << 30)}
    return step


def _history(rng, k, meta, shape=None):
    shape = shape or rng.choice("AABCD")
    strict, info0, infos = {"op": "strict"}, {"op": "info", "flag": None}, {"op": "info", "flag": "strict"}
    api = {"op": "fix", "k": k, "via": "api"}
    cli = {"op": "fix", "k": k, "via": "cli"}
    read = _read_step(rng, meta)
    if shape == "A":
        return [strict, api, strict, api, info0, read]
    if shape == "B":
        return [{"op": "fix", "k": max(0, k - 1), "via": "api"}, cli, infos, read]
    if shape == "C":
        return [infos, cli, strict, info0, read]
    return [strict, api, infos, {"op": "fix", "k": k + 1, "via": rng.choice(["api", "cli"])}, strict, read]


def generate(rng, tier, i):
    cls = CLASSES[i % len(CLASSES)]
    k = rng.choice([0, 1, 1, 2, 3])
    case = {"class": cls, "k": k}
    if cls == "wellformed":
        model, utts, meta = _base(rng, tier)
        steps = _history(rng, k, meta)
    elif cls in ("single_fixable", "single_unfixable"):
        model, utts, meta = _base(rng, tier, ali=rng.random() < 0.8, ref=rng.choice(["1d", "2d", "2d", "2d"]), n=rng.randint(2, 5))
        kind, u = _inject_any(rng, model, utts, FIXABLE if cls == "single_fixable" else UNFIXABLE, k, meta)
        case["defects"] = [[kind, u]]
        steps = _history(rng, k, meta)
    elif cls in ("pair_fixable_first", "pair_fixable_last", "pair_both_fixable", "multi"):
        model, utts, meta = _base(rng, tier, ali=True, ref="2d", n=rng.randint(2, 5))
        first, last = utts[0], utts[-1]
        if cls == "pair_fixable_first":
            plan = [(FIXABLE, first), (UNFIXABLE, last)]
        elif cls == "pair_fixable_last":
            plan = [(UNFIXABLE, first), (FIXABLE, last)]
        elif cls == "pair_both_fixable":
            plan = [(FIXABLE, first), (FIXABLE, last)]
        else:
            plan = [(rng.choice([FIXABLE, FIXABLE, UNFIXABLE]), None) for _ in range(rng.randint(3, 4))]
        case["defects"] = [list(_inject_any(rng, model, utts, kinds, k, meta, utt=u)) for kinds, u in plan]
        steps = _history(rng, k, meta)
    elif cls == "same_file_combo":
        model, utts, meta = _base(rng, tier, ali=True, ref="2d", n=rng.randint(1, 4))
        u = rng.choice(utts)
        combo = rng.choice([
            ["ref_int32", "ref_halfopen"], ["ref_int32", "ref_end_le_k"], ["ali_int32", "ali_long_le_k"],
            ["ali_uint8", "ali_long_gt_k"], ["ref_int32", "ref_start_gt_end"], ["ref_halfopen", "ref_end_le_k"],
            ["ref_halfopen", "ref_end_gt_k"], ["ali_int32", "ref_start_over"], ["ali_long_le_k", "ref_float"],
            ["ref_halfopen", "ref_halfopen_far", "ref_end_le_k"], ["ali_int32", "ali_2d"],
        ])
        case["defects"] = [[kd, u] for kd in combo if _inject(rng, model, u, kd, k, meta)]
        steps = _history(rng, k, meta)
    elif cls == "tolerance_edge":
        model, utts, meta = _base(rng, tier, ali=True, ref="2d", n=rng.randint(1, 3), minT=1)
        case["defects"] = []
        for u in utts:
            which = rng.choice(["ali", "ref", "both"])
            j = rng.choice([max(1, k - 1), max(k, 1), k + 1])
            fn = u + ".pt"
            T = model["files"]["feat"][fn]["shape"][0]
            if which in ("ali", "both"):
                a = model["files"]["ali"][fn]
                model["files"]["ali"][fn] = DM.tspec("int64", [T + j], a["data"] + _ali_data(rng, j, meta["maxc"]))
                case["defects"].append(["ali_long_%d" % j, u])
            if which in ("ref", "both"):
                j = rng.choice([max(1, k - 1), max(k, 1), k + 1])
                r = model["files"]["ref"][fn]
                s = rng.choice([0, T, T, rng.randint(0, T)])
                rows = r["data"] + [[rng.randint(0, meta["maxr"]), s, T + j]]
                model["files"]["ref"][fn] = DM.tspec("int64", [len(rows), 3], rows)
                case["defects"].append(["ref_end_%d" % j, u])
        steps = [{"op": "strict"}, {"op": "fix", "k": max(0, k - 1), "via": "api"}, {"op": "fix", "k": k, "via": rng.choice(["api", "cli"])},
                 {"op": "fix", "k": k + 1, "via": "api"}, {"op": "strict"}, {"op": "info", "flag": "strict"}]
    elif cls == "discovery":
        model, utts, meta = _base(rng, tier, ali=rng.random() < 0.8, ref=rng.choice(["none", "1d", "2d", "2d"]), n=rng.randint(2, 5))
        _rename(rng, model, utts, meta, k, case)
        steps = _history(rng, k, meta)
    elif cls == "subset":
        model, utts, meta = _base(rng, tier, ali=rng.random() < 0.7, ref=rng.choice(["1d", "2d", "2d"]), n=rng.randint(2, 5))
        keep = sorted(rng.sample(utts, rng.randint(1, len(utts) - 1)))
        model["subset"] = keep + (["not-there"] if rng.random() < 0.3 else [])
        out = [u for u in utts if u not in keep]
        case["defects"] = [list(_inject_any(rng, model, out, UNFIXABLE + FIXABLE, k, meta))]
        if rng.random() < 0.5:
            case["defects"].append(list(_inject_any(rng, model, keep, FIXABLE + UNFIXABLE[:4], k, meta)))
        steps = [s for s in _history(rng, k, meta, rng.choice("AD")) if s["op"] != "info" and s.get("via") != "cli"]
    elif cls == "small_int":
        model, utts, meta = _base(rng, tier, ali=True, ref=rng.choice(["1d", "2d"]), n=rng.randint(1, 4))
        case["defects"] = [list(_inject_any(rng, model, utts, SMALL_INT, k, meta))]
        if rng.random() < 0.4:
            case["defects"].append(list(_inject_any(rng, model, utts, FIXABLE, k, meta)))
        steps = _history(rng, k, meta)
    elif cls == "info_stats":
        maxc = rng.choice([1, 9, 10, 11, 101])
        maxr = rng.choice([3, 9, 10, 12, 100])
        model, utts, meta = _base(rng, tier, ali=rng.random() < 0.85, ref=rng.choice(["1d", "2d", "2d", "2d", "none"]),
                                  maxc=maxc, maxr=maxr, n=rng.randint(1, 5), R=None)
        if rng.random() < 0.7:
            # make sure the largest class ids are really there so that the zero padding is exercised
            fn = utts[-1] + ".pt"
            if "ali" in model["files"] and model["files"]["ali"][fn]["shape"][0] > 0:
                model["files"]["ali"][fn]["data"][-1] = maxc
            if "ref" in model["files"]:
                r = model["files"]["ref"][fn]
                T = model["files"]["feat"][fn]["shape"][0]
                rows = r["data"] + ([maxr] if DM.ndim(r) == 1 else [[maxr, 0, T]])
                model["files"]["ref"][fn] = DM.tspec("int64", [len(rows)] + r["shape"][1:], rows)
        steps = [{"op": "info", "flag": None}, {"op": "info", "flag": "strict"}, {"op": "fix", "k": k, "via": "cli"},
                 _read_step(rng, meta)]
    elif cls == "info_all_empty_refs":
        mode = rng.choice(["1d", "2d"])
        model, utts, meta = _base(rng, tier, ali=rng.random() < 0.5, ref=mode, n=rng.randint(1, 4), R=0)
        steps = [{"op": "strict"}, {"op": "info", "flag": None}, {"op": "info", "flag": "strict"},
                 {"op": "fix", "k": k, "via": "cli"}, _read_step(rng, meta, force="both")]
    elif cls in ("read_1d", "read_2d", "read_empty", "hyp_junk"):
        mode = {"read_1d": "1d", "read_2d": "2d"}.get(cls) or rng.choice(["1d", "2d"])
        model, utts, meta = _base(rng, tier, ali=rng.random() < 0.6, ref=mode, n=rng.randint(1, 4),
                                  R=0 if (cls == "read_empty" and rng.random() < 0.5) else None)
        if cls == "read_empty":
            fn = rng.choice(utts) + ".pt"
            model["files"]["ref"][fn] = _ref(rng, mode, 0, meta["maxr"], R=0)
        force = "both" if cls == "read_empty" else None
        steps = [{"op": "strict"}] + [_read_step(rng, meta, junk=(cls == "hyp_junk"), force=force) for _ in range(3)]
    elif cls == "cli_fix":
        model, utts, meta = _base(rng, tier, ali=True, ref="2d", n=rng.randint(1, 4))
        k = case["k"] = rng.choice([0, 0, 0, 1, 2])
        case["defects"] = [list(_inject_any(rng, model, utts, FIXABLE, k, meta)) for _ in range(rng.randint(1, 2))]
        if rng.random() < 0.25:
            case["defects"].append(list(_inject_any(rng, model, utts, UNFIXABLE, k, meta)))
        via = rng.choice(["cli", "cli", "cli", "cli_default", "bool"])
        kk = 1 if via in ("cli_default", "bool") else k
        steps = [{"op": "fix", "k": kk, "via": via}, {"op": "strict"}, {"op": "info", "flag": "strict"},
                 {"op": "fix", "k": kk, "via": "cli" if via == "bool" else via}, _read_step(rng, meta)]
    elif cls == "neg_token":
        model, utts, meta = _base(rng, tier, ref=rng.choice(["1d", "2d"]), n=rng.randint(1, 3), R=rng.randint(1, 3))
        fn = rng.choice(utts) + ".pt"
        r = model["files"]["ref"][fn]
        if DM.ndim(r) == 1:
            r["data"][0] = -rng.randint(1, 3)
        else:
            r["data"][0][0] = -rng.randint(1, 3)
        steps = [{"op": "observe_validate", "k": None}, {"op": "observe_validate", "k": k}]
    else:  # view_validate
        model, utts, meta = _base(rng, tier, ref=rng.choice(["1d", "2d"]), n=rng.randint(1, 3))
        if rng.random() < 0.5:
            _inject_any(rng, model, utts, ["ref_int32", "ref_halfopen"], k, meta)
        steps = [{"op": "observe_validate", "k": rng.choice([None, k]), "eos": meta["maxr"] + 1,
                  "sos": rng.choice([None, meta["maxr"] + 2]), "tokens_only": rng.random() < 0.4}]
    for d in model["files"].values():
        for fn in d:
            d[fn] = _canonical(d[fn])
    case["model"] = model
    case["steps"] = steps
    return case


def _canonical(spec):
    """Values as the dtype will hold them (stacked defects may have mixed ints into bool/uint8/float data)."""
    if not DM.is_tensor(spec):
        return spec
    dt = spec["dtype"]
    conv = bool if dt == "bool" else (lambda v: int(v) % 256) if dt == "uint8" else float if dt.startswith("float") else int

    def walk(x):
        return [walk(v) for v in x] if isinstance(x, list) else conv(x)

    return DM.tspec(dt, spec["shape"], walk(spec["data"]))


def _rename(rng, model, utts, meta, k, case):
    """Non-default names, stray files, utterances missing from one directory, ignored directories."""
    prefix = rng.choice(["", "p_", "feats-", "x"])
    suffix = rng.choice([".pt", ".pt", "", ".t7"])
    names = rng.choice([{"feat": "feat", "ali": "ali", "ref": "ref"}, {"feat": "f", "ali": "a", "ref": "r"},
                        {"feat": "mfcc", "ali": "pdf-ids", "ref": "text"}])
    files = {}
    for role, sub in (("feat", "feat"), ("ali", "ali"), ("ref", "ref")):
        if sub in model["files"]:
            files[names[role]] = {prefix + fn[:-3] + suffix: spec for fn, spec in model["files"][sub].items()}
    model["files"] = files
    model["prefix"], model["suffix"] = prefix, suffix
    model["dirs"] = dict(names)
    case["defects"] = []
    tweaks = rng.sample(["stray", "missing_ali", "missing_ref", "ignored_ali", "empty_ali_dir", "extra_dir",
                         "defect_in", "unnamed_ref"], rng.randint(2, 4))
    for tw in tweaks:
        if tw == "stray" and (prefix or suffix):
            for sub in list(files):
                nm = ("zz" + rng.choice(utts) + suffix) if prefix and not "zz".startswith(prefix[:1]) else None
                if nm is None and suffix:
                    nm = prefix + rng.choice(utts) + ".junk"
                if nm and not (nm.startswith(prefix) and nm.endswith(suffix)):
                    files[sub][nm] = rng.choice([DM.tspec("int32", [2, 2], [[1, 2], [3, 4]]), {"py": "junk"},
                                                 DM.tspec("float64", [3], [0.5, 1.0, 2.0])])
        elif tw in ("missing_ali", "missing_ref") and len(utts) > 1:
            sub = names[tw[-3:]]
            u = rng.choice(utts)
            fn = prefix + u + suffix
            if sub in files and fn in files[sub] and len(files[sub]) > 1:
                del files[sub][fn]
                # whatever is wrong with the rest of this utterance no longer matters
                kind, _ = _inject_any(rng, model, [u], ["feat_1d", "feat_width", "feat_py", "ali_float", "ref_width"], k, meta)
                case["defects"].append([kind, u, "excluded"])
        elif tw == "ignored_ali" and names["ali"] in files:
            kind, u = _inject_any(rng, model, utts, ["ali_float", "ali_2d", "ali_short"], k, meta)
            model["dirs"]["ali"] = None
            case["defects"].append([kind, u, "ignored"])
        elif tw == "empty_ali_dir" and names["ali"] not in files:
            files[names["ali"]] = {}
            if prefix or suffix:
                nm = "other.junk" if suffix != "" else None
                if nm and not (nm.startswith(prefix) and nm.endswith(suffix)):
                    files[names["ali"]][nm] = DM.tspec("float32", [1], [1.0])
        elif tw == "extra_dir":
            files["pdfs"] = {prefix + utts[0] + suffix: DM.tspec("float32", [1, 2], [[0.5, 1.0]])}
        elif tw == "defect_in":
            kind, u = _inject_any(rng, model, utts, FIXABLE + UNFIXABLE, k, meta)
            case["defects"].append([kind, u])
        elif tw == "unnamed_ref" and names["ref"] in files and rng.random() < 0.5:
            kind, u = _inject_any(rng, model, utts, ["ref_float", "ref_width", "ref_mixed"], k, meta)
            model["dirs"]["ref"] = None
            case["defects"].append([kind, u, "ignored"])


# ======================================================================== execution

_DT = None


def _dt():
    global _DT
    if _DT is None:
        import torch

        _DT = {n: getattr(torch, n) for n in ("float32", "float64", "float16", "int64", "int32", "int16", "int8", "uint8", "bool")}
    return _DT


def _to_obj(spec):
    import torch

    if not DM.is_tensor(spec):
        return spec["py"]
    return torch.tensor(spec["data"], dtype=_dt()[spec["dtype"]]).reshape(spec["shape"])


def _to_spec(obj):
    import torch

    if isinstance(obj, torch.Tensor):
        return DM.tspec(str(obj.dtype).split(".")[-1], list(obj.shape), obj.tolist())
    return {"py": obj if isinstance(obj, (list, str, int, float, dict)) else repr(obj)}


def _materialise(model, root):
    import torch

    for sub, files in model["files"].items():
        os.makedirs(os.path.join(root, sub))
        for fn, spec in files.items():
            torch.save(_to_obj(spec), os.path.join(root, sub, fn))


_CACHE = {}


def _snapshot(root):
    """Every file of the directory re-read by the harness: ({sub: {fn: spec}}, {sub/fn: sha1}).
    Files whose bytes were seen before in this case are not unpickled again."""
    import io

    import torch

    files, hashes = {}, {}
    for sub in sorted(os.listdir(root)):
        p = os.path.join(root, sub)
        if not os.path.isdir(p):
            files.setdefault(".", {})[sub] = {"py": "<file at top level>"}
            continue
        files[sub] = {}
        for fn in sorted(os.listdir(p)):
            q = os.path.join(p, fn)
            with open(q, "rb") as fh:
                raw = fh.read()
            h = hashes[sub + "/" + fn] = hashlib.sha1(raw).hexdigest()
            if h not in _CACHE:
                _CACHE[h] = _to_spec(torch.load(io.BytesIO(raw)))
            files[sub][fn] = _CACHE[h]
    return files, hashes


def _names(files):
    return sorted(sub + "/" + fn for sub, d in files.items() for fn in d)


class _Ctx:
    pass


def _scratch_parent():
    """Shards put their per-case scratch directory inside the runner's own temporary directory
    (the one holding --out), which the parent removes even when the watchdog kills a shard."""
    import sys

    if "--out" in sys.argv[:-1]:
        d = os.path.dirname(os.path.abspath(sys.argv[sys.argv.index("--out") + 1]))
        if os.path.isdir(d) and os.path.basename(d).startswith("vmon-"):
            return d
    return None


def execute(case, mon):
    import torch  # noqa: F401
    from pydrobert.torch import command_line, data

    scratch = tempfile.mkdtemp(prefix="vmon-c12-", dir=_scratch_parent())
    _CACHE.clear()
    cx = _Ctx()
    cx.mon, cx.data, cx.cl, cx.case = mon, data, command_line, case
    cx.scratch, cx.root = scratch, os.path.join(scratch, "data")
    cx.out = os.path.join(scratch, "info.txt")
    try:
        with warnings.catch_warnings():
            warnings.simplefilter("ignore")
            os.makedirs(cx.root)
            _materialise(case["model"], cx.root)
            cx.model = dict(case["model"])
            cx.files, cx.hashes = _snapshot(cx.root)
            for sub, d in case["model"]["files"].items():
                for fn, spec in d.items():
                    if not DM.same(cx.files[sub][fn], spec):
                        raise RuntimeError("harness: materialised %s/%s differs from the model" % (sub, fn))
            cx.model["files"] = cx.files
            d = DM.discover(cx.model)
            if not d["utts"]:
                mon.trivial()
            mon.observe("defects", repr(sorted({(w[1], w[2].split(" ")[0]) for w in DM.reasons(cx.model)})))
            cx.history = []
            for n, step in enumerate(case["steps"]):
                _STEP[step["op"]](cx, step, n)
                cx.files, cx.hashes = _snapshot(cx.root)
                cx.model = dict(cx.model, files=cx.files)
            mon.observe("histories", case["class"] + ":" + ">".join(cx.history))
    finally:
        shutil.rmtree(scratch, ignore_errors=True)


def _make_ds(cx, model=None, **kw):
    model = model or cx.model
    data = cx.data
    sos, eos = kw.pop("sos", None), kw.pop("eos", None)
    if (sos is not None or eos is not None) and ((sos or 0) + (eos or 0)) % 3 == 1:
        # the symbols through the data set's own (deprecated, still supported) keywords instead of the parameter object
        params = data.SpectDataParams(subset_ids=list(model.get("subset") or []))
        kw.update(sos=sos, eos=eos)
        cx.mon.stat("sos_eos_by_deprecated_keywords")
    else:
        params = data.SpectDataParams(subset_ids=list(model.get("subset") or []), sos=sos, eos=eos)
    kw.setdefault("suppress_alis", False)
    kw.setdefault("tokens_only", False)
    return data.SpectDataSet(
        cx.root, file_prefix=model["prefix"], file_suffix=model["suffix"], feat_subdir=model["dirs"]["feat"],
        ali_subdir=model["dirs"]["ali"], ref_subdir=model["dirs"]["ref"], params=params, **kw)


def _has_nontensor(cx):
    return any(not DM.is_tensor(cx.model["files"][sub][fn]) for sub, fn in DM.members(cx.model))


def _validate(cx, fix, **kw):
    mon = cx.mon
    ds = _make_ds(cx, **kw)
    mon.ev("validate_spect_data_set")
    try:
        cx.data.validate_spect_data_set(ds, fix)
        return True, None
    except ValueError as e:
        return False, str(e)[:300]
    except Exception as e:
        if _has_nontensor(cx):
            # stored objects that are not tensors are outside the quantifier: any rejection will do
            mon.stat("nontensor_member_rejected_with:" + type(e).__name__)
            return False, "%s: %s" % (type(e).__name__, str(e)[:200])
        mon.fail("raised:validate_spect_data_set", exception=type(e).__name__, message=str(e)[:300],
                 fix=fix, traceback=traceback.format_exc(limit=-5), reasons=DM.reasons(cx.model))


def _cli_args(cx, flag=None, k=None):
    m = cx.model
    args = [cx.root, cx.out, "--file-prefix", m["prefix"], "--file-suffix", m["suffix"],
            "--feat-subdir", m["dirs"]["feat"],
            "--ali-subdir", m["dirs"]["ali"] or "no-such-ali-dir",
            "--ref-subdir", m["dirs"]["ref"] or "no-such-ref-dir"]
    if flag == "strict":
        args.append("--strict")
    elif flag == "fix":
        args += ["--fix", str(k)]
    elif flag == "fix_default":
        args += ["--fix"]
    if m["prefix"] == "" and cx.case["k"] % 2:
        # half of the cases with the default (empty) prefix rely on the command's own default
        del args[2:4]
    return args


def _info(cx, flag=None, k=None):
    """-> (ok, message, lines)"""
    mon = cx.mon
    if os.path.exists(cx.out):
        os.remove(cx.out)
    mon.ev("get-torch-spect-data-dir-info")
    try:
        rc = cx.cl.get_torch_spect_data_dir_info(_cli_args(cx, flag, k))
    except ValueError as e:
        return False, str(e)[:300], None
    except Exception as e:
        if _has_nontensor(cx):
            mon.stat("nontensor_member_rejected_with:" + type(e).__name__)
            return False, "%s: %s" % (type(e).__name__, str(e)[:200]), None
        mon.fail("raised:get-torch-spect-data-dir-info", exception=type(e).__name__, message=str(e)[:300],
                 flag=flag, k=k, traceback=traceback.format_exc(limit=-5), reasons=DM.reasons(cx.model))
    mon.check(rc == 0, "info-exit", observed=rc, flag=flag)
    with open(cx.out) as f:
        return True, None, f.read().split("\n")


def _check_report(cx, lines, model, after=""):
    """Clause 3: the report is the recount of the stored tensors, keys sorted, zero-filled."""
    mon = cx.mon
    mon.check(lines and lines[-1] == "", "info-format", observed=lines[-3:], what="file ends with a newline")
    lines = lines[:-1]
    table, keys = {}, []
    for ln in lines:
        parts = ln.split(" ")
        ok = len(parts) == 2 and parts[1].lstrip("-").isdigit()
        mon.check(ok, "info-format", observed=ln)
        table[parts[0]] = int(parts[1])
        keys.append(parts[0])
    mon.check(keys == sorted(keys) and len(set(keys)) == len(keys), "info-sorted", observed=keys)
    exact, either = DM.recount(model)
    d = DM.discover(model)
    if not d["utts"]:
        exact.pop("num_filts", None)
        table.pop("num_filts", None)
        if d["has_ref"]:
            either["total_tokens"] = {exact.pop("total_tokens"), -1}
    want_keys = sorted(set(exact) | set(either))
    mon.check(sorted(table) == want_keys, "info-keys", observed=sorted(table), expected=want_keys, after=after)
    bad = {k2: [table[k2], v] for k2, v in exact.items() if table[k2] != v}
    bad.update({k2: [table[k2], sorted(v)] for k2, v in either.items() if table[k2] not in v})
    refs_all_empty = bool(d["has_ref"] and d["utts"] and exact.get("total_tokens") == 0)
    if refs_all_empty:
        mon.cls("refs_all_empty_report")
    mon.check(not bad, "info-values", observed_vs_expected=bad, after=after,
              refs_present=bool(d["has_ref"]), sum_R=exact.get("total_tokens"), reported_total_tokens=table.get("total_tokens"))
    if either:
        mon.stat("rcount_of_class_with_empty_segment", len(either))
    mon.stat("report_keys", len(table))


# ---- steps


def _step_strict(cx, step, n):
    mon = cx.mon
    why = DM.reasons(cx.model)
    # `fix=False` is the legacy spelling of "no tolerance" (as `True` is of tolerance 1): every other strict step (by step index and corpus size)
    legacy = (n + len(DM.members(cx.model))) % 2 == 1
    if legacy:
        mon.stat("strict_spelt_fix_False")
    ok, msg = _validate(cx, False if legacy else None)
    mon.cls("wf" if not why else "ill")
    cx.history.append("S+" if ok else "S-")
    mon.check(ok == (not why), "strict-iff-wellformed", observed="passed" if ok else "raised: %s" % msg,
              expected="passes" if not why else "raises", reasons=why[:6], step=n)
    files, hashes = _snapshot(cx.root)
    mon.check(hashes == cx.hashes, "strict-writes-nothing",
              changed=[k for k in set(hashes) | set(cx.hashes) if hashes.get(k) != cx.hashes.get(k)], step=n)


def _fix_matches(cand, ok, model, before, after, bh, ah):
    """Does what was observed agree with this reading of the documentation?  -> (bool, detail)"""
    if cand["ok"] != ok:
        return False, {"outcome": "passed" if ok else "raised", "expected": "passes" if cand["ok"] else "raises",
                       "why": cand["why"][:6]}
    if _names(before) != _names(after):
        return False, {"files": _names(after), "expected_files": _names(before)}
    for sub, d in before.items():
        for fn, spec in d.items():
            key = (sub, fn)
            obs = after[sub][fn]
            if key in cand["per_file"]:
                want = cand["per_file"][key]
                rem = cand["removed"].get(key, ())
                if ok:
                    if not DM.same_repaired(obs, want, rem):
                        return False, {"file": sub + "/" + fn, "observed": obs, "expected": want, "before": spec}
                elif not (DM.same(obs, spec) or (want is not None and DM.same_repaired(obs, want, rem))):
                    return False, {"file": sub + "/" + fn, "observed": obs, "before": spec,
                                   "repaired_would_be": want, "after_failed_fix": True}
            elif not DM.same(obs, spec) or (key not in cand["members"] and bh[sub + "/" + fn] != ah[sub + "/" + fn]):
                return False, {"file": sub + "/" + fn, "observed": obs, "expected_unchanged": spec, "other_file": True}
    return True, None


def _step_fix(cx, step, n):
    mon = cx.mon
    k, via = step["k"], step["via"]
    model = cx.model
    was_wf = DM.well_formed(model)
    cands = []
    for up in (DM.UPCAST_WIDE, DM.UPCAST_NARROW):
        c = DM.repair(model, k, up)
        c["members"] = set(DM.members(model))
        if c["ok"] and not DM.well_formed(c["model"]):
            raise RuntimeError("oracle: repaired model is not well-formed: %r" % DM.reasons(c["model"]))
        cands.append(c)
    same_reading = cands[0]["ok"] == cands[1]["ok"] and all(
        (a is None and b is None) or (a is not None and b is not None and DM.same(a, b))
        for a, b in ((cands[0]["per_file"][key], cands[1]["per_file"][key]) for key in cands[0]["per_file"]))
    if same_reading:
        cands = cands[:1]
    else:
        mon.ambiguous("int8/int16 up-cast is not settled by the documentation")
    lines = None
    if via == "api":
        ok, msg = _validate(cx, k)
    elif via == "bool":
        ok, msg = _validate(cx, True)
    else:
        ok, msg, lines = _info(cx, "fix_default" if via == "cli_default" else "fix", k)
        if k == 0:
            mon.cls("fix0_cli")
    after, ah = _snapshot(cx.root)
    verdicts = [_fix_matches(c, ok, model, cx.files, after, cx.hashes, ah) for c in cands]
    good = [c for c, (m, _) in zip(cands, verdicts) if m]
    cx.history.append(("F%d%s" % (k, via[0])) + ("+" if ok else "-"))
    exp = cands[0]
    mon.cls("wf" if was_wf else ("ill_repairable" if exp["ok"] else "ill_unrepairable"))
    detail = verdicts[0][1] or {}
    common = dict(k=k, via=via, step=n, message=msg)
    # clause 2, outcome
    mon.check(any(c["ok"] == ok for c in cands), "fix-iff-repairable", observed="passed" if ok else "raised",
              expected="passes" if exp["ok"] else "raises", why=exp["why"][:6], **common)
    # clause 2, what is on disk afterwards
    if ok:
        mon.cls("fix_ok")
        mon.check(bool(good), "fix-on-disk", detail=detail, repairs=exp["repairs"], **common)
        mon.observe("repairs", "+".join(good[0]["repairs"]) or "none")
        for r in good[0]["repairs"]:
            mon.stat("repair:" + r)
        if was_wf:
            mon.check(all(DM.same(after[s][f], cx.files[s][f]) for s in cx.files for f in cx.files[s]),
                      "fix-idempotent", detail=detail, **common)
            if ah != cx.hashes:
                mon.stat("rewrote_identical_content")
    else:
        mon.cls("fix_raised")
        mon.check(bool(good), "fix-failed-on-disk", detail=detail, **common)
        if any(not DM.same(after[s][f], cx.files[s][f]) for s in cx.files for f in cx.files[s]):
            mon.cls("fix_partial_then_raise")
    if lines is not None and ok:
        _check_report(cx, lines, dict(model, files=after), after="--fix %s" % k)


def _step_info(cx, step, n):
    mon = cx.mon
    if cx.model.get("subset"):
        return
    why = DM.reasons(cx.model)
    if why and step["flag"] is None:
        mon.stat("info_on_illformed_not_judged")
        return
    ok, msg, lines = _info(cx, step["flag"])
    cx.history.append("I+" if ok else "I-")
    if step["flag"] == "strict":
        mon.cls("wf" if not why else "ill")
        mon.check(ok == (not why), "strict-iff-wellformed", observed="passed" if ok else "raised: %s" % msg,
                  expected="passes" if not why else "raises", reasons=why[:6], step=n, via="--strict")
    else:
        mon.check(ok, "info-raised-on-valid", message=msg, step=n)
    files, hashes = _snapshot(cx.root)
    mon.check(hashes == cx.hashes, "strict-writes-nothing", via="info", step=n,
              changed=[k for k in set(hashes) | set(cx.hashes) if hashes.get(k) != cx.hashes.get(k)])
    if ok:
        _check_report(cx, lines, cx.model)


def _junk(rng, step, two_d, width):
    """(pre, post): pre holds no eos, post no sos - every reading of the stripping rule agrees."""
    import random

    r = random.Random(step["junk_seed"] + rng)
    sos, eos = step["sos"], step["eos"]

    def sym(avoid):
        while True:
            v = r.randint(0, 20)
            if v != avoid:
                return v

    pre = [sym(eos) for _ in range(r.randint(0, 2))] if sos is not None else []
    if sos is not None and r.random() < 0.5:
        pre.append(sos)  # a second sos before the real one: the *last* one counts
    post = [sym(sos) for _ in range(r.randint(0, 2))] if eos is not None else []
    if eos is not None and r.random() < 0.5:
        post.insert(0, eos)  # a second eos after the real one: the *first* one counts
    if two_d:
        # boundary columns deliberately carry the numeric values of sos/eos
        fill = [v for v in (sos, eos, 3) if v is not None]
        pre = [[v] + [r.choice(fill) for _ in range(width - 1)] for v in pre]
        post = [[v] + [r.choice(fill) for _ in range(width - 1)] for v in post]
    return pre, post


def _step_read(cx, step, n):
    """Clause 4 on a valid directory."""
    import torch

    mon = cx.mon
    model = cx.model
    if step["suppress_alis"]:
        # alignments are then not even looked for: the utterance list may grow
        model = dict(model, dirs=dict(model["dirs"], ali=None))
    if DM.reasons(cx.model) or DM.reasons(model):
        mon.stat("read_skipped_directory_invalid")
        return
    d = DM.discover(model)
    sos, eos, tonly = step["sos"], step["eos"], step["tokens_only"]
    try:
        ds = _make_ds(cx, model, sos=sos, eos=eos, tokens_only=tonly, suppress_alis=step["suppress_alis"],
                      suppress_uttids=step["suppress_uttids"])
    except Exception as e:
        mon.fail("raised:SpectDataSet", exception=type(e).__name__, message=str(e)[:300])
    mon.check(list(ds.utt_ids) == d["utts"] and len(ds) == len(d["utts"]), "discovery",
              observed=list(ds.utt_ids), expected=d["utts"])
    cx.history.append("R%d" % len(d["utts"]))
    hyp_dir = os.path.join(cx.scratch, "hyp%d" % n) if step["hyp_dir"] == "explicit" else None
    for idx, utt in enumerate(d["utts"]):
        feat, ali, ref = DM.triple(model, utt, d)
        mon.ev("SpectDataSet.__getitem__")
        try:
            tup = ds[idx]
        except Exception as e:
            mon.fail("raised:SpectDataSet.__getitem__", exception=type(e).__name__, message=str(e)[:300],
                     utt=utt, stored_ref=ref, sos=sos, eos=eos, tokens_only=tonly,
                     traceback=traceback.format_exc(limit=-4))
        want_len = 2 + (0 if step["suppress_alis"] else 1) + (0 if step["suppress_uttids"] else 1)
        mon.check(isinstance(tup, tuple) and len(tup) == want_len, "read-layout", observed=len(tup), expected=want_len)
        tup = list(tup)
        mon.check(DM.same(_to_spec(tup.pop(0)), feat), "read-feat", utt=utt)
        if not step["suppress_alis"]:
            got = tup.pop(0)
            mon.check((got is None and ali is None) or (got is not None and ali is not None and DM.same(_to_spec(got), ali)),
                      "read-ali", utt=utt)
        got = tup.pop(0)
        if not step["suppress_uttids"]:
            mon.check(tup.pop(0) == utt, "read-uttid", utt=utt)
        if ref is None:
            mon.check(got is None, "read-sos-eos", observed=repr(got), expected=None, utt=utt)
            continue
        want = DM.ref_view(ref, sos, eos, tonly)
        if ref["shape"][0] == 0 and (sos is not None or eos is not None):
            mon.cls("empty_transcript_read")
        mon.check(got is not None and DM.same(_to_spec(got), want), "read-sos-eos",
                  observed=None if got is None else _to_spec(got), expected=want, stored=ref, sos=sos, eos=eos,
                  tokens_only=tonly, utt=utt)
        # write_hyp strips the symbols again
        toks = ref["data"] if DM.ndim(ref) == 1 else [r[0] for r in ref["data"]]
        if (sos is not None and sos in toks) or (eos is not None and eos in toks):
            mon.stat("hyp_roundtrip_skipped_symbol_among_tokens")
            continue
        hyp = got
        if step["hyp"] == "junk":
            two = got.dim() == 2
            pre, post = _junk(idx, step, two, got.shape[1] if two else 0)
            parts = [torch.tensor(p, dtype=torch.long).reshape([len(p)] + list(got.shape[1:])) for p in (pre, post)]
            hyp = torch.cat([parts[0], got, parts[1]], 0)
            mon.stat("hyp_with_junk")
        elif step["hyp"] == "int32":
            hyp = got.int()
        elif step["hyp"] == "float":
            hyp = got.double()
        mon.ev("SpectDataSet.write_hyp")
        try:
            ds.write_hyp(idx if step["by"] == "index" else utt, hyp, hyp_dir)
        except Exception as e:
            mon.fail("raised:SpectDataSet.write_hyp", exception=type(e).__name__, message=str(e)[:300],
                     hyp=hyp, sos=sos, eos=eos, traceback=traceback.format_exc(limit=-4))
        path = os.path.join(hyp_dir or os.path.join(cx.root, "hyp"), model["prefix"] + utt + model["suffix"])
        mon.check(os.path.isfile(path), "hyp-file", expected=path)
        back = _to_spec(torch.load(path))
        mon.check(DM.same(back, DM.bare(ref, tonly)), "hyp-roundtrip", observed=back, expected=DM.bare(ref, tonly),
                  written=hyp, sos=sos, eos=eos, utt=utt)


def _step_observe(cx, step, n):
    """Configurations outside the quantifier: run, record, never judge."""
    mon = cx.mon
    kw = {}
    what = "negative_token"
    if "eos" in step:
        kw = dict(sos=step.get("sos"), eos=step["eos"], tokens_only=step.get("tokens_only", False))
        what = "view"
    mon.ev("validate_spect_data_set(observation)")
    try:
        ds = _make_ds(cx, **kw)
        cx.data.validate_spect_data_set(ds, step["k"])
        res = "passed"
    except ValueError:
        res = "ValueError"
    except Exception as e:  # recorded, not judged
        res = type(e).__name__
    mon.stat("observed:%s:fix=%s:%s" % (what, "none" if step["k"] is None else "k", res))
    cx.history.append("O")
    mon.ood("validation of " + what + " (outside the quantifier)")


_STEP = {"strict": _step_strict, "fix": _step_fix, "info": _step_info, "read": _step_read,
         "observe_validate": _step_observe}


# ======================================================================== known findings


def classify(entry_id, vrec):
    """Only mechanism-based matches.  D9, D19 and D20-C12 are fixed in the tree (status "fixed"
    suppresses nothing); the D19 classifier is kept for the case that the fix is not adopted."""
    det = vrec.get("details", {})
    if entry_id == "D19":
        if vrec.get("monitor") != "info-values":
            return False
        bad = det.get("observed_vs_expected", {})
        return (list(bad) == ["total_tokens"] and det.get("refs_present") is True and det.get("sum_R") == 0
                and det.get("reported_total_tokens") == -1)
    return False
