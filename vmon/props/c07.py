"""C07 - sequence scores, random walks, the LM distribution wrapper and greedy CTC decoding
match their definitions.

Monitors (DESIGN 3/C07): boundary oracles on `functional.sequence_log_probs` /
`SequenceLogProbabilities` (tensor and packed input), `RandomWalk.__call__` (with the
self-checking `HashLM` collaborator and an interposed `torch.multinomial` for hostile
draws), `SequentialLanguageModelDistribution.sample / log_prob / enumerate_support`, and
`functional.ctc_greedy_search` / `CTCGreedySearch`.
"""
import itertools
import math

from ..oracles import c04_hashtable as HT
from ..oracles import c07_defs as DEF
from . import _hashlm as LM
from .. import layout as LY

ID = "C07"
LEVEL = "exploration"
RULE = (
    "class-directed random cases: sequence_log_probs on hyp tensors of 1-4 dims (every legal dim, negative too), "
    "tokens inside and outside the vocabulary, eos unset / in range / out of range / negative, packed logits "
    "with equal / sorted / unsorted length patterns; random walks and the distribution wrapper over the "
    "self-checking HashLM with eos set/unset, step limits 1..6 or unset, batch unset / 1..4 with per-element "
    "conditioning, sample shapes (), (M,), (M1,M2), real seeded draws and hostile interposed draws "
    "(least likely, most likely, eos first, eos never, scripted); greedy CTC on every blank index (negative "
    "too), lens with zeros, both layouts, logits / probabilities, quantised scores with tied maxima.  A case "
    "is distinct by the hash of its concrete inputs; non-trivial: a score over >= 2 counted positions, a "
    "walk of >= 2 steps, a support of >= 4 sequences, or a greedy input with a repeat or blank to remove"
)
ASSUMPTIONS = [
    "oracles: Python loops over log-softmax values in float64; stateless evaluation of HashLM's table",
    "packed input with eos set: the class documentation says eos is ignored, the property text says scores "
    "stop at the first eos; both readings are accepted",
    "tied frame maxima in greedy decoding: any choice among the tied labels is accepted",
    "cells of greedy paths past out_lens and walk cells past y_lens are documented undefined and ignored",
    "USE_JIT off (library runs as plain Python)",
]
BUDGET = {
    "quick": dict(cases=600, shards=4, timeout=900),
    "thorough": dict(cases=7000, shards=16, timeout=3600),
}
CLASSES = [
    "slp_tensor", "slp_packed", "walk", "greedy", "dist", "walk_hostile", "slp_tensor", "greedy_ties",
    "dist_support", "walk_cond", "slp_packed", "dist_shapes",
]
# measured on the repaired tree, seed 0, quick tier (4 x 600 cases); floors are ~1/3 of that
_Q = {
 "Distribution.__init__": 600,
 "Distribution.clear_cache": 179,
 "Distribution.enumerate_support": 431,
 "Distribution.log_prob": 1780,
 "Distribution.sample": 600,
 "HashLM.calc_idx_log_probs": 37510,
 "RandomWalk": 600,
 "assert:distribution-log-prob-is-chained": 23035,
 "assert:greedy-path": 846,
 "assert:greedy-path-tied": 154,
 "assert:greedy-score": 1000,
 "assert:lm-state-follows-path": 37510,
 "assert:packed-equals-padded": 338,
 "assert:packed-value": 1174,
 "assert:sample-in-enumerated-support": 1741,
 "assert:sample-in-support(check)": 570,
 "assert:slp-value": 3518,
 "assert:support-is-all-complete-sequences": 431,
 "assert:support-mass-is-one": 716,
 "assert:walk-ends-at-eos-or-limit": 1161,
 "assert:walk-log-prob-is-chained": 1478,
 "assert:walk-stops-at-first-eos": 1161,
 "assert:walk-vs-distribution-log-prob": 1478,
 "assert:walk-vs-sequence-log-probs": 1478,
 "ctc_greedy_search": 400,
 "interposed-multinomial": 512,
 "lm-state-rows": 99233,
 "lm.forward": 600,
 "sequence_log_probs": 1800,
 "support.check": 570
}
_C = {
 "dist": 200,
 "dist_batched": 367,
 "dist_cache": 189,
 "dist_eos_set": 420,
 "dist_eos_unset": 180,
 "dist_no_cache": 411,
 "dist_sample_shape_0d": 158,
 "dist_sample_shape_1d": 264,
 "dist_sample_shape_2d": 150,
 "dist_shapes": 200,
 "dist_support": 200,
 "dist_unbatched": 233,
 "dist_validate_False": 208,
 "dist_validate_None": 203,
 "dist_validate_True": 189,
 "greedy": 200,
 "greedy_batch_first": 203,
 "greedy_blank_negative": 203,
 "greedy_blank_nonneg": 197,
 "greedy_lens": 93,
 "greedy_hostile_padding_frames": 120,
 "greedy_lens_with_zero": 185,
 "greedy_logits": 235,
 "greedy_no_lens": 122,
 "greedy_probs": 165,
 "greedy_tied_maxima": 88,
 "greedy_ties": 200,
 "greedy_time_first": 197,
 "packed_dim_-1": 114,
 "packed_dim_-2": 82,
 "packed_dim_0": 121,
 "packed_dim_1": 83,
 "packed_enforce_sorted": 108,
 "packed_equal": 117,
 "packed_sorted": 82,
 "packed_unsorted": 201,
 "packed_unsorted_indices": 292,
 "slp_1d": 92,
 "slp_2d": 100,
 "slp_3d": 119,
 "slp_4d": 89,
 "slp_dim_negative": 199,
 "slp_dim_nonneg": 201,
 "slp_eos_in_vocab": 88,
 "slp_eos_out_of_vocab": 208,
 "slp_eos_unset": 104,
 "slp_packed": 400,
 "slp_tensor": 400,
 "walk": 200,
 "walk_batched": 454,
 "walk_cond": 200,
 "walk_eos_set": 476,
 "walk_eos_unset": 124,
 "walk_hostile": 200,
 "walk_max_iters_unset": 96,
 "walk_paths_as_batch": 418,
 "walk_paths_as_samples": 36,
 "walk_rng_eos": 35,
 "walk_rng_least": 35,
 "walk_rng_most": 82,
 "walk_rng_noeos": 48,
 "walk_rng_script": 34,
 "walk_rng_seed": 366,
 "walk_unbatched": 146
}
FLOORS = {
    "quick": {"events": {k: int(v * 0.33) for k, v in _Q.items()},
              "classes": {k: int(v * 0.33) for k, v in _C.items()},
              "stats": {"dist_query_history_with_shared_prefix": 100},
              "sets": {"walk-paths": 400}, "distinct": 450},
    "thorough": {"events": {k: int(v * 0.33 * 16) for k, v in _Q.items()},
                 "classes": {k: int(v * 0.33 * 16) for k, v in _C.items()},
                 "stats": {"dist_query_history_with_shared_prefix": 1600},
                 "sets": {"walk-paths": 5000}, "distinct": 7000},
}
EXHAUSTIVE = {"quick": False, "thorough": False}
TOL, RTOL = 1e-4, 1e-5


# --------------------------------------------------------------------------- generation


def _r3(rng, scale):
    return round(rng.gauss(0.0, scale), 3)


def _nested(shape, fn):
    if not shape:
        return fn()
    return [_nested(shape[1:], fn) for _ in range(shape[0])]


def _hash_spec(rng, V, C, eos=None, eos_bias=None, kind=None):
    cb = [[round(rng.uniform(-1, 1) * 16) / 16 for _ in range(V)] for _ in range(max(1, C))]
    if eos_bias is not None and eos is not None:
        for row in cb:
            row[eos % V] += eos_bias
    return {"lm": "hash", "V": V, "M": 509, "seed": rng.randrange(10 ** 9),
            "kind": kind or rng.choice(["random", "random", "peaky"]),
            "scale": rng.choice([0.5, 1.0, 2.0]), "cbias": cb}


def generate(rng, tier, i):
    cls = CLASSES[i % len(CLASSES)]
    big = tier == "thorough"
    gen = {"slp_tensor": _gen_slp_tensor, "slp_packed": _gen_slp_packed, "walk": _gen_walk,
           "walk_hostile": _gen_walk, "walk_cond": _gen_walk, "dist": _gen_dist, "dist_support": _gen_dist,
           "dist_shapes": _gen_dist, "greedy": _gen_greedy, "greedy_ties": _gen_greedy}[cls]
    case = {"class": cls}
    gen(rng, case, big)
    return case


def _gen_slp_tensor(rng, case, big):
    nd = rng.randint(1, 4)
    mx = 6 if big else 5
    while True:
        shape = [rng.randint(1, mx) for _ in range(nd)]
        if rng.random() < 0.08:
            shape[rng.randrange(nd)] = 1
        n = 1
        for s in shape:
            n *= s
        if n <= (900 if big else 400):
            break
    dim = rng.randrange(nd)
    V = rng.randint(1, 5)
    if rng.random() < 0.04:
        shape[dim] = 0
    elif rng.random() < 0.08:
        # a sequence dimension far longer than anything else in the workload, few other entries
        shape = [1 if j != dim else rng.choice([130, 300]) for j in range(nd)]
        if nd >= 2:
            shape[(dim + 1) % nd] = 2
        case["long_sequence"] = True
    eos = rng.choice([None, None, rng.randrange(V), rng.randrange(V), V, V + 2, -1, -2])
    lo, hi = (-2, V + 1) if rng.random() < 0.6 else (0, V - 1)

    def tok():
        if eos is not None and rng.random() < 0.2:
            return eos
        return rng.randint(lo, hi)

    scale = rng.choice([0.5, 2.0, 6.0])
    case.update(shape=shape, dim=dim if rng.random() < 0.5 else dim - nd, V=V, eos=eos,
                hyp=_nested(shape, tok), logits=_nested(shape + [V], lambda: _r3(rng, scale)),
                form=rng.choice(["functional", "module"]))


def _gen_slp_packed(rng, case, big):
    T, N, V = rng.randint(1, 6), rng.randint(1, 5), rng.randint(1, 5)
    pat = rng.choice(["equal", "sorted", "unsorted", "unsorted"])
    if pat == "equal":
        lens = [rng.randint(1, T)] * N
    else:
        lens = [rng.randint(1, T) for _ in range(N)]
        if pat == "sorted":
            lens.sort(reverse=True)
    if pat != "equal" and rng.random() < 0.7:
        lens[rng.randrange(N)] = T
    if pat == "sorted":
        lens.sort(reverse=True)
    eos = rng.choice([None, None, None, rng.randrange(V)])
    lo, hi = (-1, V) if rng.random() < 0.5 else (0, V - 1)
    case.update(T=T, N=N, V=V, lens=lens, pattern=pat,
                enforce_sorted=(pat != "unsorted" and sorted(lens, reverse=True) == lens and rng.random() < 0.5),
                dim=rng.choice([0, 1, -2, -1]), eos=eos,
                hyp=_nested([T, N], lambda: rng.randint(lo, hi)),
                logits=_nested([T, N, V], lambda: _r3(rng, 2.0)),
                form=rng.choice(["functional", "module"]))


def _gen_walk(rng, case, big):
    cls = case["class"]
    V = rng.randint(1, 5)
    eos = rng.choice([None] * max(1, V // 2) + list(range(V)) + [-1])
    T = rng.randint(1, 7 if big else 6)
    N = rng.choice([None, None, 1, 2, 3, 4])
    mode = "seed"
    bias = None
    if cls == "walk_hostile":
        mode = rng.choice(["least", "most", "eos", "noeos", "script"])
        if eos is None and mode in ("eos", "noeos"):
            eos = rng.randrange(V)
    if cls == "walk_cond":
        N = rng.randint(2, 5)
    if eos is not None and rng.random() < 0.25 and mode in ("seed", "most", "eos"):
        T = None  # open ended: the model's eos bias ends the walk
        bias = 6.0
        if mode == "seed" and V > 1:
            mode = "most" if rng.random() < 0.5 else "seed"
    C = 1 if N is None else N
    spec = _hash_spec(rng, V, C, eos, bias, kind="random" if T is None else None)
    if N is None:
        cond = rng.choice([None, [rng.randrange(C)]])
    else:
        cond = [rng.randrange(C + 1) for _ in range(N)] if cls != "walk_cond" else list(range(N))
    case.update(lm=spec, V=V, eos=eos, max_iters=T, batch=N, cond=cond,
                rng={"mode": mode, "seed": rng.randrange(10 ** 9),
                     "script": [rng.randrange(V) for _ in range(24)]})


def _gen_dist(rng, case, big):
    cls = case["class"]
    V = rng.randint(1, 4)
    eos = rng.choice([None] + list(range(V)))
    T = rng.randint(1, 5)
    while V ** T > (1100 if big else 300):
        T -= 1
    N = rng.choice([None, None, 1, 2, 3])
    shape = rng.choice([[], [1], [3], [2, 2]])
    if cls == "dist_shapes":
        shape = rng.choice([[], [], [2], [2, 1], [1, 3], [2, 2, 2], [0]])
        N = rng.choice([None, 2, 3])
    bias = None
    if cls == "dist" and eos is not None and rng.random() < 0.2:
        T, bias = None, 6.0
    elif eos is not None and rng.random() < 0.4:
        bias = rng.choice([1.5, 3.0])  # walks that mostly end before the step limit: short, ragged samples
    C = 1 if N is None else N
    spec = _hash_spec(rng, V, C, eos, bias, kind="random")
    cond = (rng.choice([None, [rng.randrange(C)]]) if N is None else [rng.randrange(C + 1) for _ in range(N)])
    case.update(lm=spec, V=V, eos=eos, max_iters=T, batch=N, cond=cond, sample_shape=shape,
                cache=rng.random() < 0.3, validate=rng.choice([None, True, False]),
                seed=rng.randrange(10 ** 9), support=(cls == "dist_support" or rng.random() < 0.7) and T is not None)


def _gen_greedy(rng, case, big):
    ties = case["class"] == "greedy_ties"
    T, N, V = rng.randint(0 if rng.random() < 0.05 else 1, 7), rng.randint(1, 4), rng.randint(1, 5)
    if not ties and rng.random() < 0.07:
        T, N = rng.choice([130, 300]), rng.randint(1, 2)  # far longer than anything else in the workload
    blank = rng.randint(-V, V - 1)
    is_probs = rng.random() < 0.4
    lens = None
    if rng.random() < 0.7:
        lens = [rng.choice([0, T, rng.randint(0, T)]) for _ in range(N)]
    if ties:
        q = lambda: float(rng.randint(-1, 1)) / 2
    else:
        q = lambda: _r3(rng, 2.0)
    logits = _nested([T, N, V], q)
    if rng.random() < (0.25 if ties else 0.5):
        # make repeats and blanks likely: boost one label over a run of frames
        for n in range(N):
            t = 0
            while t < T:
                run, lab = rng.randint(1, 3), rng.randrange(V)
                for u in range(t, min(T, t + run)):
                    logits[u][n][lab] += 3.0
                t += run
    # frames past an element's length are "not there": fill them with hostile content (-inf, nan, huge)
    pad_fill = None
    if lens is not None and any(l < T for l in lens) and rng.random() < 0.6:
        pad_fill = rng.choice(["ninf", "nan", "big", "inf"])
    case.update(T=T, N=N, V=V, blank=blank, is_probs=is_probs, lens=lens, logits=logits, pad_fill=pad_fill,
                batch_first=rng.random() < 0.5, form=rng.choice(["functional", "module"]))


# --------------------------------------------------------------------------- sequence_log_probs


def _slp(mon, case, logits, hyp, dim, eos, documented=()):
    import pydrobert.torch.functional as F
    import pydrobert.torch.modules as M

    if case["form"] == "module":
        return mon.lib("sequence_log_probs", lambda: LY.travelled(M.SequenceLogProbabilities(dim, eos), hyp.numel(), dim)(logits, hyp),
                       documented=documented)
    return mon.lib("sequence_log_probs", lambda: F.sequence_log_probs(logits, hyp, dim, eos),
                   documented=documented)


def _exec_slp_tensor(case, mon):
    import torch

    shape, V, eos = case["shape"], case["V"], case["eos"]
    nd = len(shape)
    dim = case["dim"] % nd
    T = shape[dim]
    logits = torch.tensor(case["logits"], dtype=torch.float32).view(*shape, V)
    hyp = torch.tensor(case["hyp"], dtype=torch.long).view(*shape)
    _lay = case.get("layout") or LY.pick(logits.numel(), logits.dim(), V)
    logits, hyp = LY.relayout(logits, _lay), LY.relayout(hyp, _lay)
    mon.cls("slp_dim_negative" if case["dim"] < 0 else "slp_dim_nonneg", "slp_%dd" % nd,
            "slp_eos_unset" if eos is None else ("slp_eos_in_vocab" if 0 <= eos < V else "slp_eos_out_of_vocab"))
    # zero-size sequence dimension with eos: the first-eos search raises (DESIGN: out-of-domain observation)
    documented = (RuntimeError, IndexError) if (T == 0 and eos is not None) else ()
    if T == 0:
        mon.cls("slp_zero_steps")
    out = _slp(mon, case, logits, hyp, case["dim"], eos, documented)
    oshape = shape[:dim] + shape[dim + 1:]
    mon.check(list(out.shape) == oshape, "slp-shape", observed=list(out.shape), expected=oshape)
    want = DEF.tensor_seq_log_probs(logits.double().tolist(), case["hyp"], shape, dim, eos, V)
    got = out.tolist()
    counted = 0
    for idx, w in want.items():
        g = DEF.nested_get(got, idx)
        mon.close(g, w, TOL, "slp-value", rel=RTOL, index=idx)
    for idx in itertools.islice(want, 3):
        toks = [DEF.nested_get(case["hyp"], idx[:dim] + (t,) + idx[dim:]) for t in range(T)]
        upto = toks.index(eos) + 1 if (eos is not None and eos in toks) else T
        counted = max(counted, sum(1 for t in toks[:upto] if 0 <= t < V))
    if counted < 2:
        mon.trivial()


def _exec_slp_packed(case, mon):
    import torch
    from torch.nn.utils.rnn import pack_padded_sequence

    T, N, V, lens, eos = case["T"], case["N"], case["V"], case["lens"], case["eos"]
    logits = torch.tensor(case["logits"], dtype=torch.float32).view(T, N, V)
    hyp = torch.tensor(case["hyp"], dtype=torch.long).view(T, N)
    packed = pack_padded_sequence(logits, torch.tensor(lens), enforce_sorted=case["enforce_sorted"])
    dim = case["dim"]
    h = hyp if dim % 2 == 0 else hyp.t().contiguous()
    mon.cls("packed_" + case["pattern"], "packed_dim_%d" % dim,
            "packed_enforce_sorted" if case["enforce_sorted"] else "packed_unsorted_indices")
    out = _slp(mon, case, packed, h, dim, eos)
    mon.check(list(out.shape) == [N], "packed-shape", observed=list(out.shape), expected=[N])
    lg = logits.double().tolist()
    for n in range(N):
        rows = [lg[t][n] for t in range(lens[n])]
        toks = [case["hyp"][t][n] for t in range(lens[n])]
        w_all = DEF.seq_log_prob(rows, toks, None, V)
        g = float(out[n])
        if eos is not None and eos in toks:
            # documentation: eos ignored for packed input; property text: stop at the first eos
            w_eos = DEF.seq_log_prob(rows, toks, eos, V)
            ok_all = abs(g - w_all) <= TOL + RTOL * abs(w_all)
            ok_eos = abs(g - w_eos) <= TOL + RTOL * abs(w_eos)
            mon.stat("packed-eos-reading:" + ("ignored" if ok_all else "stops" if ok_eos else "neither"))
            mon.check(ok_all or ok_eos, "packed-value", observed=g, expected_eos_ignored=w_all,
                      expected_stop_at_eos=w_eos, n=n)
        else:
            mon.close(g, w_all, TOL, "packed-value", rel=RTOL, n=n, length=lens[n])
    # identically for padded input: same scores from the padded tensor with the padding cells out of vocabulary
    arange = torch.arange(T).unsqueeze(1)
    hp = hyp.masked_fill(arange >= torch.tensor(lens).unsqueeze(0), -1)
    d2 = dict(case, form="functional")
    out2 = _slp(mon, d2, logits, hp, 0, None)
    if eos is None or not any(eos in [case["hyp"][t][n] for t in range(lens[n])] for n in range(N)):
        mon.check(bool(((out - out2).abs() <= TOL + RTOL * out2.abs()).all()), "packed-equals-padded",
                  packed=out, padded=out2)
    if max(lens) < 2:
        mon.trivial()


# --------------------------------------------------------------------------- walks


class HostileMultinomial:
    """Stand-in for torch.multinomial inside random_walk_advance: prescribed draws, always
    from the support of the distribution it is asked to sample."""

    def __init__(self, mode, eos, script):
        self.mode, self.eos, self.script, self.calls = mode, eos, script, 0

    def __call__(self, probs, num_samples, replacement=False, **kw):
        import torch

        assert num_samples == 1 and probs.dim() == 2
        step = self.calls
        self.calls += 1
        pos = probs > 0
        big = probs.masked_fill(~pos, 2.0)
        most = probs.argmax(1)
        if self.mode == "least":
            pick = big.argmin(1)
        elif self.mode == "most":
            pick = most
        elif self.mode == "eos":
            pick = torch.where(pos[:, self.eos], torch.full_like(most, self.eos), most)
        elif self.mode == "noeos":
            p2 = probs.clone()
            p2[:, self.eos] = -1.0
            alt = p2.argmax(1)
            pick = torch.where(p2.gather(1, alt.unsqueeze(1)).squeeze(1) > 0, alt, most)
        else:  # script
            want = torch.tensor([self.script[(step * 5 + r) % len(self.script)] for r in range(probs.size(0))])
            pick = torch.where(pos.gather(1, want.unsqueeze(1)).squeeze(1), want, most)
        return pick.unsqueeze(1)


def _with_rng(rngspec, eos, fn):
    import torch

    if rngspec["mode"] == "seed":
        with torch.random.fork_rng():
            torch.manual_seed(rngspec["seed"])
            return fn(), None
    orig = torch.multinomial
    hm = HostileMultinomial(rngspec["mode"], eos, rngspec["script"])
    torch.multinomial = hm
    try:
        return fn(), hm
    finally:
        torch.multinomial = orig


def judge_hash_log(mon, lm, label):
    """HashLM's recorded self-check: in a walk and in log_prob every row is live all the time."""
    n = 0
    for rec in lm.log:
        n += rec["rows"]
        mon.check(bool(rec["state_ok"].all()), "lm-state-follows-path", label=label, call=rec["call"],
                  idx=rec["idx"], state=rec["h"], expected_state=rec["want"], histories=rec["hist"].t())
        if rec["cond_ok"] is not None:
            mon.check(bool(rec["cond_ok"].all()), "lm-conditioning-follows-element", label=label,
                      call=rec["call"], observed=rec["cond"])
    mon.ev("HashLM.calc_idx_log_probs", len(lm.log))
    mon.ev("lm-state-rows", n)


def _walk(RandomWalk, lm, case):
    """The walk object; for some cases after a journey: deepcopy, or restored from the checkpoint (state_dict) of
    a walk over the same model that was built with ANOTHER end-of-sequence setting - a checkpoint carries the
    model's parameters, the walk's own settings are the constructor's."""
    walk = RandomWalk(lm, case["eos"])
    k = (case.get("seed", 0) + 3 * case.get("V", 0)) % 5
    if k == 1 and case.get("V", 0) >= 2:
        V = case["V"]
        other_eos = 0 if case["eos"] not in (0, -V) else V - 1
        walk.load_state_dict(RandomWalk(lm, other_eos).state_dict())
        LY.TRAVEL_SEEN["state_dict(other eos)"] = LY.TRAVEL_SEEN.get("state_dict(other eos)", 0) + 1
    elif k == 2:
        import copy

        lm0 = lm
        walk = copy.deepcopy(walk)
        # the harness goes on talking to the model it built: hand the copy that very object
        walk.lm = lm0
        LY.TRAVEL_SEEN["deepcopy"] = LY.TRAVEL_SEEN.get("deepcopy", 0) + 1
    return walk


def _model(case):
    lm = LM.make_hashlm(case["lm"])
    if (case.get("seed", 0) + case.get("V", 0)) % 3 == 0:
        lm.inplace_state = True  # the model updates the state dictionary it is handed in place
    if (case.get("seed", 0) + 2 * case.get("V", 0)) % 3 == 1:
        lm.rebuild_state = True  # update_input derives the start state from the static input on every call
    N = case["batch"]
    n_el = 1 if N is None else N
    cond = case["cond"]
    conds = [0] * n_el if cond is None else list(cond)
    init = None if cond is None else lm.initial_state(cond)
    return lm, init, conds, HT.Evaluator(case["lm"])


def _trim(seq, eos):
    seq = list(seq)
    if eos is not None and eos in seq:
        return tuple(seq[: seq.index(eos) + 1])
    return tuple(seq)


def _exec_walk(case, mon):
    import torch
    import pydrobert.torch.functional as F
    from pydrobert.torch.modules import RandomWalk
    from pydrobert.torch.distributions import SequentialLanguageModelDistribution

    lm, init, conds, ev = _model(case)
    V, T, N = case["V"], case["max_iters"], case["batch"]
    eos = None if case["eos"] is None else case["eos"] % V
    mode = case["rng"]["mode"]
    mon.cls("walk_rng_" + mode, "walk_eos_unset" if eos is None else "walk_eos_set",
            "walk_unbatched" if N is None else "walk_batched")
    if T is None:
        mon.cls("walk_max_iters_unset")
    walk = _walk(RandomWalk, lm, case)
    lm.begin(conds)
    state = lambda: None if init is None else {k: v.clone() for k, v in init.items()}
    (y, lens, lp), hm = _with_rng(case["rng"], eos, lambda: mon.lib("RandomWalk", lambda: walk(state(), N, T)))
    judge_hash_log(mon, lm, "walk")
    n_el = 1 if N is None else N
    if N is None:
        mon.check(y.dim() == 1 and lens.dim() == 0 and lp.dim() == 0, "walk-shape", y=list(y.shape),
                  lens=list(lens.shape), log_probs=list(lp.shape))
        y2, lens2, lp2 = y.unsqueeze(1), lens.unsqueeze(0), lp.unsqueeze(0)
    else:
        mon.check(y.dim() == 2 and y.size(1) == N and tuple(lens.shape) == (N,) and tuple(lp.shape) == (N,),
                  "walk-shape", y=list(y.shape), lens=list(lens.shape), log_probs=list(lp.shape))
        y2, lens2, lp2 = y, lens, lp
    S = y2.size(0)
    limit = T if T is not None else LM.RUNAWAY_CAP
    mon.check(S <= limit, "walk-within-step-limit", observed=S, max_iters=T)
    cols = y2.t().tolist()
    paths = []
    for n in range(n_el):
        L = int(lens2[n])
        mon.check(1 <= L <= S, "walk-length-within-buffer", observed=L, buffer=S, n=n)
        p = tuple(cols[n][:L])
        mon.check(all(0 <= t < V for t in p), "walk-token-range", observed=p, n=n)
        if eos is None:
            mon.check(L == T, "walk-ends-at-step-limit", observed=L, expected=T, n=n)
        else:
            mon.check(eos not in p[:-1], "walk-stops-at-first-eos", observed=p, eos=eos, n=n)
            mon.check(p[-1] == eos or L == T, "walk-ends-at-eos-or-limit", observed=p, eos=eos, max_iters=T, n=n)
        want = ev.chain(conds[n], p)
        mon.close(float(lp2[n]), want, TOL, "walk-log-prob-is-chained", rel=RTOL, path=p, n=n)
        paths.append(p)
        mon.observe("walk-paths", (case["lm"]["seed"], conds[n], p))
    if hm is not None:
        mon.ev("interposed-multinomial", hm.calls)
    if S < 2:
        mon.trivial()
    # second code path: the definition applied to the model's own outputs
    lm.begin(conds)
    logits = mon.lib("lm.forward", lambda: lm(y2[:-1], state()))
    judge_hash_log(mon, lm, "lm(path)")
    slp = mon.lib("sequence_log_probs", lambda: F.sequence_log_probs(logits, y2, 0, eos))
    for n in range(n_el):
        mon.close(float(slp[n]), float(lp2[n]), TOL, "walk-vs-sequence-log-probs", rel=RTOL, path=paths[n], n=n)
    # third code path: the distribution wrapper's log-probability of exactly these paths
    lm.begin(conds)
    if N is None:
        bs, dstate, value = None, state(), y  # one sequence, shape (S,)
    elif len(set(conds)) == 1 and case["rng"]["seed"] % 2:
        # unconditioned use: the N walks are N samples of one distribution, value (N, S)
        bs, dstate, value = None, (None if init is None else {"cond": init["cond"][:1].clone()}), y.t()
        mon.cls("walk_paths_as_samples")
    else:
        bs, dstate, value = N, state(), y.t()  # one sequence per batch element, value (N, S)
        mon.cls("walk_paths_as_batch")
    dist = SequentialLanguageModelDistribution(walk, bs, dstate, T, validate_args=False)
    dlp = mon.lib("Distribution.log_prob", lambda: dist.log_prob(value))
    judge_hash_log(mon, lm, "dist.log_prob")
    mon.check(list(dlp.shape) == list(value.shape[:-1]), "log-prob-shape", observed=list(dlp.shape),
              expected=list(value.shape[:-1]), value_shape=list(value.shape), batch_size=bs)
    dl = dlp.reshape(-1).tolist()
    for n in range(n_el):
        mon.close(dl[n], float(lp2[n]), TOL, "walk-vs-distribution-log-prob", rel=RTOL, path=paths[n], n=n)


# --------------------------------------------------------------------------- distribution wrapper


def _exec_dist(case, mon):
    import torch
    from pydrobert.torch.modules import RandomWalk
    from pydrobert.torch.distributions import SequentialLanguageModelDistribution

    lm, init, conds, ev = _model(case)
    V, T, N = case["V"], case["max_iters"], case["batch"]
    eos = None if case["eos"] is None else case["eos"] % V
    shape = list(case["sample_shape"])
    mon.cls("dist_batched" if N is not None else "dist_unbatched", "dist_sample_shape_%dd" % len(shape),
            "dist_eos_unset" if eos is None else "dist_eos_set",
            "dist_validate_%s" % case["validate"], "dist_cache" if case["cache"] else "dist_no_cache")
    walk = _walk(RandomWalk, lm, case)
    state = None if init is None else {k: v.clone() for k, v in init.items()}
    dist = mon.lib("Distribution.__init__", lambda: SequentialLanguageModelDistribution(
        walk, N, state, T, cache_samples=case["cache"], validate_args=case["validate"]))
    bshape = [] if N is None else [N]
    n_b = 1 if N is None else N

    def chain_rows(value):
        """expected log-probabilities of a value of shape sample + batch + (S,)"""
        S = value.size(-1)
        flat = value.reshape(-1, n_b, S).tolist()
        return [[ev.chain(conds[b], _trim(flat[m][b], eos)) for b in range(n_b)] for m in range(len(flat))]

    def check_log_prob(value, label, expect=None):
        lm.begin(conds)
        lp = mon.lib("Distribution.log_prob", lambda: dist.log_prob(value))
        judge_hash_log(mon, lm, label)
        mon.check(list(lp.shape) == list(value.shape[:-1]), "log-prob-shape", label=label,
                  observed=list(lp.shape), expected=list(value.shape[:-1]))
        want = expect if expect is not None else chain_rows(value)
        got = lp.reshape(-1, n_b).tolist()
        for m in range(len(got)):
            for b in range(n_b):
                mon.close(got[m][b], want[m][b], TOL, "distribution-log-prob-is-chained", rel=RTOL, label=label,
                          sequence=value.reshape(-1, n_b, value.size(-1))[m, b], elem=b)
        return lp

    # ---- samples
    num = 1
    for d in shape:
        num *= d
    lm.begin(conds)
    with torch.random.fork_rng():
        torch.manual_seed(case["seed"])
        sample = mon.lib("Distribution.sample", lambda: dist.sample(torch.Size(shape)))
    judge_hash_log(mon, lm, "sample")
    mon.check(list(sample.shape[:-1]) == shape + bshape, "sample-shape", observed=list(sample.shape),
              expected=shape + bshape + ["S"])
    if num == 0:
        mon.cls("dist_empty_sample")
        mon.trivial()
        return
    S = sample.size(-1)
    limit = T if T is not None else LM.RUNAWAY_CAP
    mon.check(1 <= S <= limit and (eos is not None or S == T), "sample-length", observed=S, max_iters=T)
    ok = mon.lib("support.check", lambda: dist.support.check(sample))
    mon.check(bool(ok.all()) and list(ok.shape) == shape + bshape, "sample-in-support(check)", observed=ok,
              sample=sample)
    rows = sample.reshape(-1, S).tolist()
    for r in rows:
        mon.check(all(float(t).is_integer() and 0 <= t < V for t in r), "sample-token-range", observed=r)
        if eos is not None:
            mon.check(eos in r or S == T, "sample-complete", observed=r, eos=eos, max_iters=T)
    lp1 = check_log_prob(sample, "log_prob(sample)")
    if case["cache"]:
        mon.lib("Distribution.clear_cache", dist.clear_cache)
        lp2 = check_log_prob(sample, "log_prob(sample) after clear_cache")
    # ---- a history of same-shaped queries that share prefixes (what a stale sample cache would confuse):
    # every row cut short at some earlier position (eos-filled), or with its last token changed; then the
    # original sample again
    variant = sample.clone().reshape(-1, S)
    for m in range(variant.size(0)):
        k = (m + case["seed"]) % S
        if eos is not None:
            variant[m, k:] = eos
        else:
            variant[m, S - 1] = (int(variant[m, S - 1]) + 1 + m) % V
    variant = variant.reshape(sample.shape)
    if not torch.equal(variant, sample):
        mon.stat("dist_query_history_with_shared_prefix")
        check_log_prob(variant, "log_prob(prefix-sharing variant) after log_prob(sample)")
        check_log_prob(sample, "log_prob(sample) after the variant")
    # ---- enumerated support
    if case["support"] and T is not None:
        mon.check(dist.has_enumerate_support, "has-enumerate-support")
        sup = mon.lib("Distribution.enumerate_support", lambda: dist.enumerate_support())
        K = DEF.support_count(V, eos, T)
        mon.check(list(sup.shape) == [K] + bshape + [T], "support-shape", observed=list(sup.shape),
                  expected=[K] + bshape + [T])
        srows = [tuple(int(t) for t in r) for r in sup.reshape(K, n_b, T)[:, 0].tolist()]
        mon.check(len(set(srows)) == K, "support-rows-distinct", observed=srows)
        want = set()
        for p in HT.complete_sequences(V, eos, T):
            want.add(tuple(p) + ((eos,) * (T - len(p)) if eos is not None else ()))
        mon.check(set(srows) == want, "support-is-all-complete-sequences", observed=sorted(srows),
                  expected=sorted(want))
        okS = dist.support.check(sup)
        mon.check(bool(okS.all()), "support-rows-pass-check", observed=okS)
        slp = check_log_prob(sup, "log_prob(support)")
        tot = slp.double().exp().sum(0).reshape(-1).tolist()
        for b, x in enumerate(tot):
            mon.close(x, 1.0, 1e-4, "support-mass-is-one", elem=b)
        for r in rows:
            # a row of the enumerated support: eos-filled after the first eos (the class documentation:
            # "the results stacked (and padded with eos, if necessary)")
            padded = tuple(int(t) for t in r) + ((eos,) * (T - S) if eos is not None else ())
            mon.check(padded in want, "sample-in-enumerated-support", observed=r, padded=padded)
        if K < 4:
            mon.trivial()
    elif S < 2:
        mon.trivial()


# --------------------------------------------------------------------------- greedy CTC


def _exec_greedy(case, mon):
    import torch
    import pydrobert.torch.functional as F
    import pydrobert.torch.modules as M

    T, N, V = case["T"], case["N"], case["V"]
    blank, is_probs, lens = case["blank"], case["is_probs"], case["lens"]
    x = torch.tensor(case["logits"], dtype=torch.float32).view(T, N, V)
    if is_probs and not case.get("raw"):
        x = x.softmax(-1)
    if case.get("pad_fill") and lens is not None:
        fill = {"ninf": float("-inf"), "nan": float("nan"), "big": 1e30, "inf": float("inf")}[case["pad_fill"]]
        x = x.clone()
        for n in range(N):
            x[lens[n]:, n] = fill
        mon.cls("greedy_hostile_padding_frames")
    inp = x.transpose(0, 1).contiguous() if case["batch_first"] else x
    inp = LY.relayout(inp, case.get("layout") or LY.pick(T, N, V))
    lt = None if lens is None else torch.tensor(lens, dtype=torch.long)
    mon.cls("greedy_blank_negative" if blank < 0 else "greedy_blank_nonneg",
            "greedy_probs" if is_probs else "greedy_logits",
            "greedy_batch_first" if case["batch_first"] else "greedy_time_first",
            "greedy_no_lens" if lens is None else ("greedy_lens_with_zero" if 0 in lens else "greedy_lens"))
    if case["form"] == "module":
        call = lambda: LY.travelled(M.CTCGreedySearch(blank, case["batch_first"], is_probs), inp.numel(), blank)(inp.clone(), lt)
    else:
        call = lambda: F.ctc_greedy_search(inp.clone(), lt, blank, case["batch_first"], is_probs)
    mx, paths, out_lens = mon.lib("ctc_greedy_search", call)
    mon.check(list(mx.shape) == [N] and list(out_lens.shape) == [N]
              and list(paths.shape) == ([N, T] if case["batch_first"] else [T, N]), "greedy-shape",
              max=list(mx.shape), paths=list(paths.shape), out_lens=list(out_lens.shape))
    pl = (paths if case["batch_first"] else paths.t()).tolist()
    ref = (x.log_softmax(-1) if not is_probs else x).double()
    b = blank % V
    interesting = False
    for n in range(N):
        L = T if lens is None else lens[n]
        frames = ref[:L, n].tolist()
        score, best = DEF.ctc_greedy(frames, b, is_probs)
        mon.close(float(mx[n]), score, 1e-5, "greedy-score", rel=1e-5, n=n, length=L)
        ol = int(out_lens[n])
        mon.check(0 <= ol <= L, "greedy-out-len-range", observed=ol, length=L, n=n)
        got = tuple(pl[n][:ol])
        tied = any(len(s) > 1 for s in best)
        if tied:
            mon.cls("greedy_tied_maxima")
            cands = DEF.greedy_paths(best, b)
            if cands is None:
                mon.stat("greedy-too-many-ties")
            else:
                mon.check(got in cands, "greedy-path-tied", observed=got, allowed=sorted(cands), n=n)
        else:
            labels = [s[0] for s in best]
            want = tuple(DEF.collapse(labels, b))
            mon.check(got == want, "greedy-path", observed=got, expected=want, frame_labels=labels, blank=b, n=n)
            if len(want) < len(labels):
                interesting = True
    if not interesting:
        mon.trivial()


# --------------------------------------------------------------------------- dispatch

_EXEC = {"slp_tensor": _exec_slp_tensor, "slp_packed": _exec_slp_packed, "walk": _exec_walk,
         "walk_hostile": _exec_walk, "walk_cond": _exec_walk, "dist": _exec_dist, "dist_support": _exec_dist,
         "dist_shapes": _exec_dist, "greedy": _exec_greedy, "greedy_ties": _exec_greedy}


def execute(case, mon):
    _EXEC[case.get("kind", case["class"])](case, mon)


# --------------------------------------------------------------------------- mechanism B: repository tests
# (thorough tier) every forward call of the library modules made by the repository's own tests is judged
PYTEST_FILES = ["tests/test_decoding.py"]
PYTEST_ARGS = ["-k", "sequence_log_probs or random_walk or ctc_greedy_search"]
_LIVE = {"n": 0}


def hook_case(module, args, kwargs, output):
    import torch
    from torch.nn.utils.rnn import PackedSequence, pad_packed_sequence

    name = type(module).__name__
    if torch.jit.is_tracing() or torch.jit.is_scripting():
        return None  # never run monitor code inside a trace being recorded
    if name == "SequenceLogProbabilities":
        logits, hyp = args[0], args[1]
        if isinstance(logits, torch.Tensor):
            if logits.numel() > 20000 or hyp.dim() == 0 or hyp.numel() == 0:
                return None
            return {"kind": "slp_tensor", "shape": list(hyp.shape), "dim": int(module.dim),
                    "V": int(logits.size(-1)), "eos": module.eos, "hyp": hyp.tolist(),
                    "logits": logits.detach().float().tolist(), "form": "functional"}
        if isinstance(logits, PackedSequence):
            padded, lens = pad_packed_sequence(logits)
            if padded.numel() > 20000 or hyp.dim() != 2:
                return None
            T, N, V = padded.shape
            h = hyp if int(module.dim) % 2 == 0 else hyp.t()
            return {"kind": "slp_packed", "T": T, "N": N, "V": V, "lens": lens.tolist(), "pattern": "repo",
                    "enforce_sorted": logits.sorted_indices is None, "dim": int(module.dim), "eos": module.eos,
                    "hyp": h[:T].tolist(), "logits": padded.detach().float().tolist(), "form": "functional"}
        return None
    if name == "CTCGreedySearch":
        logits = args[0]
        lens = args[1] if len(args) > 1 else kwargs.get("in_lens")
        if logits.dim() != 3 or logits.numel() > 20000:
            return None
        x = logits.transpose(0, 1) if module.batch_first else logits
        T, N, V = x.shape
        return {"kind": "greedy", "T": T, "N": N, "V": V, "blank": int(module.blank_idx),
                "is_probs": bool(module.is_probs), "lens": None if lens is None else lens.tolist(),
                "logits": x.detach().float().tolist(), "batch_first": bool(module.batch_first),
                "form": "functional", "raw": True}
    if name == "RandomWalk":
        prev = args[0] if len(args) > 0 else kwargs.get("initial_state", kwargs.get("prev_"))
        batch = args[1] if len(args) > 1 else kwargs.get("batch_size")
        T = args[2] if len(args) > 2 else kwargs.get("max_iters")
        if output[0].size(0) > 300:
            return None
        _LIVE["n"] += 1
        _LIVE["cur"] = {"id": _LIVE["n"], "module": module, "prev": prev, "output": output}
        return {"kind": "walk_live", "call": _LIVE["n"], "V": int(module.lm.vocab_size), "eos": module.eos,
                "batch": batch, "max_iters": T, "lm": type(module.lm).__name__}
    return None


def _exec_walk_live(case, mon):
    """A walk the repository's tests performed: its structure and its log-probability, the latter
    against the definition applied to the model's own full output."""
    import torch

    live = _LIVE.get("cur")
    if live is None or live["id"] != case["call"]:
        mon.ood("live-object-unavailable(replay of an observed repo-test call)")
        return
    walk, (y, lens, lp) = live["module"], live["output"]
    mon.ev("RandomWalk(observed)")
    V, eos, T = case["V"], case["eos"], case["max_iters"]
    if case["batch"] is None:
        y, lens, lp = y.unsqueeze(1), lens.unsqueeze(0), lp.unsqueeze(0)
    S, N = y.shape
    with torch.no_grad():
        prev = None if live["prev"] is None else dict(live["prev"])
        logits = walk.lm(y[:-1], prev).double().tolist() if S else []
    cols = y.t().tolist()
    for n in range(N):
        L = int(lens[n])
        p = cols[n][:L]
        mon.check(0 <= L <= S and all(0 <= t < V for t in p), "walk-token-range", observed=p, n=n)
        if eos is None:
            mon.check(L == T, "walk-ends-at-step-limit", observed=L, expected=T, n=n)
        else:
            mon.check(eos not in p[:-1], "walk-stops-at-first-eos", observed=p, eos=eos, n=n)
            mon.check((L > 0 and p[-1] == eos) or L == T, "walk-ends-at-eos-or-limit", observed=p, n=n)
        want = DEF.seq_log_prob([logits[t][n] for t in range(L)], p, eos, V)
        mon.close(float(lp[n]), want, 1e-3, "walk-log-prob-is-chained", rel=1e-4, n=n)


def hook_compare(case, output, mon):
    """What the test itself received must be what the judged re-execution produced."""
    import torch

    kind = case.get("kind")
    if kind == "slp_tensor":
        shape, V = case["shape"], case["V"]
        logits = torch.tensor(case["logits"], dtype=torch.float32).view(*shape, V)
        hyp = torch.tensor(case["hyp"], dtype=torch.long).view(*shape)
        again = _slp(mon, case, logits, hyp, case["dim"], case["eos"])
        same = ((again - output.float()).abs() <= 1e-5 + 1e-5 * again.abs()) | (again == output)
        mon.check(bool(same.all()), "observed-output", observed=output, expected=again)


_EXEC["walk_live"] = _exec_walk_live
