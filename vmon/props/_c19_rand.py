"""Interposed random primitives for C19 (mechanism D).

`torch.rand` / `torch.rand_like` / `torch.bernoulli` are looked up on the `torch` module at call
time by the (un-scripted) library code, so shadowing the attribute for the duration of a
`with` block is enough.  Everything is restored in `finally`.

Quadrature points: the first M = 2^m points of the (unscrambled) Sobol sequence shifted by
half a cell.  Every one-dimensional projection of that set is exactly the M-point midpoint
grid {(i+1/2)/M}, jointly the points form a (t,m,s)-net - a fixed, equal-weight quadrature
grid, which is what an estimator that takes a plain `mean(0)` over its samples needs.
Successive `rand`/`rand_like` calls of one estimator call consume successive coordinates of
the same point set, so that e.g. RELAX's (u, v) are integrated over the unit square.
"""
import contextlib

import torch

_SOBOL = {}


def sobol_midpoints(m_exp, dims):
    key = (m_exp, dims)
    pts = _SOBOL.get(key)
    if pts is None:
        M = 2 ** m_exp
        eng = torch.quasirandom.SobolEngine(dims, scramble=False)
        pts = eng.draw(M, dtype=torch.float64) + 0.5 / M
        if len(_SOBOL) > 6:
            _SOBOL.clear()
        _SOBOL[key] = pts
    return pts


class PointFeeder:
    """Answers rand(shape)/rand_like(t) with columns of a point set (rows = samples)."""

    def __init__(self, pts):
        self.pts, self.k, self.calls = pts, 0, []

    def _take(self, shape, dtype):
        shape = tuple(int(s) for s in shape)
        if len(shape) == 0 or shape[0] != self.pts.shape[0]:
            raise AssertionError("interposed rand: unexpected shape %r for %d points" % (shape, self.pts.shape[0]))
        n = 1
        for s in shape[1:]:
            n *= s
        if self.k + n > self.pts.shape[1]:
            raise AssertionError("interposed rand: point set has too few coordinates")
        out = self.pts[:, self.k:self.k + n].reshape(shape).to(dtype)
        self.k += n
        self.calls.append(shape)
        return out

    def rand(self, *size, **kw):
        if len(size) == 1 and not isinstance(size[0], int):
            size = tuple(size[0])
        return self._take(size, kw.get("dtype") or torch.get_default_dtype())

    def rand_like(self, t, **kw):
        return self._take(tuple(t.shape), kw.get("dtype") or t.dtype)


class ConstFeeder:
    """Hostile uniform draws: every draw is the same legal value of torch.rand (in [0,1))."""

    def __init__(self, value):
        self.value, self.calls = value, []

    def rand(self, *size, **kw):
        if len(size) == 1 and not isinstance(size[0], int):
            size = tuple(size[0])
        self.calls.append(tuple(size))
        return torch.full(tuple(size), self.value, dtype=kw.get("dtype") or torch.get_default_dtype())

    def rand_like(self, t, **kw):
        self.calls.append(tuple(t.shape))
        return torch.full_like(t, self.value)


class ListFeeder:
    """Successive calls are answered with prescribed tensors (broadcast-checked)."""

    def __init__(self, tensors):
        self.tensors, self.calls = list(tensors), []

    def _next(self, shape, dtype):
        shape = tuple(int(s) for s in shape)
        self.calls.append(shape)
        if not self.tensors:
            raise AssertionError("interposed rand: no prescribed draw left")
        t = self.tensors.pop(0)
        if tuple(t.shape) != shape:
            raise AssertionError("interposed rand: shape %r asked, %r prescribed" % (shape, tuple(t.shape)))
        return t.to(dtype).clone()

    def rand(self, *size, **kw):
        if len(size) == 1 and not isinstance(size[0], int):
            size = tuple(size[0])
        return self._next(size, kw.get("dtype") or torch.get_default_dtype())

    def rand_like(self, t, **kw):
        return self._next(tuple(t.shape), kw.get("dtype") or t.dtype)


@contextlib.contextmanager
def interpose_rand(feeder):
    o_rand, o_like = torch.rand, torch.rand_like
    torch.rand, torch.rand_like = feeder.rand, feeder.rand_like
    try:
        yield feeder
    finally:
        torch.rand, torch.rand_like = o_rand, o_like


class HostileBernoulli:
    """torch.bernoulli replaced by a legal-but-adversarial outcome: a draw with p=0 is 0 and with
    p=1 is 1 (as for the real primitive); everything in between is decided by `mode`."""

    def __init__(self, mode):
        self.mode, self.calls, self.fractional = mode, 0, 0

    def __call__(self, p, *a, **k):
        self.calls += 1
        self.fractional += int(((p > 0) & (p < 1)).sum())
        if bool(((p < 0) | (p > 1)).any()):
            raise AssertionError("bernoulli called with a probability outside [0,1]: %r" % (p.tolist(),))
        if self.mode == "ones":  # 1 whenever p > 0
            return (p > 0).to(p.dtype)
        if self.mode == "zeros":  # 0 whenever p < 1
            return (p >= 1).to(p.dtype)
        if self.mode == "alternate":
            v = (p > 0) if self.calls % 2 else (p >= 1)
            return v.to(p.dtype)
        if self.mode == "half":  # 1 iff p >= 1/2 (or certain)
            return ((p >= 0.5) & (p > 0)).to(p.dtype)
        raise ValueError(self.mode)


@contextlib.contextmanager
def interpose_bernoulli(h):
    orig = torch.bernoulli
    torch.bernoulli = h
    try:
        yield h
    finally:
        torch.bernoulli = orig
