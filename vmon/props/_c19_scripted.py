"""Scripted proposal distributions and function builders for C19 (mechanism C).

A scripted proposal *is* the real torch distribution (a subclass created on the fly), so
`log_prob`, `enumerate_support`, shapes and validation are the genuine ones; only `sample`
is replaced: it hands out the next prescribed draw and records the call.  Driving every
tuple of the sample space through the real estimator's `__call__` and weighting the results
with the tuple's probability integrates the randomness out exactly.
"""
import itertools

import torch

from ..oracles import c19_exact as X

_CACHE = {}


def _scripted_cls(base):
    cls = _CACHE.get(base)
    if cls is None:

        class Scripted(base):  # type: ignore[misc, valid-type]
            def sample(self, sample_shape=torch.Size()):
                st = self._vmon
                st["calls"].append(tuple(int(s) for s in sample_shape))
                if not st["queue"]:
                    raise AssertionError("scripted proposal ran out of prescribed draws")
                out = st["queue"].pop(0)
                st["given"].append(out)
                return out.clone()

        Scripted.__name__ = "Scripted" + base.__name__
        Scripted.__qualname__ = Scripted.__name__
        cls = _CACHE[base] = Scripted
    return cls


def build(family, kind, shape, theta, scripted=False):
    """The torch distribution of `family` parametrised by the tensor `theta`."""
    D = torch.distributions
    kw = {kind: theta}
    wrap = _scripted_cls if scripted else (lambda c: c)
    if family == "bern_batch":
        dist = wrap(D.Bernoulli)(**kw)
    elif family == "bern_indep":
        dist = wrap(D.Independent)(D.Bernoulli(**kw), 1)
    elif family in ("onehot", "onehot_batch"):
        dist = wrap(D.OneHotCategorical)(**kw)
    elif family == "cat":
        dist = wrap(D.Categorical)(**kw)
    elif family == "binom":
        dist = wrap(D.Binomial)(shape[0], **kw)
    else:
        raise ValueError(family)
    if scripted:
        dist._vmon = {"queue": [], "calls": [], "given": []}
    return dist


def build_srswor(given, total, out_size, scripted=False):
    import pydrobert.torch.distributions as PD

    cls = PD.SimpleRandomSamplingWithoutReplacement
    if scripted:
        cls = _scripted_cls(cls)
    dist = cls(given, total, out_size)
    if scripted:
        dist._vmon = {"queue": [], "calls": [], "given": []}
    return dist


def sample_tensor(family, omegas, idxs, dtype):
    """Stack the joint configurations `idxs` into what `sample([len(idxs)])` returns."""
    rows = [omegas[i] for i in idxs]
    if family == "cat":
        return torch.tensor(rows, dtype=torch.long)
    return torch.tensor(rows, dtype=dtype)


def make_func(family, shape, table, dtype, log_space=False, record=None):
    """f as a torch callable on samples (N,)+batch+event -> (N,)+batch.

    The table holds f's values (or log f's values if `log_space`) on the sample space, so
    every function on the space is representable.  Bernoulli functions are the multilinear
    extension of their table (also defined on relaxed values)."""
    t = torch.tensor(table, dtype=dtype)

    def f(b):
        if record is not None:
            record.append(b.detach().clone())
        if family == "bern_batch":
            return b * t[:, 1] + (1 - b) * t[:, 0]
        if family == "bern_indep":
            return multilinear(b, t)
        if family == "onehot":
            return (b * t).sum(-1)
        if family == "onehot_batch":
            return (b * t).sum(-1)
        if family in ("cat", "binom"):
            return t[b.long()]
        raise ValueError(family)

    return f


def multilinear(x, t):
    """sum_w t[w] prod_i (x_i if w_i else 1-x_i), w in itertools.product order."""
    d = x.shape[-1]
    out = 0
    for w, cfg in enumerate(itertools.product([0, 1], repeat=d)):
        term = t[w]
        for i, o in enumerate(cfg):
            term = term * (x[..., i] if o else 1 - x[..., i])
        out = out + term
    return out


def cv_mean(family, kind, shape, theta, ctable, log_space=False):
    """E_P[c(b)] as a *differentiable* function of the leaf `theta` (per independent problem)."""
    P = X.joint_probs(family, kind, shape, theta)
    C = torch.tensor(X.ftable(family, shape, ctable), dtype=theta.dtype)
    if log_space:
        C = C.exp()
    m = P @ C
    if log_space:
        m = m.log()
    if X.n_out(family, shape) == 1 and family not in ("bern_batch", "onehot_batch"):
        m = m.reshape(())
    return m
