"""C03 - optimal-completion targets are exactly the distance-preserving next tokens.

Monitored entry points: functional.optimal_completion, hard_optimal_completion_distillation_loss and
the modules OptimalCompletion, HardOptimalCompletionDistillationLoss (case["form"]).
Only dyadic costs are generated, so ties in the distance table are decided without rounding.
Pairs whose hypothesis has no counted token are driven but not judged (the statement speaks of
hypotheses with at least one counted token; with exclude_last no prefix exists there).
"""
import itertools
import math
import warnings

from .. import layout as LY
from ..oracles import c03_oc as O
from ..oracles import lev
from . import _strgen as G

ID = "C03"
LEVEL = "exploration"
RULE = (
    "class-directed random ragged batches as in C01 with dyadic cost triples only (N<=6, lengths 0..6 "
    "quick / 0..12 thorough, alphabets 1-4, repeated reference tokens, hypotheses longer than the "
    "reference, hostile eos/filler, include_eos/exclude_last/batch_first all combinations, functional "
    "and module forms) plus small-scope classes (lengths<=4) on which the definitional brute-force "
    "oracle runs; every 4th case drives hard_optimal_completion_distillation_loss (N<=4, V<=6, every "
    "reduction, uniform and ragged batches, logits with small and large spread); in thorough "
    "additionally every (ref,hyp) over a 2-letter alphabet with lengths<=4 under every flag combination "
    "and 3 cost triples.  A case is distinct by the hash of its concrete inputs and non-trivial if at "
    "least one judged pair has a non-empty reference and a hypothesis that differs from it"
)
ASSUMPTIONS = [
    "table oracle: targets of a prefix = reference tokens at the row minima of the Fraction distance "
    "table; validated in the same run by the definitional brute-force oracle (all completions of length "
    "<= |ref|+1 over the reference's tokens plus one foreign token) wherever that is affordable",
    "dyadic costs: float32 cost sums are exact, so no tie exists only in floating point",
    "padding / ignore_index never equals a reference token (generator guarantees it)",
    "loss compared in float64 within 2e-6*S + 1e-5*|expected| (S = max(1, largest |logit| of the call): float32 "
    "log-sum-exp error scales with the logits); 'mean' is pinned on uniform batches "
    "and on ragged batches must equal one of the listed sensible averagings",
    "USE_JIT off (library runs as plain Python)",
]
BUDGET = {
    "quick": dict(cases=1500, shards=4, timeout=1800),
    "thorough": dict(cases=5000, shards=16, timeout=5400),
}
SMALL = ["small_ragged", "small_repeats", "small_alphabet1", "small_tie_costs", "small_hyp_longer",
         "small_unequal_costs"]
OC_CLASSES = [c for c in G.CLASSES if c != "nondyadic"] + SMALL + ["mismatch", "small_mismatch", "multi_repeat",
                                                                     "cheap_sub_ragged", "uniform_nondyadic"]
LOSS_CLASSES = ["ocd_uniform", "ocd_ragged", "ocd_repeats", "ocd_hyp_longer", "ocd_alphabet1", "ocd_spread",
                "ocd_mismatch", "ocd_teacher_forced"]
CLASSES = OC_CLASSES + LOSS_CLASSES + ["zero_dim_eos"]
FLOORS = {
    "quick": {
        "events": {"optimal_completion": 2000, "hard_optimal_completion_distillation_loss": 700,
                   "assert:targets-exact": 12000, "assert:targets-distinct": 12000,
                   "assert:padding-only-after": 12000, "assert:past-end-padding": 3000,
                   "assert:targets-definitional": 10000, "assert:oracle-cross": 10000,
                   "assert:loss-none-value": 1200, "assert:loss-sum-value": 150,
                   "assert:loss-mean-uniform": 30, "assert:loss-mean-ragged": 100,
                   "assert:loss-mean-one-convention": 30},
        "classes": dict({c: 70 for c in OC_CLASSES}, mean_convention_discriminated_on_both_batches=8,
                        loss_batch_without_any_multi_target_prefix=10, **{c: 70 for c in LOSS_CLASSES}),
        "stats": {"prefixes_with_several_targets": 800, "prefixes_without_target": 3000,
                  "target_token_repeated_in_ref": 4000, "hyp_longer_than_ref_pairs": 2000,
                  "brute_pairs": 3500, "form_module": 1000, "unjudged_empty_hyp_pairs": 500,
                  "loss_prefixes_with_several_targets": 150, "zero_width_reference_tensor": 20},
        "distinct": 1500,
    },
    "thorough": {
        "events": {"optimal_completion": 50000, "hard_optimal_completion_distillation_loss": 12000,
                   "assert:targets-exact": 500000, "assert:targets-definitional": 100000},
        "classes": dict({c: 1500 for c in OC_CLASSES}, exhaustive2=23064,
                        **{c: 1500 for c in LOSS_CLASSES}),
        "stats": {"prefixes_with_several_targets": 10000, "prefixes_without_target": 10000,
                  "target_token_repeated_in_ref": 50000, "loss_prefixes_with_several_targets": 2000},
        "distinct": 60000,
    },
}
EXHAUSTIVE = {"thorough": False}
FOREIGN = -424242  # a token that no generated reference contains
BRUTE_BUDGET = {"quick": 200000, "thorough": 400000}


# --------------------------------------------------------------------------
# generation


def _free_padding(rng, tokens, prefer):
    taken = set(tokens)
    for p in [prefer, -100, -1, 7, -77, -78, -79]:
        if p not in taken:
            return p
    return min(taken) - 1


def generate(rng, tier, i):
    if i % 97 == 96:
        case = G.gen_string_case(rng, tier, 0, classes=OC_CLASSES)
        case["class"], case["kind"] = "zero_dim_eos", "oc"
        case["eos"] = 0 if case["eos"] is None else case["eos"]
        if rng.random() < 0.5:
            case["R"], case["ref"] = 0, [[] for _ in case["ref"]]
        else:
            case["H"], case["hyp"] = 0, [[] for _ in case["hyp"]]
        return case
    if i % 4 == 3:
        return gen_loss_case(rng, tier, i // 4)
    j = (i // 4) * 3 + i % 4
    cls = OC_CLASSES[j % len(OC_CLASSES)]
    if i % 1200 == 598:
        # a batch whose (R + 1) x (R + 1) x N working set runs to millions of entries, N not a round number
        R = rng.choice([63, 127, 255])
        cells = rng.choice([2 ** 20, 2 ** 21, 2 ** 22, 2 ** 22])
        N = max(3, int(cells * rng.uniform(1.0, 2.2)) // (R + 1) ** 2 + rng.randint(1, 13))
        case = G.gen_string_case(rng, tier, G.CLASSES.index(rng.choice(["ragged", "equal_costs", "unequal_costs"])),
                                 dims=(N, R, rng.randint(3, 6)))
        case["class"] = "huge_batch"
    elif cls == "uniform_nondyadic":
        # one common cost that binary floating point cannot hold (0.1, 0.7, 1/3): sums along different alignments of
        # equal true cost differ in the last place
        case = G.gen_string_case(rng, tier, G.CLASSES.index(rng.choice(["ragged", "repeats", "hyp_longer"])))
        case["class"] = cls
        c = rng.choice([0.1, 0.3, 0.7, 1.1, 1.0 / 3, 0.06])
        case["costs"] = [c, c, c]
    elif cls in SMALL:
        base = cls[len("small_"):]
        case = G.gen_string_case(rng, tier, G.CLASSES.index(base), max_len=4)
        case["class"] = cls
    elif cls in ("mismatch", "small_mismatch"):
        # hypothesis tokens mostly foreign to the reference: many ties, several targets per prefix
        case = G.gen_string_case(rng, tier, G.CLASSES.index("ragged"), max_len=4 if cls[0] == "s" else None)
        case["class"] = cls
        eos = case["eos"]
        case["ref"] = [[t if t == eos or not 1 <= t <= 4 else 1 + (t + p) % 4 for p, t in enumerate(col)]
                       for col in case["ref"]]
        case["hyp"] = [[t if t == eos or rng.random() < 0.35 else rng.choice([5, 6]) for t in col]
                       for col in case["hyp"]]
        if rng.random() < 0.7:
            a, b = rng.choice([0.5, 1.0, 1.5]), rng.choice([0.5, 1.0, 1.5])
            case["costs"] = rng.choice([[a, a, a], [a, b, a], [a, b, a]])  # sub == ins: row ties
    elif cls == "cheap_sub_ragged":
        # a substitution cheaper than an insertion, references of very different lengths in one batch (what lies
        # past a short reference's end in the padded tensor must never become a row minimum), hypotheses at least
        # as long as the short reference
        case = G.gen_string_case(rng, tier, G.CLASSES.index("ragged"), max_len=5)
        case["class"] = cls
        eos = case["eos"] = 0
        N = max(2, len(case["ref"]))
        R, H = rng.randint(3, 5), rng.randint(3, 5)
        case["R"], case["H"] = R, H
        refs, hyps = [], []
        for n in range(N):
            L = rng.choice([1, 1, 2]) if n % 2 == 0 else rng.randint(2, R)
            ref = [rng.choice([1, 2]) for _ in range(L)]
            if L < R:
                ref += [eos] + [rng.choice([eos, 1, 2]) for _ in range(R - L - 1)]
            refs.append(ref)
            Lh = rng.randint(2, H)
            hyp = [rng.choice([1, 2, 2]) for _ in range(Lh)]
            if Lh < H:
                hyp += [eos] + [rng.choice([eos, 1, 2]) for _ in range(H - Lh - 1)]
            hyps.append(hyp)
        case["ref"], case["hyp"] = refs, hyps
        case["costs"] = rng.choice([[2.0, 1.0, 1.0], [1.5, 1.0, 0.5], [3.0, 0.5, 1.0], [2.0, 2.0, 1.0], [1.0, 1.0, 0.5]])
    elif cls == "multi_repeat":
        # a token at >= 3 reference positions, two letters only: some occurrences are optimal next
        # tokens while an occurrence in between is not (duplicate handling of the target list)
        case = G.gen_string_case(rng, tier, G.CLASSES.index("ragged"))
        case["class"] = cls
        N = len(case["ref"])
        R, H = rng.randint(4, 6), rng.randint(2, 5)
        case["R"], case["H"] = R, H
        case["eos"] = rng.choice([None, 0])
        refs, hyps = [], []
        for _ in range(N):
            major = rng.choice([1, 2])
            ref = [major if rng.random() < 0.65 else 3 - major for _ in range(R)]
            for pos in rng.sample(range(R), 3):
                ref[pos] = major
            refs.append(ref)
            hyps.append([rng.choice([1, 2, 2, 1, 5]) for _ in range(H)])
        case["ref"], case["hyp"] = refs, hyps
        a = rng.choice([0.5, 1.0])
        case["costs"] = rng.choice([[1.0, 1.0, 1.0], [a, a, 2 * a], [a, a, 2 * a + 0.5], [1.0, 0.5, 1.0]])
    else:
        case = G.gen_string_case(rng, tier, j, classes=OC_CLASSES)
    case["kind"] = "oc"
    del case["norm"]
    case["padding"] = _free_padding(rng, [t for col in case["ref"] for t in col], case["padding"])
    return case


def _gen_teacher_forced(rng, tier, j):
    """Every hypothesis is a (proper or full) prefix of its own reference, references without repeated tokens, unit
    costs: NO prefix in the whole batch has more than one optimal next token, and the sequences contribute different
    numbers of prefixes.  A second, ordinary ragged batch under the same settings rides along (`probe`): whatever
    convention 'mean' follows, it is the same function of the per-prefix losses on both batches (the probe keeps its own vocabulary, eos and costs)."""
    V = rng.randint(3, 6)
    eos = rng.randrange(V)
    toks = [t for t in range(V) if t != eos]
    N = rng.randint(2, 4)
    R = rng.randint(2, len(toks))
    ks = [rng.randint(0, R) for _ in range(N)]
    if len(set(ks)) == 1:
        ks[0] = (ks[0] + 1 + rng.randrange(R)) % (R + 1)
    H = max(ks) + 1
    refs, hyps = [], []
    for n in range(N):
        ref = rng.sample(toks, rng.randint(max(1, ks[n]), R))
        hyp = ref[:ks[n]] + [eos]
        hyp += [rng.choice(toks + [eos, 97, -5]) for _ in range(H - len(hyp))]
        if len(ref) < R:
            ref = ref + [eos] + [rng.choice(toks + [eos]) for _ in range(R - len(ref) - 1)]
        refs.append(ref)
        hyps.append(hyp)
    scale = rng.choice([0.5, 1.0, 3.0])
    logits = [[[round(rng.gauss(0.0, 1.0) * scale, 3) for _ in range(V)] for _ in range(H)] for _ in range(N)]
    case = {
        "class": "ocd_teacher_forced", "kind": "loss", "ref": refs, "hyp": hyps, "logits": logits, "V": V, "eos": eos,
        "include_eos": rng.random() < 0.5, "batch_first": rng.random() < 0.5,
        "reduction": "mean" if rng.random() < 0.8 else rng.choice(["none", "sum"]), "costs": [1.0, 1.0, 1.0],
        "ignore_index": rng.choice([-2, -100, -1, V, V + 7]), "form": rng.choice(["functional", "module"]),
        "R": R, "H": H,
    }
    probe = gen_loss_case(rng, tier, LOSS_CLASSES.index(rng.choice(["ocd_ragged", "ocd_mismatch"])))
    for k in ("batch_first", "reduction", "form"):
        probe[k] = case[k]
    case["probe"] = probe
    return case


def gen_loss_case(rng, tier, j):
    cls = LOSS_CLASSES[j % len(LOSS_CLASSES)]
    if cls == "ocd_teacher_forced":
        return _gen_teacher_forced(rng, tier, j)
    big = tier == "thorough"
    maxlen = 9 if big else 6
    V = rng.randint(2, 6)
    N = rng.randint(1, 4)
    R, H = rng.randint(1, maxlen), rng.randint(1, maxlen)
    if cls == "ocd_hyp_longer":
        R = rng.randint(1, max(1, maxlen // 2))
        H = rng.randint(R, maxlen)
    if cls == "ocd_mismatch":
        V = rng.randint(4, 6)
    asz = 1 if cls == "ocd_alphabet1" else V if cls == "ocd_mismatch" else rng.randint(1, V)
    alphabet = rng.sample(range(V), asz)
    eos = None if cls == "ocd_uniform" or rng.random() < 0.15 else rng.randrange(V)
    include_eos = rng.random() < 0.5
    if eos is None and rng.random() < 0.08:
        R = 0  # zero-width reference tensor without eos: every reference is empty
    refs, hyps = [], []
    for n in range(N):
        ref = G.gen_col(rng, R, alphabet, eos, "any")
        if cls == "ocd_repeats":
            pat = rng.choice([[0, 0, 1], [0, 1, 0, 1], [0, 0, 0, 0], [0, 1, 1, 0]])
            toks = [alphabet[p % len(alphabet)] for p in pat][:R]
            ref = toks + ([eos] if eos is not None and len(toks) < R else [])
            ref += [rng.choice(alphabet) for _ in range(R - len(ref))]
        halpha = alphabet + [rng.randrange(V)]
        if cls == "ocd_mismatch":
            halpha = [rng.randrange(V), 97, 97]  # mostly foreign to the reference: ties, several targets
        hyp = G.gen_col(rng, H, halpha, eos, rng.choice(["noeos", "any"]) if cls == "ocd_hyp_longer" else "any")
        # gen_col's hostile filler contains 97 and -5: keep class indices of the reference in range
        ref = [t if 0 <= t < V else rng.randrange(V) for t in ref]
        hyp = [t if 0 <= t < V else rng.choice([rng.randrange(V), 97, -5]) for t in hyp]
        refs.append(ref)
        hyps.append(hyp)
    r = rng.random()
    if cls == "ocd_mismatch" and r < 0.8:
        a, b = rng.choice([0.5, 1.0, 1.5]), rng.choice([0.5, 1.0, 1.5])
        costs = [a, b, a]  # sub == ins: row ties
    elif cls == "ocd_alphabet1" or r < 0.35:
        c = rng.choice(G.DYADIC)
        costs = [c, c, c]
    elif r < 0.6:
        a, b = rng.choice([0.25, 0.5, 1.0, 1.5]), rng.choice([0.25, 0.5, 1.0, 1.5])
        costs = [a, b, a + b]
    else:
        costs = [rng.choice(G.DYADIC) for _ in range(3)]
    scale = rng.choice([10.0, 25.0]) if cls == "ocd_spread" else rng.choice([0.5, 1.0, 3.0])
    logits = [[[round(rng.gauss(0.0, 1.0) * scale, 3) for _ in range(V)] for _ in range(H)] for _ in range(N)]
    extra = rng.random()
    if extra < 0.12 and H and N:
        # one or two entries of the whole tensor are enormous (a constrained decoder's forced token, junk at a step
        # past a hypothesis's end): every OTHER prefix's loss is still that prefix's own
        for _ in range(rng.randint(1, 2)):
            logits[rng.randrange(N)][rng.randrange(H)][rng.randrange(V)] = rng.choice([3e8, 1e9, -3e8])
    elif extra < 0.24 and H and N:
        # a class that is never a target (absent from every reference, not eos) is masked out by the model: -inf
        used = {t for col in refs for t in col} | {eos}
        free = [c for c in range(V) if c not in used]
        if free:
            c = rng.choice(free)
            everywhere = rng.random() < 0.5
            for n in range(N):
                for k in range(H):
                    if everywhere or rng.random() < 0.4:
                        logits[n][k][c] = float("-inf")
    return {
        "class": cls, "kind": "loss", "ref": refs, "hyp": hyps, "logits": logits, "V": V, "eos": eos,
        "include_eos": include_eos, "batch_first": rng.random() < 0.5,
        "reduction": ["none", "sum", "mean"][(j // len(LOSS_CLASSES)) % 3], "costs": costs,
        "ignore_index": rng.choice([-2, -100, -1, V, V + 7]), "form": rng.choice(["functional", "module"]),
        "R": R, "H": H,
    }


def enumerate_cases(tier):
    if tier != "thorough":
        return
    seqs = [list(s) for L in range(0, 5) for s in itertools.product([1, 2], repeat=L)]
    costs = [[1.0, 1.0, 1.0], [0.5, 1.0, 1.5], [1.0, 0.5, 3.0]]
    for ref in seqs:
        for hyp in seqs:
            R, H = 4, 4
            r = ref + ([0] + [1] * (R - len(ref) - 1) if len(ref) < R else [])
            h = hyp + ([0] + [2] * (H - len(hyp) - 1) if len(hyp) < H else [])
            for k in range(8):
                for c in costs:
                    yield {
                        "class": "exhaustive2", "kind": "oc", "ref": [r], "hyp": [h], "eos": 0,
                        "include_eos": bool(k & 1), "batch_first": bool(k & 2),
                        "exclude_last": bool(k & 4), "costs": c, "padding": -100,
                        "form": "functional", "R": R, "H": H,
                    }


# --------------------------------------------------------------------------
# optimal_completion


def _call_oc(mon, case, ref, hyp):
    import pydrobert.torch.functional as F
    import pydrobert.torch.modules as M

    ins, dl, sub = G.costs_as_given(case)
    kw = dict(eos=case["eos"], include_eos=case["include_eos"], batch_first=case["batch_first"],
              ins_cost=ins, del_cost=dl, sub_cost=sub, padding=case["padding"],
              exclude_last=case["exclude_last"], warn=G.warn_flag(case))
    # zero-size sequence *tensor dimension* (not an empty sequence): with eos set, or with
    # exclude_last on a hypothesis tensor without any column, the library raises; DESIGN 3/C01 limits
    zero_dim = (case["R"] == 0 or case["H"] == 0) and case["eos"] is not None
    zero_dim = zero_dim or (case["H"] == 0 and case["exclude_last"])
    documented = (RuntimeError, IndexError) if zero_dim else ()
    with warnings.catch_warnings(), G.process_mode(case):
        warnings.simplefilter("ignore")
        if case["form"] == "module":
            mon.stat("form_module")
            return mon.lib("optimal_completion", lambda: LY.travelled(G.build_module(M.OptimalCompletion, kw, case), case["R"], case["H"], len(case["ref"]))(ref, hyp),
                           documented=documented)
        return mon.lib("optimal_completion", lambda: F.optimal_completion(ref, hyp, **kw),
                       documented=documented)


def _targets(mon, case, r, h, budget):
    """Target sets of every prefix of h from the table oracle; validated by the definitional oracle
    when affordable.  Returns (targets, brute or None, remaining budget)."""
    ins, dl, sub = case["costs"]
    tab = O.targets_by_prefix(r, h, ins, dl, sub)
    brute = None
    work = O.brute_work(r, h, len(set(r) | set(h)) + 1)
    if len(r) <= 4 and work <= budget and FOREIGN not in r:
        budget -= work
        brute = O.brute_targets_by_prefix(r, h, ins, dl, sub, FOREIGN)
        mon.stat("brute_pairs")
        for k in range(len(h) + 1):
            mon.check(brute[k] == tab[k], "oracle-cross", table=sorted(tab[k]), definitional=sorted(brute[k]),
                      ref=r, prefix=h[:k], costs=case["costs"])
    return tab, brute, budget


def _exec_oc(case, mon):
    ref_t, hyp_t = G.to_tensors(case)
    N = len(case["ref"])
    eos, inc = case["eos"], case["include_eos"]
    pad = case["padding"]
    c3 = case["costs"]
    uniform = c3[0] == c3[1] == c3[2] > 0
    judged = (uniform or G.is_dyadic(c3)) and min(c3) > 0
    judged = judged and all(pad not in col for col in case["ref"])
    if not judged:
        mon.ambiguous("non-dyadic-costs-or-padding-collides")
    # three equal costs: which tokens keep the distance does not depend on the common value (0.1 like 1.0), so the
    # oracle works with unit costs and needs no exact arithmetic in the common value
    ocase = dict(case, costs=[1.0, 1.0, 1.0]) if (uniform and not G.is_dyadic(c3)) else case
    if ocase is not case:
        mon.cls("uniform_nondyadic_costs")
    out = _call_oc(mon, case, ref_t, hyp_t)
    if case["class"] == "zero_dim_eos":
        mon.stat("zero_dim_eos_returned")
    H = case["H"]
    if case["R"] == 0:
        mon.stat("zero_width_reference_tensor")
    if H == 0 and case["exclude_last"]:
        # the one combination the property excludes: no prefix exists
        mon.ood("empty-hypothesis-tensor-with-exclude_last")
        return
    rows = H if case["exclude_last"] else H + 1
    if case["batch_first"]:
        mon.check(out.dim() == 3 and tuple(out.shape[:2]) == (N, rows), "shape", observed=list(out.shape),
                  expected=[N, rows, "U"])
        out = out.transpose(0, 1)
    else:
        mon.check(out.dim() == 3 and tuple(out.shape[:2]) == (rows, N), "shape", observed=list(out.shape),
                  expected=[rows, N, "U"])
    if not judged:
        return
    U = out.shape[2]
    budget = BRUTE_BUDGET.get(mon.tier, 200000)
    nontrivial = False
    got = out.tolist()
    for n in range(N):
        r = lev.seq_of(case["ref"][n], eos, inc)
        h = lev.seq_of(case["hyp"][n], eos, inc)
        if len(h) == 0:
            # no counted token: outside the statement (and with exclude_last no prefix exists)
            mon.stat("unjudged_empty_hyp_pairs")
            continue
        if r and r != h:
            nontrivial = True
        if len(h) > len(r):
            mon.stat("hyp_longer_than_ref_pairs")
        tab, brute, budget = _targets(mon, ocase, r, h, budget)
        last = len(h) - (1 if case["exclude_last"] else 0)
        for k in range(rows):
            entries = got[k][n]
            if k > last:
                mon.check(all(x == pad for x in entries), "past-end-padding", observed=entries, n=n, k=k,
                          hyp_len=len(h), padding=pad)
                continue
            nonpad = [x for x in entries if x != pad]
            ctx = dict(n=n, k=k, ref=r, prefix=h[:k], observed=entries, costs=case["costs"])
            mon.check(len(set(nonpad)) == len(nonpad), "targets-distinct", **ctx)
            mon.check(set(nonpad) == tab[k], "targets-exact", expected=sorted(tab[k]), **ctx)
            if brute is not None:
                mon.check(set(nonpad) == brute[k], "targets-definitional", expected=sorted(brute[k]), **ctx)
            mon.check(entries == nonpad + [pad] * (U - len(nonpad)), "padding-only-after", padding=pad, **ctx)
            if len(tab[k]) > 1:
                mon.stat("prefixes_with_several_targets")
            if len(tab[k]) == 0:
                mon.stat("prefixes_without_target")
            if any(r.count(t) > 1 for t in tab[k]):
                mon.stat("target_token_repeated_in_ref")
    if not nontrivial:
        mon.trivial()


# --------------------------------------------------------------------------
# hard_optimal_completion_distillation_loss


def _loss_tensors(case):
    import torch

    N = len(case["ref"])
    ref = torch.tensor(case["ref"], dtype=torch.long).reshape(N, case["R"])
    hyp = torch.tensor(case["hyp"], dtype=torch.long).reshape(N, case["H"])
    logits = torch.tensor(case["logits"], dtype=torch.float32).reshape(N, case["H"], case["V"])
    if not case["batch_first"]:
        ref, hyp = ref.t().contiguous(), hyp.t().contiguous()
        logits = logits.transpose(0, 1).contiguous()
    lay = G.layout_of(case)
    return G.relayout(logits, lay), G.relayout(ref, lay), G.relayout(hyp, lay)


def _call_loss(mon, case, logits, ref, hyp):
    import pydrobert.torch.functional as F
    import pydrobert.torch.modules as M

    ins, dl, sub = G.costs_as_given(case)
    kw = dict(eos=case["eos"], include_eos=case["include_eos"], batch_first=case["batch_first"],
              ins_cost=ins, del_cost=dl, sub_cost=sub, reduction=case["reduction"],
              ignore_index=case["ignore_index"])
    name = "hard_optimal_completion_distillation_loss"
    with warnings.catch_warnings(), G.process_mode(case):
        warnings.simplefilter("ignore")
        if case["form"] == "module":
            mon.stat("form_module")
            return mon.lib(name, lambda: LY.travelled(G.build_module(M.HardOptimalCompletionDistillationLoss, kw, case), case["R"], case["H"], len(case["ref"]))(logits, ref, hyp, warn=G.warn_flag(case)))
        return mon.lib(name, lambda: F.hard_optimal_completion_distillation_loss(logits, ref, hyp, warn=G.warn_flag(case), **kw))


def _targets_of(case, n):
    r = lev.seq_of(case["ref"][n], case["eos"], case["include_eos"])
    h = lev.seq_of(case["hyp"][n], case["eos"], case["include_eos"])
    if not h:
        return []
    ins, dl, sub = case["costs"]
    tab = O.targets_by_prefix(r, h, ins, dl, sub)
    return [tab[k] for k in range(min(len(h), case["H"]))]


def _nll(logit_row):
    m = max(logit_row)
    lse = m + math.log(sum(math.exp(x - m) for x in logit_row))
    return [lse - x for x in logit_row]


def _tol(b, scale):
    return 2e-6 * scale + 1e-5 * abs(b)


def _near(a, b, scale):
    return a == a and abs(a - b) <= _tol(b, scale)


def _exec_loss(case, mon):
    import torch

    N, H, V = len(case["ref"]), case["H"], case["V"]
    eos, inc = case["eos"], case["include_eos"]
    ins, dl, sub = case["costs"]
    red = case["reduction"]
    ign = case["ignore_index"]
    readings = None
    judged = G.is_dyadic(case["costs"]) and min(case["costs"]) > 0
    judged = judged and all(ign not in col for col in case["ref"])
    judged = judged and all(0 <= t < V for col in case["ref"] for t in col)
    if not judged:
        mon.ambiguous("non-dyadic-costs-or-reference-token-not-a-class")
    logits, ref, hyp = _loss_tensors(case)
    # the same numbers in a validation loop (no_grad), in a training step (logits that require grad) and plain
    gm = (N + H + case["R"] + V) % 3
    if gm == 1:
        with torch.no_grad():
            out = _call_loss(mon, case, logits, ref, hyp)
        mon.cls("loss_called_under_no_grad")
    elif gm == 2 and logits.dtype.is_floating_point:
        with torch.enable_grad():
            out = _call_loss(mon, case, logits.detach().clone().requires_grad_(True), ref, hyp).detach()
        mon.cls("loss_called_on_logits_requiring_grad")
    else:
        out = _call_loss(mon, case, logits, ref, hyp)
    mon.stat("loss_reduction_" + red)
    if case["R"] == 0:
        mon.stat("zero_width_reference_tensor")
    want_shape = ((N, H) if case["batch_first"] else (H, N)) if red == "none" else ()
    mon.check(tuple(out.shape) == want_shape, "loss-shape", observed=list(out.shape), expected=list(want_shape))
    if not judged:
        return
    lg64 = (logits if case["batch_first"] else logits.transpose(0, 1)).double().tolist()  # [N][H][V]
    finite = logits[torch.isfinite(logits)]
    scale = max(1.0, float(finite.abs().max())) if finite.numel() else 1.0
    if bool((logits == float("-inf")).any()):
        mon.cls("loss_class_masked_out_by_minus_inf")
    if scale >= 1e8:
        mon.cls("loss_enormous_logit_somewhere")

    def row_scale(n, k):
        # a prefix's loss is a function of that prefix's own logits: its round-off scales with THEM
        return max([1.0] + [abs(x) for x in lg64[n][k] if math.isfinite(x)])
    # per pair: the expected per-prefix losses (None = prefix past the end), in float64
    exp = []  # exp[n][k]
    excluded = []  # pairs with an empty hypothesis: not judged; both conventions admitted in reductions
    alt0 = {}  # n -> value of row 0 under the library's other convention for an empty hypothesis
    nontrivial = False
    for n in range(N):
        r = lev.seq_of(case["ref"][n], eos, inc)
        h = lev.seq_of(case["hyp"][n], eos, inc)
        if len(h) == 0:
            excluded.append(n)
            mon.stat("unjudged_empty_hyp_pairs")
            exp.append(([None] * H, None))
            if r:
                alt0[n] = _nll(lg64[n][0])[r[0]]
            continue
        if r and r != h:
            nontrivial = True
        tab = O.targets_by_prefix(r, h, ins, dl, sub)
        row = []
        for k in range(H):
            if k >= len(h):
                row.append(None)
            elif not tab[k]:
                row.append(0.0)
                mon.stat("loss_prefixes_without_target")
            else:
                nll = _nll(lg64[n][k])
                row.append(sum(nll[t] for t in tab[k]) / len(tab[k]))
                if len(tab[k]) > 1:
                    mon.stat("loss_prefixes_with_several_targets")
        exp.append((row, tab))
    got = out.double()
    if red == "none":
        g = (got if case["batch_first"] else got.t()).tolist()
        for n in range(N):
            if n in excluded:
                continue
            row, tab = exp[n]
            for k in range(H):
                want = 0.0 if row[k] is None else row[k]
                rs = row_scale(n, k)
                ok = _near(g[n][k], want, rs) and (want != 0.0 or g[n][k] == 0.0)
                if ok:
                    mon.dev("loss(fraction of tolerance)", abs(g[n][k] - want) / _tol(want, rs), 1.0)
                mon.check(ok, "loss-none-value", observed=g[n][k], expected=want, n=n, k=k,
                          past_end=row[k] is None, targets=sorted(tab[k]) if row[k] is not None else None)
    else:
        # entries per sequence: (value, has_targets) for valid prefixes
        variants = [[]]
        for n in range(N):
            if n in excluded:
                opts = [[]]
                if n in alt0:
                    opts.append([(alt0[n], True)])
                variants = [v + [o] for v in variants for o in opts]
            else:
                row, tab = exp[n]
                ent = [(row[k], bool(tab[k])) for k in range(H) if row[k] is not None]
                variants = [v + [ent] for v in variants]
        g = float(got)
        uniform = not excluded and all(len(e) == H and all(t for _, t in e) for e in variants[0])
        cands = {}
        for vi, seqs in enumerate(variants):
            total = sum(v for e in seqs for v, _ in e)
            if red == "sum":
                cands["sum/%d" % vi] = total
                continue
            nonempty = [sum(1 for _, t in e if t) for e in seqs]
            valid = [len(e) for e in seqs]
            sums = [sum(v for v, _ in e) for e in seqs]
            cands["macro-over-batch-of-mean-over-prefixes-with-targets/%d" % vi] = (
                sum(s / max(1, c) for s, c in zip(sums, nonempty)) / N)
            live = [i for i, c in enumerate(nonempty) if c]
            if live:
                cands["macro-over-sequences-with-targets/%d" % vi] = (
                    sum(sums[i] / nonempty[i] for i in live) / len(live))
            cands["micro-over-prefixes-with-targets/%d" % vi] = total / max(1, sum(nonempty))
            cands["micro-over-valid-prefixes/%d" % vi] = total / max(1, sum(valid))
            cands["macro-over-batch-of-mean-over-valid-prefixes/%d" % vi] = (
                sum(s / max(1, c) for s, c in zip(sums, valid)) / N)
            cands["mean-over-all-entries/%d" % vi] = total / (N * H)
        hit = [k for k, v in cands.items() if _near(g, v, scale)]
        if hit:
            v = cands[hit[0]]
            mon.dev("loss(fraction of tolerance)", abs(g - v) / _tol(v, scale), 1.0)
        if red == "sum":
            mon.check(bool(hit), "loss-sum-value", observed=g, admissible=cands)
        elif uniform:
            mon.check(bool(hit), "loss-mean-uniform", observed=g, expected=cands["mean-over-all-entries/0"])
        else:
            mon.check(bool(hit), "loss-mean-ragged", observed=g, admissible=cands)
            if hit:
                if len(hit) < len(cands):
                    mon.observe("mean_reading_on_ragged", "+".join(sorted({x.split("/")[0] for x in hit})))
                readings = {"got": g, "agree": sorted({x.split("/")[0] for x in hit}),
                            "all": sorted({x.split("/")[0] for x in cands}),
                            "values": {k: v for k, v in cands.items()}}
    if not nontrivial:
        mon.trivial()
    return readings


def execute(case, mon):
    if case.get("kind", "oc") == "loss":
        a = _exec_loss(case, mon)
        if case.get("probe") is not None:
            probe = dict(case["probe"], layout=case.get("layout"))
            b = _exec_loss(probe, mon)
            if a and b:
                if len(a["agree"]) < len(a["all"]) and len(b["agree"]) < len(b["all"]):
                    mon.cls("mean_convention_discriminated_on_both_batches")
                if all(len(t) <= 1 for n in range(len(case["ref"])) for t in _targets_of(case, n)):
                    mon.cls("loss_batch_without_any_multi_target_prefix")
                mon.check(bool(set(a["agree"]) & set(b["agree"])), "loss-mean-one-convention",
                          batch=a, second_batch=b,
                          why="'mean' follows one convention on one batch and another on a second batch "
                              "under the same settings")
    else:
        _exec_oc(case, mon)


# ---- mechanism B: the repository's own tests as an additional workload (thorough tier)
PYTEST_FILES = ["tests/test_string.py"]


def hook_case(module, args, kwargs, output):
    import torch

    if torch.jit.is_tracing() or torch.jit.is_scripting():
        return None  # shapes are traced values there; the eager calls of the same tests are observed
    name = type(module).__name__
    if name == "OptimalCompletion":
        ref, hyp = args[0], args[1]
        if ref.dim() != 2 or hyp.dim() != 2 or ref.numel() > 4000 or hyp.numel() > 4000:
            return None
        bf = bool(module.batch_first)
        r = (ref if bf else ref.t()).tolist()
        h = (hyp if bf else hyp.t()).tolist()
        if len(r) != len(h) or len(r) == 0:
            return None
        return {
            "class": "repo_test_call", "kind": "oc", "ref": r, "hyp": h, "eos": module.eos,
            "include_eos": bool(module.include_eos), "batch_first": bf,
            "exclude_last": bool(module.exclude_last),
            "costs": [float(module.ins_cost), float(module.del_cost), float(module.sub_cost)],
            "padding": int(module.padding), "form": "functional", "R": len(r[0]), "H": len(h[0]),
            "observed_module": name,
        }
    if name == "HardOptimalCompletionDistillationLoss":
        logits, ref, hyp = args[0], args[1], args[2]
        if module.weight is not None or logits.dim() != 3 or ref.dim() != 2 or hyp.dim() != 2:
            return None
        if logits.numel() > 20000 or ref.numel() > 4000:
            return None
        bf = bool(module.batch_first)
        if not bf:
            ref, hyp, logits = ref.t(), hyp.t(), logits.transpose(0, 1)
        N, H, V = (int(x) for x in logits.shape)
        if N == 0 or H == 0 or ref.shape[1] == 0 or tuple(hyp.shape) != (N, H):
            return None
        return {
            "class": "repo_test_call", "kind": "loss", "ref": ref.tolist(), "hyp": hyp.tolist(),
            "logits": logits.detach().double().tolist(), "V": V, "eos": module.eos,
            "include_eos": bool(module.include_eos), "batch_first": bf, "reduction": module.reduction,
            "costs": [float(module.ins_cost), float(module.del_cost), float(module.sub_cost)],
            "ignore_index": int(module.ignore_index), "form": "functional", "R": int(ref.shape[1]),
            "H": H, "observed_module": name,
        }
    return None


def hook_compare(case, output, mon):
    """The value the test itself received must be what the judged re-execution produced."""
    if case["kind"] == "loss":
        logits, ref, hyp = _loss_tensors(case)
        again = _call_loss(mon, case, logits, ref, hyp)
    else:
        ref_t, hyp_t = G.to_tensors(case)
        again = _call_oc(mon, case, ref_t, hyp_t)
    output = output.detach()
    ok = tuple(again.shape) == tuple(output.shape)
    ok = ok and bool(((again == output) | ((again != again) & (output != output))).all())
    mon.check(ok, "observed-output", observed=output, expected=again)
