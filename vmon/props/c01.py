"""C01 - edit distance is the weighted Levenshtein distance (pair and prefix)."""
import itertools
import warnings

from .. import layout as LY
from ..oracles import lev
from . import _strgen as G

ID = "C01"
LEVEL = "exploration"
RULE = (
    "class-directed random ragged batches (N<=6, lengths 0..6 quick / 0..12 thorough, alphabets 1-4, "
    "eos at 0/missing/with hostile post-eos filler, dyadic and non-dyadic cost triples, all flag "
    "combinations, functional and module forms) plus, in thorough, every (ref,hyp) over a 2-letter "
    "alphabet with lengths<=4; a case is distinct by the hash of its concrete inputs and non-trivial "
    "if at least one pair has a non-empty reference and hypothesis that differ"
)
ASSUMPTIONS = [
    "oracle: textbook DP over Fractions on each pair's own tokens",
    "float32 sums of dyadic costs are exact; non-dyadic costs compared with rel 1e-5",
    "USE_JIT off (library runs as plain Python)",
]
BUDGET = {
    "quick": dict(cases=1200, shards=4, timeout=600),
    "thorough": dict(cases=16000, shards=16, timeout=3000),
}
FLOORS = {
    "quick": {
        "events": {"edit_distance": 1500, "prefix_edit_distances": 1500, "assert:value": 3000,
                   "assert:prefix-value": 3000, "assert:prefix-padding": 1000,
                   "assert:independence-solo": 1500, "assert:independence-garbage": 1000},
        "classes": dict({c: 20 for c in G.CLASSES}, long_sequences=60, huge_batch=8),
        "distinct": 1000,
    },
    "thorough": {
        "events": {"edit_distance": 50000, "prefix_edit_distances": 50000},
        "classes": dict({c: 1000 for c in G.CLASSES}, exhaustive2=46128, huge_batch=300),
        "distinct": 30000,
    },
}
EXHAUSTIVE = {"thorough": False}
CLASSES = G.CLASSES + ["zero_dim_eos"]


def generate(rng, tier, i):
    if i % 97 == 96:
        # zero-size sequence dimension with eos set: observation class only
        case = G.gen_string_case(rng, tier, 0)
        case["class"] = "zero_dim_eos"
        case["eos"] = 0 if case["eos"] is None else case["eos"]
        if rng.random() < 0.5:
            case["R"], case["ref"] = 0, [[] for _ in case["ref"]]
        else:
            case["H"], case["hyp"] = 0, [[] for _ in case["hyp"]]
        return case
    if i % 29 == 28:
        # sequences several times longer than anything else in the workload (block-wise / chunked code paths)
        case = G.gen_string_case(rng, tier, G.CLASSES.index(rng.choice(["ragged", "garbage_after_eos", "unequal_costs"])),
                                 max_len=rng.choice([33, 48, 70]))
        case["class"] = "long_sequences"
        case["ref"], case["hyp"] = case["ref"][:3], case["hyp"][:3]
        return case
    if i % 400 == 399:
        # a batch whose (R + 1) x (R + 1) x N working set runs to millions of entries, N not a round number
        # (block-wise walks over the batch dimension)
        R = rng.choice([31, 63, 63, 127, 255])
        cells = rng.choice([2 ** 20, 2 ** 21, 2 ** 22, 2 ** 22, 2 ** 23])
        N = max(3, int(cells * rng.uniform(1.0, 2.6)) // (R + 1) ** 2 + rng.randint(1, 13))
        case = G.gen_string_case(rng, tier, G.CLASSES.index(rng.choice(["ragged", "equal_costs", "unequal_costs"])),
                                 dims=(N, R, rng.randint(3, 9)))
        case["class"] = "huge_batch"
        return case
    return G.gen_string_case(rng, tier, i)


def enumerate_cases(tier):
    if tier != "thorough":
        return
    seqs = [list(s) for L in range(0, 5) for s in itertools.product([1, 2], repeat=L)]
    costs = [[1.0, 1.0, 1.0], [0.5, 1.5, 1.0], [1.0, 0.5, 3.0]]
    for ref in seqs:
        for hyp in seqs:
            R, H = 4, 4
            r = ref + ([0] + [1] * (R - len(ref) - 1) if len(ref) < R else [])
            h = hyp + ([0] + [2] * (H - len(hyp) - 1) if len(hyp) < H else [])
            for k in range(16):
                for c in costs:
                    yield {
                        "class": "exhaustive2", "ref": [r], "hyp": [h], "eos": 0,
                        "include_eos": bool(k & 1), "norm": bool(k & 2), "batch_first": bool(k & 4),
                        "exclude_last": bool(k & 8), "costs": c, "padding": -100,
                        "form": "functional", "R": R, "H": H,
                    }


def _call(mon, case, which, ref, hyp, **over):
    import pydrobert.torch.functional as F
    import pydrobert.torch.modules as M

    ins, dl, sub = G.costs_as_given(case)
    kw = dict(eos=case["eos"], include_eos=case["include_eos"], norm=case["norm"],
              batch_first=case["batch_first"], ins_cost=ins, del_cost=dl, sub_cost=sub, warn=G.warn_flag(case))
    if which == "prefix_edit_distances":
        kw.update(padding=case["padding"], exclude_last=case["exclude_last"])
    kw.update(over)
    # zero-size sequence *tensor dimension* (not an empty sequence): with eos set, or with
    # exclude_last on a hypothesis tensor without any column, the library raises; DESIGN 3/C01 limits
    zero_dim = (case["R"] == 0 or case["H"] == 0) and case["eos"] is not None
    zero_dim = zero_dim or (case["H"] == 0 and which == "prefix_edit_distances" and case["exclude_last"])
    documented = (RuntimeError, IndexError) if zero_dim else ()
    with warnings.catch_warnings(), G.process_mode(case):
        warnings.simplefilter("ignore")
        if case["form"] == "module":
            cls = M.EditDistance if which == "edit_distance" else M.PrefixEditDistances
            return mon.lib(which, lambda: LY.travelled(G.build_module(cls, kw, case), case["R"], case["H"], len(case["ref"]))(ref, hyp), documented=documented)
        fn = getattr(F, which)
        return mon.lib(which, lambda: fn(ref, hyp, **kw), documented=documented)


def execute(case, mon):
    import torch

    ref_t, hyp_t = G.to_tensors(case)
    N = len(case["ref"])
    eos, inc = case["eos"], case["include_eos"]
    ins, dl, sub = case["costs"]
    dyadic = G.is_dyadic(case["costs"])
    rel = 0.0 if dyadic else 1e-5
    ed = _call(mon, case, "edit_distance", ref_t, hyp_t)
    pd = _call(mon, case, "prefix_edit_distances", ref_t, hyp_t)
    H = case["H"]
    rows = H if case["exclude_last"] else H + 1
    mon.check(tuple(ed.shape) == (N,), "shape", observed=list(ed.shape), expected=[N])
    exp_shape = (N, rows) if case["batch_first"] else (rows, N)
    mon.check(tuple(pd.shape) == exp_shape, "prefix-shape", observed=list(pd.shape), expected=list(exp_shape))
    if not case["batch_first"]:
        pd = pd.t()
    nontrivial = False
    for n in range(N):
        r = lev.seq_of(case["ref"][n], eos, inc)
        h = lev.seq_of(case["hyp"][n], eos, inc)
        if r and h and r != h:
            nontrivial = True
        D = lev.table(r, h, ins, dl, sub)
        norm = case["norm"]
        # 1. value
        want = D[len(h)][len(r)]
        got = float(ed[n])
        if norm and len(r) == 0:
            mon.check(got == got and abs(got) != float("inf"), "finite-empty-ref", observed=got, n=n)
            mon.stat("norm_empty_ref")
        else:
            w = float(want / len(r)) if norm else float(want)
            mon.close(got, w, 1e-6 if norm else 0.0, "value", rel=max(rel, 1e-6 if norm else 0.0),
                      n=n, ref=r, hyp=h)
        # prefix values + 2. padding
        last = len(h) - (1 if case["exclude_last"] else 0)
        for k in range(rows):
            g = float(pd[n, k])
            if k <= last:
                if norm and len(r) == 0:
                    mon.check(g == g and abs(g) != float("inf"), "finite-empty-ref", observed=g, n=n, k=k)
                else:
                    w = float(D[k][len(r)] / len(r)) if norm else float(D[k][len(r)])
                    mon.close(g, w, 1e-6 if norm else 0.0, "prefix-value",
                              rel=max(rel, 1e-6 if norm else 0.0), n=n, k=k, ref=r, hyp=h)
            else:
                mon.check(g == float(case["padding"]), "prefix-padding", observed=g,
                          expected=case["padding"], n=n, k=k, hyp_len=len(h))
    if not nontrivial:
        mon.trivial()
    if case["class"] == "zero_dim_eos":
        mon.stat("zero_dim_eos_returned")
        return
    # 3. independence: (a) every pair alone, trimmed; (b) post-eos cells re-filled
    idx = list(range(N)) if N <= 3 else [case["R"] % N, (case["H"] + 1) % N]
    for n in set(idx):
        rc, hc = lev.trim_col(case["ref"][n], eos), lev.trim_col(case["hyp"][n], eos)
        if eos is not None and (len(rc) == 0 or len(hc) == 0):
            continue
        solo = dict(case, ref=[rc], hyp=[hc], R=len(rc), H=len(hc))
        r1, h1 = G.to_tensors(solo)
        e1 = _call(mon, solo, "edit_distance", r1, h1)
        a, b = float(e1[0]), float(ed[n])
        mon.check(a == b or (a != a and b != b), "independence-solo", observed=b, expected=a, n=n,
                  ref=rc, hyp=hc)
        p1 = _call(mon, solo, "prefix_edit_distances", r1, h1)
        p1 = p1.reshape(-1)
        k1 = p1.numel()
        mon.check(torch.equal(p1, pd[n, :k1]) or bool(((p1 == pd[n, :k1]) | (p1.isnan() & pd[n, :k1].isnan())).all()),
                  "independence-solo-prefix", observed=pd[n, :k1], expected=p1, n=n)
    if eos is not None:
        g = torch.Generator().manual_seed(case["R"] * 131 + case["H"])
        junk = dict(case)
        junk["ref"] = [_refill(c, eos, g) for c in case["ref"]]
        junk["hyp"] = [_refill(c, eos, g) for c in case["hyp"]]
        r2, h2 = G.to_tensors(junk)
        e2 = _call(mon, junk, "edit_distance", r2, h2)
        mon.check(bool(((e2 == ed) | (e2.isnan() & ed.isnan())).all()), "independence-garbage",
                  observed=e2, expected=ed, ref=junk["ref"], hyp=junk["hyp"])
        p2 = _call(mon, junk, "prefix_edit_distances", r2, h2)
        if not case["batch_first"]:
            p2 = p2.t()
        mon.check(bool(((p2 == pd) | (p2.isnan() & pd.isnan())).all()), "independence-garbage-prefix",
                  observed=p2, expected=pd)


def _refill(col, eos, g):
    import torch

    col = list(col)
    if eos in col:
        i = col.index(eos)
        for j in range(i + 1, len(col)):
            col[j] = int(torch.randint(-3, 12, (1,), generator=g))
    return col


# ---- mechanism B: the repository's own tests as an additional workload (thorough tier)
PYTEST_FILES = ["tests/test_string.py"]


def hook_case(module, args, kwargs, output):
    name = type(module).__name__
    if name not in ("EditDistance", "PrefixEditDistances"):
        return None
    ref, hyp = args[0], args[1]
    if ref.dim() != 2 or hyp.dim() != 2 or ref.numel() > 4000 or hyp.numel() > 4000:
        return None
    if min(module.ins_cost, module.del_cost, module.sub_cost) <= 0:
        return None
    bf = bool(module.batch_first)
    r = (ref if bf else ref.t()).tolist()
    h = (hyp if bf else hyp.t()).tolist()
    if len(r) != len(h) or len(r) == 0:
        return None
    return {
        "class": "repo_test_call", "ref": r, "hyp": h, "eos": module.eos,
        "include_eos": bool(module.include_eos), "norm": bool(module.norm), "batch_first": bf,
        "exclude_last": bool(getattr(module, "exclude_last", False)),
        "costs": [float(module.ins_cost), float(module.del_cost), float(module.sub_cost)],
        "padding": int(getattr(module, "padding", -100)), "form": "functional",
        "R": len(r[0]), "H": len(h[0]), "observed_module": name,
    }


def hook_compare(case, output, mon):
    """The value the test itself received must be what the judged re-execution produced."""
    ref_t, hyp_t = G.to_tensors(case)
    which = "edit_distance" if case["observed_module"] == "EditDistance" else "prefix_edit_distances"
    again = _call(mon, case, which, ref_t, hyp_t)
    same = (again == output) | (again.isnan() & output.isnan())
    mon.check(bool(same.all()), "observed-output", observed=output, expected=again)
