"""C16: continue a training run in a FRESH interpreter (nothing the first process kept in memory - module globals,
class attributes, caches - survives a real restart).

    python -m vmon.props._c16_fresh <case.json> <root> <first_epoch> <last_epoch>

builds a controller on <root> exactly as vmon.props.c16 does and runs update_for_epoch for the given epochs."""
import json
import os
import sys
import warnings


def main(argv):
    case_path, root, first, last = argv[0], argv[1], int(argv[2]), int(argv[3])
    repo = os.environ.get("VERIF_REPO", "/repo")
    sys.path.insert(0, os.path.join(repo, "src"))
    warnings.filterwarnings("ignore")
    import pydrobert.torch.training as T

    from . import _c15_gen as G
    from . import c16

    with open(case_path) as f:
        case = json.load(f)
    scn = c16.Scn(case)
    params = G.make_params(T, case["cfg"], keep2=case["keep2"], model_fmt=scn.pass_fmt[0], optim_fmt=scn.pass_fmt[1])
    ctrl = T.TrainingStateController(params, os.path.join(root, c16.CSV), os.path.join(root, c16.SDIR), warn=False)
    for name, typ, fmt, vals in case["entries"]:
        ctrl.add_entry(name, G.TYPES[typ], fmt)
    model, opt = G.make_model_opt(case["cfg"], case["groups"])
    ctrl.load_model_and_optimizer_for_epoch(model, opt)
    for e in range(first, last + 1):
        G.train_to(model, opt, e)
        ctrl.update_for_epoch(model, opt, case["train"][e - 1], case["val"][e - 1], **c16._ukw(case, e))
    return 0


if __name__ == "__main__":
    sys.exit(main(sys.argv[1:]))
