"""C13 - epoch samplers are reproducible and split data exactly across processes.

Ranks are produced with the real `torch.distributed` API on the `fake` backend (one group per
rank and case, initialised and destroyed in-process); in the thorough tier a few groups are
additionally formed by real processes over a gloo `file://` rendezvous.  Every rank only
*records* what the real samplers yield (`_c13_rank.collect`); the verdict is the offline checker
`judge` over the recorded index lists of all ranks.
"""
import hashlib
import json
import os
import shutil
import subprocess
import sys
import tempfile
import time

from . import _c13_rank as R

ID = "C13"
LEVEL = "exploration"
RULE = (
    "one case = one (sampler kind, N, world size W, uneven-handling mode, seed, data-source type) with ALL "
    "ranks 0..W-1 driven through the real torch.distributed API (fake backend; a case without a group as well); "
    "per rank: one object iterated over epochs 0..E-1, objects resumed at init_epoch e0 after c consumed epochs, "
    "direct get_samples_for_epoch queries, epoch attribute set by hand, an abandoned iterator, two interleaved "
    "iterators, an unset seed. quick: class-directed random cases (N 0..40, W 1..6); thorough: the complete grid "
    "N 0..40 x W 1..6 x 4 modes x {random with seeds 0, 12345, 2^31-1; sequential} x every (e0,c) with e0+c<=4, "
    "c<=3, plus random cases up to N=200, W=8 and real gloo groups. A case is distinct by the hash of its "
    "concrete parameters and non-trivial if N>=2 and (W>=2 or the sampler is random)"
)
ASSUMPTIONS = [
    "the fake process-group backend answers is_initialized/get_rank/get_world_size like a real group",
    "ranks of the fake backend are visited one after another in one process (the samplers read rank and "
    "world size in the constructor only; the group stays up while the rank's samplers are iterated)",
    "oracle is set arithmetic over the recorded lists; nothing of the library is used to judge",
    "gloo sub-step (thorough): skipped and noted if the rendezvous does not form within the time-out",
]
MODES = ["raise", "drop", "uneven", "ignore"]
SEED_MAX = 2 ** 31 - 1
CLASSES = [
    "rand_uneven", "rand_drop", "rand_raise", "rand_ignore",
    "seq_uneven", "seq_drop", "seq_raise", "seq_ignore",
    "N0", "N_lt_W", "seed_extreme", "nogroup", "seed_unset", "N1", "W_eq_N",
]
BUDGET = {
    "quick": dict(cases=200, shards=4, timeout=1200),
    "thorough": dict(cases=500, shards=16, timeout=3000, time=600),
}
GRID_CASES = 41 * 6 * 4 * 4
FLOORS = {
    "quick": {
        "events": {"sampler_ctor": 15000, "epoch_iterated": 30000, "rank_visit": 1500,
                   "EpochRandomSampler": 6000, "EpochSequentialSampler": 5000,
                   "assert:len-eq-yielded": 25000, "assert:resume-eq-baseline": 15000,
                   "assert:partition-cover": 600, "assert:partition-disjoint": 1000,
                   "assert:drop-equal-share": 300, "assert:raise-indivisible": 120,
                   "assert:ignore-full-epoch": 1500, "assert:permutation": 5000,
                   "assert:abandoned-iterator": 1500, "assert:interleaved-iterators": 1500,
                   "assert:epoch-attr": 15000, "assert:direct-query": 5000,
                   "assert:unset-seed-twin": 100},
        "classes": dict({c: 20 for c in CLASSES}, indivisible=150, divisible=150),
        "sets": {"orders": 500, "grid_points": 250},
        "distinct": 250,
    },
    "thorough": {
        "events": {"sampler_ctor": 450000, "rank_visit": 25000, "assert:partition-cover": 12000,
                   "assert:raise-indivisible": 4000, "assert:drop-equal-share": 8000,
                   "assert:len-eq-yielded": 600000, "assert:resume-eq-baseline": 500000},
        "classes": dict({c: 150 for c in CLASSES}, grid=GRID_CASES),
        "sets": {"grid_points": 41 * 6 * 4 * 2, "orders": 4000},
        "distinct": 5000,
    },
}
# the (N<=40, W<=6) grid is enumerated completely, the property (all N, all W) is not
EXHAUSTIVE = {"thorough": False}
ALL_STARTS = [[e0, c] for e0 in range(5) for c in range(0, 4) if e0 + c <= 4]


# --------------------------------------------------------------------------
# case generation


def _case(cls, kind, N, W, mode, seed, rng=None, group=True, E=5, starts=None, source="list"):
    case = {"class": cls, "kind": kind, "N": N, "W": W, "mode": mode,
            "seed": seed if kind == "random" else None, "group": group, "E": E, "source": source}
    if starts is None:
        starts = ALL_STARTS
    case["starts"] = starts
    if rng is None:
        case["set_epochs"] = [3, 0, 3, 1]
        case["partial"] = [1, max(0, N // (2 * max(W, 1)))]
        case["interleave"] = 2
        case["torch_seed"] = 7
    else:
        case["set_epochs"] = [rng.randrange(0, 8) for _ in range(rng.randint(1, 4))]
        case["partial"] = [rng.randrange(0, 5), rng.randrange(0, N // max(W, 1) + 2)]
        case["interleave"] = rng.randrange(0, 5)
        case["torch_seed"] = rng.randrange(0, 1000)
    return case


def generate(rng, tier, i):
    cls = CLASSES[i % len(CLASSES)]
    big = tier == "thorough" and rng.random() < 0.3
    maxN, maxW = (200, 8) if big else (40, 6)
    kind = rng.choice(["random", "sequential"])
    mode = rng.choice(MODES)
    W = rng.randint(1, maxW)
    N = rng.randint(0, maxN)
    if rng.random() < 0.4 and W > 1:
        # indivisible / divisible on purpose, near multiples of W
        N = W * rng.randint(0, maxN // W) + rng.choice([0, 0, 1, W - 1])
    seed = rng.choice([0, 1, SEED_MAX, rng.randrange(0, SEED_MAX + 1), rng.randrange(0, 100)])
    group = True
    if "_" in cls and cls.split("_")[0] in ("rand", "seq") and cls.split("_")[1] in MODES:
        kind = "random" if cls.startswith("rand") else "sequential"
        mode = cls.split("_")[1]
        if mode in ("raise", "drop") and W == 1:
            W = rng.randint(2, maxW)
    elif cls == "N0":
        N = 0
    elif cls == "N1":
        N = 1
    elif cls == "N_lt_W":
        W = rng.randint(2, maxW)
        N = rng.randint(0, W - 1)
    elif cls == "W_eq_N":
        W = rng.randint(2, maxW)
        N = W
    elif cls == "seed_extreme":
        kind = "random"
        seed = rng.choice([0, SEED_MAX, SEED_MAX - 1, 1])
    elif cls == "nogroup":
        group, W = False, 1
    elif cls == "seed_unset":
        kind, seed = "random", None
    E = rng.choice([5, 5, 6, 8])
    starts = [[e0, c] for e0 in range(E) for c in range(0, 4) if e0 + c <= E - 1]
    cap = 14 if tier == "thorough" else 8
    if len(starts) > cap:
        starts = sorted(rng.sample(starts, cap))
    return _case(cls, kind, N, W, mode, seed, rng=rng, group=group, E=E, starts=starts,
                 source=rng.choice(["list", "sized", "range"]))


GLOO_PLAN = [(2, 0), (3, 1), (4, 2), (2, 3), (3, 4), (4, 5)]


def enumerate_cases(tier):
    if tier != "thorough":
        return
    for N in range(0, 41):
        for W in range(1, 7):
            for mode in MODES:
                for seed in (0, 12345, SEED_MAX):
                    yield _case("grid", "random", N, W, mode, seed)
                yield _case("grid", "sequential", N, W, mode, None)
    for W, k in GLOO_PLAN:
        yield {"class": "gloo", "W": W, "plan": k}


def _gloo_cfgs(W, k):
    """The sampler configurations visited inside one real gloo group (deterministic in W, k)."""
    import random

    rng = random.Random("c13-gloo/%d/%d" % (W, k))
    cfgs = []
    for mode in MODES:
        for kind in ("random", "sequential"):
            for N in sorted({0, 1, W - 1, W, W + 1, 3 * W, 3 * W + 1, 5 * W - 1, rng.randint(0, 40), rng.randint(0, 40)}):
                c = _case("gloo", kind, N, W, mode, rng.choice([0, SEED_MAX, rng.randrange(SEED_MAX)]))
                c["starts"] = [[0, 0], [2, 1], [4, 0]]
                cfgs.append(c)
    return cfgs


# --------------------------------------------------------------------------
# the offline checker


def _order_key(lst):
    return hashlib.sha1(json.dumps(lst).encode()).hexdigest()[:12]


def judge(cfg, recs, nodist, mon, via="fake"):
    """`recs[r]` is what rank r recorded (None entries never occur); `nodist` is the record of
    the same configuration without any process group (or None)."""
    N, W, mode, kind, E = cfg["N"], cfg["W"], cfg["mode"], cfg["kind"], cfg["E"]
    full = list(range(N))
    split = cfg["group"] and mode != "ignore"
    indivisible = split and N % W != 0
    mon.cls("indivisible" if (cfg["group"] and N % W) else "divisible", "W=%d" % W, "via_" + via)
    mon.observe("grid_points", "%s/%d/%d/%s" % (kind, N, W, mode))
    for r, rec in enumerate(recs):
        mon.ev("rank_visit")
        mon.ev("sampler_ctor", rec.get("n_ctor", 0))
        mon.ev("Epoch%sSampler" % ("Random" if kind == "random" else "Sequential"), max(1, rec.get("n_ctor", 0)))
        mon.ev("epoch_iterated", rec.get("n_epochs", 0))
        if cfg["group"]:
            mon.check(rec["rank_seen"] == r and rec["world_seen"] == W, "harness-rank", rank=r,
                      seen=[rec["rank_seen"], rec["world_seen"]])
        # ---- constructor outcome
        if indivisible and mode == "raise":
            mon.check(rec["ctor"] == "ValueError", "raise-indivisible", rank=r, observed=rec["ctor"],
                      expected="ValueError", N=N, W=W)
            mon.check(all(x == "ValueError" for x in rec.get("ctor_other", [])), "raise-indivisible-resumed",
                      rank=r, observed=rec.get("ctor_other"))
            mon.stat("ctor_ValueError")
            continue
        mon.check(rec["ctor"] == "ok", "ctor-accepts", rank=r, observed=rec["ctor"],
                  message=rec.get("ctor_msg"), N=N, W=W, mode=mode)
        if "error" in rec:
            mon.fail("raised:sampler", rank=r, error=rec["error"], traceback=rec.get("traceback"))
        base = rec["base"]
        lists = base["lists"]
        # ---- len == number yielded, before and after every epoch
        for e in range(E):
            mon.check(base["len_before"][e] == len(lists[e]) == base["len_after"][e], "len-eq-yielded",
                      rank=r, epoch=e, len_before=base["len_before"][e], len_after=base["len_after"][e],
                      yielded=len(lists[e]), N=N, W=W, mode=mode)
            mon.check(base["epoch_attr"][e] == e, "epoch-attr", rank=r, observed=base["epoch_attr"][e], expected=e)
        # ---- the order of an epoch depends on (seed, epoch) only, not on how it was reached
        for e in range(E):
            mon.check(rec["direct"][e] == lists[e], "direct-query", rank=r, epoch=e,
                      observed=rec["direct"][e], expected=lists[e])
        for st in rec["starts"]:
            for k, lst in enumerate(st["lists"]):
                e = st["e0"] + k
                mon.check(lst == lists[e], "resume-eq-baseline", rank=r, init_epoch=st["e0"], consumed=k,
                          epoch=e, observed=lst, expected=lists[e])
                mon.check(st["lens"][k] == len(lst), "len-eq-yielded", rank=r, init_epoch=st["e0"], consumed=k,
                          len=st["lens"][k], yielded=len(lst))
            mon.check(st["epoch_after"] == st["e0"] + st["c"] + 1, "epoch-attr", rank=r,
                      observed=st["epoch_after"], expected=st["e0"] + st["c"] + 1)
        ref_for = {}

        def order_of(e):
            # epochs beyond the baseline are compared among themselves
            if e < E:
                return lists[e]
            return ref_for.get(e)

        for s in rec["sets"]:
            want = order_of(s["e"])
            if want is None:
                ref_for[s["e"]] = s["list"]
                want = s["list"]
            mon.check(s["list"] == want, "epoch-attr", rank=r, set_epoch=s["e"], observed=s["list"], expected=want)
            mon.check(s["len"] == len(s["list"]), "len-eq-yielded", rank=r, set_epoch=s["e"], len=s["len"],
                      yielded=len(s["list"]))
            mon.check(s["epoch_after"] == s["e"] + 1, "epoch-attr", rank=r, observed=s["epoch_after"],
                      expected=s["e"] + 1)
        for s in rec.get("peeks", []):
            want = order_of(s["e"])
            if want is not None:
                mon.check(s["list"] == want, "peek-then-set-epoch", rank=r, set_epoch=s["e"], observed=s["list"],
                          expected=want)
            mon.check(s["epoch_after"] == s["e"] + 1, "epoch-attr", rank=r, observed=s["epoch_after"],
                      expected=s["e"] + 1, after="peek, then set")
        if "serialised" in rec:
            for which in ("live", "copies"):
                for k, x in enumerate(rec["serialised"][which]):
                    mon.check(x["e"] == k and x["list"] == lists[k] and x["len"] == len(x["list"]),
                              "serialised-between-epochs", rank=r, which=which, step=k, epoch_attr=x["e"],
                              len=x["len"], observed=x["list"], expected=lists[k])
        if "numpy_epoch" in rec:
            nx = rec["numpy_epoch"]
            for k in range(len(nx["lists"])):
                mon.check(nx["epoch_attr"][k] == 252 + k and nx["lists"][k] == nx["direct"][k], "numpy-typed-init-epoch",
                          rank=r, step=k, epoch_attr=nx["epoch_attr"][k], observed=nx["lists"][k],
                          expected=nx["direct"][k])
        if "partial" in rec:
            # an abandoned iterator: whatever the `epoch` state then names as next is what comes next
            p = rec["partial"]
            if p["e0"] < E:
                mon.check(p["head"] == lists[p["e0"]][:len(p["head"])], "abandoned-iterator", rank=r,
                          part="head", observed=p["head"], expected=lists[p["e0"]])
            mon.check(p["e_next"] in (p["e0"], p["e0"] + 1), "abandoned-iterator", rank=r, part="epoch state",
                      observed=p["e_next"], init_epoch=p["e0"])
            if p["e_next"] < E:
                mon.check(p["next"] == lists[p["e_next"]], "abandoned-iterator", rank=r, part="next epoch",
                          observed=p["next"], expected=lists[p["e_next"]], init_epoch=p["e0"], e_next=p["e_next"])
            mon.check(p["epoch_after"] == p["e_next"] + 1, "epoch-attr", rank=r, observed=p["epoch_after"],
                      expected=p["e_next"] + 1)
        if "exact" in rec:
            x = rec["exact"]
            for j, pulled in enumerate(x["pulls"]):
                if x["e0"] + j < E and pulled:
                    mon.check(pulled == lists[x["e0"] + j], "exactly-len-indices-pulled", rank=r, epoch=x["e0"] + j,
                              observed=pulled, expected=lists[x["e0"] + j], init_epoch=x["e0"])
        if "interleave" in rec:
            il = rec["interleave"]
            if il["e0"] < E:
                mon.check(il["first"] == lists[il["e0"]], "interleaved-iterators", rank=r, which="first",
                          observed=il["first"], expected=lists[il["e0"]])
            if il["e_second"] < E:
                mon.check(il["second"] == lists[il["e_second"]], "interleaved-iterators", rank=r, which="second",
                          observed=il["second"], expected=lists[il["e_second"]], e_second=il["e_second"])
        if "twin" in rec:
            for e, lst in enumerate(rec["twin"]):
                mon.check(lst == lists[e], "unset-seed-twin", rank=r, epoch=e, base_seed=rec["base_seed"],
                          observed=lst, expected=lists[e])
            mon.check(rec["again_seed"] == rec["base_seed"], "unset-seed-from-torch-generator", rank=r,
                      observed=rec["again_seed"], expected=rec["base_seed"])
            mon.check(0 <= rec["base_seed"] <= SEED_MAX, "unset-seed-range", observed=rec["base_seed"])
        # ---- each rank's list: no repeats, valid indices; sequential keeps ascending order
        for e in range(E):
            lst = lists[e]
            mon.check(len(set(lst)) == len(lst) and all(0 <= x < N for x in lst), "rank-list-valid", rank=r,
                      epoch=e, observed=lst, N=N)
            if kind == "sequential":
                mon.check(lst == sorted(lst), "sequential-ascending", rank=r, epoch=e, observed=lst)
            # what the whole epoch looks like "ignoring distributed" is the same on every rank
            mon.check(sorted(rec["direct_full"][e]) == full, "permutation", rank=r, epoch=e, what="full epoch",
                      observed=rec["direct_full"][e], N=N)
            mon.check(rec["direct_full"][e] == recs[0]["direct_full"][e], "full-epoch-same-on-all-ranks", rank=r,
                      epoch=e, observed=rec["direct_full"][e], expected=recs[0]["direct_full"][e])
            if N >= 2:
                mon.observe("orders", _order_key(rec["direct_full"][e]))
    if indivisible and mode == "raise":
        return
    # ---- across the ranks of the group
    for e in range(E):
        per_rank = [rec["base"]["lists"][e] for rec in recs]
        if not split:
            # no group, or `ignore`: every rank gets the full epoch - the same one
            for r, lst in enumerate(per_rank):
                mon.check(sorted(lst) == full, "ignore-full-epoch", rank=r, epoch=e, observed=lst, N=N, mode=mode)
                mon.check(lst == per_rank[0], "ignore-same-on-all-ranks", rank=r, epoch=e, observed=lst,
                          expected=per_rank[0])
                if kind == "sequential":
                    mon.check(lst == full, "sequential-is-range", rank=r, epoch=e, observed=lst)
            if nodist is not None and nodist.get("ctor") == "ok" and "base" in nodist:
                mon.check(per_rank[0] == nodist["base"]["lists"][e], "same-as-without-group", epoch=e,
                          observed=per_rank[0], expected=nodist["base"]["lists"][e], mode=mode)
            continue
        allidx = [x for lst in per_rank for x in lst]
        mon.check(len(set(allidx)) == len(allidx), "partition-disjoint", epoch=e, per_rank=per_rank, N=N, W=W,
                  mode=mode)
        if mode == "drop":
            share = N // W
            mon.check(all(len(lst) == share for lst in per_rank), "drop-equal-share", epoch=e,
                      shares=[len(x) for x in per_rank], expected=share, N=N, W=W)
            mon.check(len(set(allidx)) == N - N % W and set(allidx) <= set(full), "drop-all-but-remainder",
                      epoch=e, covered=len(set(allidx)), expected=N - N % W, N=N, W=W)
            if N % W:
                mon.observe("dropped_sets", "%d/%d/%s" % (N, W, sorted(set(full) - set(allidx))))
        else:
            mon.check(sorted(allidx) == full, "partition-cover", epoch=e, per_rank=per_rank, N=N, W=W, mode=mode)
            if mode == "uneven":
                sizes = [len(x) for x in per_rank]
                mon.stat("uneven_share_spread_%d" % (max(sizes) - min(sizes)))
    # ---- observations that the property does not demand (never alarms)
    if kind == "random" and N >= 6:
        full0 = recs[0]["direct_full"]
        mon.stat("epoch_pairs_compared", E - 1)
        mon.stat("epoch_pairs_same_order", sum(1 for e in range(1, E) if full0[e] == full0[e - 1]))
        if "alias" in recs[0]:
            al = recs[0]["alias"]
            mon.stat("seed_epoch_alias_pairs_compared", len(al))
            mon.stat("seed_epoch_alias_pairs_equal", sum(1 for e in range(len(al)) if al[e] == full0[e + 1]))


def _visit_fake(cfg):
    """All ranks of a W-process group, one after another, through the real torch.distributed API."""
    import torch.distributed as dist
    from torch.testing._internal.distributed.fake_pg import FakeStore

    recs = []
    W = cfg["W"]
    # the environment a launcher (torchrun) gives each process; for half the groups the job spans two nodes, so the
    # LOCAL rank differs from the rank in the group
    per_node = max(1, W // 2) if (cfg["N"] + W) % 2 == 0 else W
    for r in range(W):
        assert not dist.is_initialized()
        launcher = {"RANK": r, "WORLD_SIZE": W, "LOCAL_RANK": r % per_node, "LOCAL_WORLD_SIZE": per_node,
                    "GROUP_RANK": r // per_node, "NODE_RANK": r // per_node}
        saved = {k: os.environ.get(k) for k in launcher}
        os.environ.update({k: str(v) for k, v in launcher.items()})
        dist.init_process_group("fake", store=FakeStore(), rank=r, world_size=W)
        try:
            recs.append(R.collect(cfg))
        finally:
            dist.destroy_process_group()
            for k, v in saved.items():
                if v is None:
                    os.environ.pop(k, None)
                else:
                    os.environ[k] = v
    return recs


def execute(case, mon):
    if case["class"] == "gloo":
        return _execute_gloo(case, mon)
    import torch.distributed as dist

    if dist.is_initialized():  # a previous case died between init and destroy
        dist.destroy_process_group()
    nodist = R.collect(case)
    if case["group"]:
        recs = _visit_fake(case)
        mon.ev("rank_visit")  # the group-less visit
        mon.ev("sampler_ctor", nodist.get("n_ctor", 0))
        if nodist.get("ctor") != "ok":
            mon.fail("ctor-accepts", where="no process group", observed=nodist.get("ctor"))
        if "error" in nodist:
            mon.fail("raised:sampler", where="no process group", error=nodist["error"])
    else:
        recs, nodist = [nodist], None
    judge(case, recs, nodist, mon)
    N, W = case["N"], case["W"]
    if not (N >= 2 and (W >= 2 or case["kind"] == "random")):
        mon.trivial()


# --------------------------------------------------------------------------
# real processes over a gloo file:// rendezvous (thorough tier)


def _execute_gloo(case, mon):
    from .. import core

    W = case["W"]
    cfgs = _gloo_cfgs(W, case["plan"])
    parent = None
    if "--out" in sys.argv[:-1]:  # inside the run's own temporary directory, which the parent removes
        d = os.path.dirname(os.path.abspath(sys.argv[sys.argv.index("--out") + 1]))
        if os.path.isdir(d) and os.path.basename(d).startswith("vmon-"):
            parent = d
    tmp = tempfile.mkdtemp(prefix="vmon-c13-gloo-", dir=parent)
    procs = []
    try:
        cfgp = os.path.join(tmp, "cfgs.json")
        with open(cfgp, "w") as f:
            json.dump(cfgs, f)
        env = dict(os.environ)
        env.pop("PYTHONPATH", None)
        env.update({"OMP_NUM_THREADS": "1", "MKL_NUM_THREADS": "1", "GLOO_SOCKET_IFNAME": "lo"})
        src = os.path.join(core.REPO, "src")
        outs = []
        for r in range(W):
            out = os.path.join(tmp, "rank%d.json" % r)
            outs.append(out)
            log = open(os.path.join(tmp, "rank%d.log" % r), "w")
            per_node = max(1, W // 2) if case["plan"] % 2 == 0 else W
            renv = dict(env, RANK=str(r), WORLD_SIZE=str(W), LOCAL_RANK=str(r % per_node),
                        LOCAL_WORLD_SIZE=str(per_node), GROUP_RANK=str(r // per_node))
            procs.append((subprocess.Popen(
                [sys.executable, os.path.abspath(R.__file__), src, os.path.join(tmp, "rendezvous"), str(r), str(W),
                 cfgp, out], env=renv, stdout=log, stderr=log, cwd=tmp), log))
        deadline = time.time() + 150
        timed_out = False
        for p, log in procs:
            try:
                p.wait(timeout=max(1.0, deadline - time.time()))
            except subprocess.TimeoutExpired:
                timed_out = True
            log.close()
        results = []
        for out in outs:
            if os.path.exists(out):
                with open(out) as f:
                    results.append(json.load(f))
            else:
                results.append(None)
        bad = [i for i, x in enumerate(results) if x is None or x.get("stage") != "done"]
        if timed_out or bad:
            why = "timeout" if timed_out else "; ".join(
                str((results[i] or {}).get("init_error") or (results[i] or {}).get("run_error") or "no output")
                for i in bad)[:300]
            mon.stat("gloo_group_skipped")
            mon.notes.append("gloo group W=%d plan=%d skipped (not judged): %s" % (W, case["plan"], why))
            mon.ood("gloo-group-not-formed")
            return
        want = W * (W + 1) // 2
        mon.check(all(x["allreduce"] == want for x in results), "harness-gloo-allreduce",
                  observed=[x["allreduce"] for x in results], expected=want)
        mon.check(all(x["pkg"].startswith(src) for x in results), "harness-gloo-package",
                  observed=[x["pkg"] for x in results], expected=src)
        mon.stat("gloo_group_formed")
        mon.stat("gloo_rank_processes", W)
        mon.cls("gloo_W=%d" % W)
        for j, cfg in enumerate(cfgs):
            recs = [x["records"][j] for x in results]
            judge(cfg, recs, None, mon, via="gloo")
            mon.stat("gloo_configs_judged")
    finally:
        for p, log in procs:
            if p.poll() is None:
                p.kill()
                p.wait()
            if not log.closed:
                log.close()
        shutil.rmtree(tmp, ignore_errors=True)
