"""C17 harness: how the console entry points are invoked and observed.

* in-process: `pydrobert.torch.command_line.<func>(argv + ["--num-workers", "0"])`, stdout captured;
* multi-worker: a fresh interpreter (`python -c "from ... import X; raise SystemExit(X())"`) with
  PYTHONPATH=$VERIF_REPO/src:/verif/shim so that the spawn pool never re-imports the shard's
  `__main__` and the worker shim (shim/vshim_c17.py) logs and delays every work item in the child.

A scenario (`produce` in _c17_fam.py) is a generator that yields `Cmd`s and receives `Res`s; the
drivers below decide where each command runs.  This lets several multi-worker variants of one
scenario be in flight at the same time without threads.
"""
import contextlib
import hashlib
import io
import json
import os
import signal
import subprocess
import sys
import time
import traceback
import warnings

from .. import core

SHIM = os.path.join(core.HERE, "shim")

# name -> (accepts --num-workers, accepts --mp-chunk-size, kind of workers)
CMDS = {
    "trn_to_torch_token_data_dir": (True, True, "pool"),
    "torch_token_data_dir_to_trn": (True, False, "loader"),
    "ctm_to_torch_token_data_dir": (True, True, "pool"),
    "torch_token_data_dir_to_ctm": (False, False, None),
    "textgrids_to_torch_token_data_dir": (True, True, "pool"),
    "torch_token_data_dir_to_textgrids": (True, True, "pool"),
    "torch_token_data_dir_to_torch_ali_data_dir": (True, True, "pool"),
    "torch_ali_data_dir_to_torch_token_data_dir": (True, True, "pool"),
    "compute_torch_token_data_dir_error_rates": (False, False, None),
    "subset_torch_spect_data_dir": (True, True, "pool"),
    "compute_mvn_stats_for_torch_feat_data_dir": (True, False, "loader"),
    "print_torch_ali_data_dir_length_moments": (True, True, "pool"),
    "print_torch_ref_data_dir_length_moments": (True, True, "pool"),
    "chunk_torch_spect_data_dir": (True, True, "pool"),
}


class Cmd:
    def __init__(self, name, argv, tag=None):
        self.name, self.argv, self.tag = name, [str(a) for a in argv], tag


class Res:
    def __init__(self, rc, exc=None, stdout="", stderr="", where="inproc", log=None, timeout=False):
        self.rc, self.exc, self.stdout, self.stderr = rc, exc, stdout, stderr
        self.where, self.log, self.timeout = where, log, timeout

    def brief(self):
        """What must not depend on the number of workers."""
        return {"rc": self.rc, "exc": self.exc[0] if self.exc else None, "stdout": self.stdout}


def call_inproc(cmd, mon):
    import pydrobert.torch.command_line as CL

    fn = getattr(CL, cmd.name)
    argv = list(cmd.argv)
    if CMDS[cmd.name][0]:
        argv += ["--num-workers", "0"]
    if CMDS[cmd.name][1] and "--mp-chunk-size" not in argv:
        # the serial path with a chunk size SMALLER than the number of items (the default, 1000, never is):
        # chunking is an implementation detail of the worker pattern and must not change any output
        k = sum(len(a) for a in argv) % 3
        if k:
            argv += ["--mp-chunk-size", str(k)]
            mon.cls("serial_small_chunks")
    mon.ev(cmd.name)
    so, se = io.StringIO(), io.StringIO()
    rc, exc = None, None
    with warnings.catch_warnings(), contextlib.redirect_stdout(so), contextlib.redirect_stderr(se):
        warnings.simplefilter("ignore")
        try:
            rc = fn(argv)
            rc = 0 if rc is None else rc
        except SystemExit as e:
            rc = e.code if isinstance(e.code, int) else (0 if e.code is None else 1)
        except Exception as e:
            exc = [type(e).__name__, str(e)[:400], traceback.format_exc(limit=-5)]
    return Res(rc, exc, so.getvalue(), se.getvalue()[-800:])


class Pending:
    """A command running in a fresh interpreter."""

    def __init__(self, cmd, variant, scratch, idx):
        self.cmd, self.variant = cmd, variant
        nw, chunk = variant["nw"], variant["chunk"]
        has_nw, has_chunk, _ = CMDS[cmd.name]
        argv = list(cmd.argv)
        if has_nw:
            argv += ["--num-workers", str(nw)]
        if has_chunk:
            argv += ["--mp-chunk-size", str(chunk)]
        self.log = os.path.join(scratch, "worker%d.log" % idx)
        self.so = os.path.join(scratch, "stdout%d.txt" % idx)
        self.se = os.path.join(scratch, "stderr%d.txt" % idx)
        env = dict(os.environ)
        env.update({
            "PYTHONPATH": os.path.join(core.REPO, "src") + os.pathsep + SHIM,
            core.GUARD: "1", "VMON_SHIM_MODULES": "vshim_c17", "VMON_C17_LOG": self.log,
            "VMON_C17_DELAY_SEED": str(variant.get("delay_seed", 0)),
            "VMON_C17_DELAY_MAX_MS": str(variant.get("delay_ms", 0)),
            "VMON_C17_BARRIER": str(variant.get("barrier", 0)),
            "PYTHONHASHSEED": "0", "OMP_NUM_THREADS": "1", "MKL_NUM_THREADS": "1",
            "PYTHONDONTWRITEBYTECODE": "1",
        })
        # the interpreter asks to be killed when the shard that started it dies (watchdog kill of the shard),
        # so that no command outlives its check; then runs the entry point as the console script would
        code = ("import ctypes, os, signal; ctypes.CDLL(None).prctl(1, signal.SIGKILL); "
                "os.getppid() == %d or os._exit(97); "
                "from pydrobert.torch.command_line import %s as X; raise SystemExit(X())" % (os.getpid(), cmd.name))
        self.t0 = time.time()
        self.fso, self.fse = open(self.so, "w"), open(self.se, "w")
        self.proc = subprocess.Popen(
            [sys.executable, "-W", "ignore", "-c", code] + argv, env=env, stdout=self.fso, stderr=self.fse,
            stdin=subprocess.DEVNULL, cwd=scratch, start_new_session=True)

    def wait(self, timeout):
        timed_out = False
        try:
            rc = self.proc.wait(timeout=max(1.0, timeout - (time.time() - self.t0)))
        except subprocess.TimeoutExpired:
            timed_out = True
            try:
                os.killpg(self.proc.pid, signal.SIGKILL)
            except Exception:
                self.proc.kill()
            rc = self.proc.wait()
        self.fso.close()
        self.fse.close()
        self.wall = time.time() - self.t0
        with open(self.so) as f:
            so = f.read()
        with open(self.se) as f:
            se = f.read()[-1500:]
        log = []
        if os.path.exists(self.log):
            with open(self.log) as f:
                for line in f:
                    parts = line.rstrip("\n").split(" ", 4)
                    if len(parts) == 5:
                        try:
                            item = json.loads(parts[4])
                        except Exception:
                            item = parts[4]
                        log.append((parts[0], int(parts[1]), float(parts[2]), float(parts[3]), item))
        return Res(rc, None, so, se, where="subprocess", log=log, timeout=timed_out)


def drive_inproc(gen, mon):
    """Run a scenario with every command in-process (num-workers 0)."""
    try:
        cmd = next(gen)
        while True:
            cmd = gen.send(call_inproc(cmd, mon))
    except StopIteration as s:
        return s.value


def drive_variants(make_gen, variants, target, mon, scratch_of, timeout, on_result):
    """Run len(variants) copies of a scenario; every invocation of `target` goes through a fresh
    interpreter with that variant's worker configuration, all of them in flight together; all other
    commands run in-process.  Returns the list of scenario results (None where a subprocess timed out)."""
    gens = [make_gen(k) for k in range(len(variants))]
    outs = [None] * len(variants)
    state = ["run"] * len(variants)  # run | blocked | done | dead
    pend = [None] * len(variants)
    nxt = [None] * len(variants)
    counter = [0]

    def advance(k, first=False, res=None):
        try:
            cmd = next(gens[k]) if first else gens[k].send(res)
            while True:
                if cmd.name == target:
                    counter[0] += 1
                    pend[k] = Pending(cmd, variants[k], scratch_of(k), counter[0])
                    state[k] = "blocked"
                    return
                cmd = gens[k].send(call_inproc(cmd, mon))
        except StopIteration as s:
            outs[k] = s.value
            state[k] = "done"

    try:
        for k in range(len(variants)):
            advance(k, first=True)
        while any(s == "blocked" for s in state):
            for k in range(len(variants)):
                if state[k] != "blocked":
                    continue
                res = pend[k].wait(timeout)
                p, pend[k] = pend[k], None
                state[k] = "run"
                on_result(k, p, res)
                if res.timeout:
                    state[k] = "dead"
                    gens[k].close()
                    continue
                advance(k, res=res)
    finally:
        for p in pend:
            if p is not None:
                try:
                    os.killpg(p.proc.pid, signal.SIGKILL)
                except Exception:
                    pass
                try:
                    p.proc.wait(timeout=5)
                    p.fso.close()
                    p.fse.close()
                except Exception:
                    pass
    return outs


class Slots:
    """At most `k` multi-worker cases at a time over all shards of one run (file locks in the run's own
    scratch directory, i.e. the directory of the shard's --out file, which the runner removes)."""

    def __init__(self, k):
        self.k, self.fd = k, None
        self.dir = None
        a = sys.argv
        for i, x in enumerate(a):
            if x == "--out" and i + 1 < len(a):
                self.dir = os.path.dirname(os.path.abspath(a[i + 1]))

    def __enter__(self):
        import fcntl

        if self.dir is None or not os.path.isdir(self.dir):
            return self
        t0 = time.time()
        while True:
            for j in range(self.k):
                fd = os.open(os.path.join(self.dir, "c17-slot%d.lock" % j), os.O_CREAT | os.O_RDWR, 0o644)
                try:
                    fcntl.flock(fd, fcntl.LOCK_EX | fcntl.LOCK_NB)
                    self.fd = fd
                    self.waited = time.time() - t0
                    return self
                except OSError:
                    os.close(fd)
            time.sleep(0.2)

    def __exit__(self, *exc):
        if self.fd is not None:
            os.close(self.fd)  # releases the lock
            self.fd = None
        return False


# ---------------------------------------------------------------------------- snapshots


def write(path, text):
    with open(path, "w") as f:
        f.write(text)


def read(path):
    try:
        with open(path) as f:
            return f.read()
    except FileNotFoundError:
        return None


def sha(path):
    with open(path, "rb") as f:
        return hashlib.sha1(f.read()).hexdigest()[:16]


def tensor_desc(x):
    import torch

    if isinstance(x, torch.Tensor):
        if x.dtype.is_floating_point:
            return {"dtype": str(x.dtype), "shape": list(x.shape), "data": [repr(v) for v in x.double().flatten().tolist()]}
        return {"dtype": str(x.dtype), "shape": list(x.shape), "data": x.tolist()}
    if isinstance(x, dict):
        return {str(k): tensor_desc(v) for k, v in x.items()}
    return {"py": repr(x)}


def load(path):
    import torch

    with warnings.catch_warnings():
        warnings.simplefilter("ignore")
        return torch.load(path)


def save(path, obj, link=False):
    """link=True: every third file (by its position in the call order) is stored elsewhere and linked in by an absolute
    symbolic link - a corpus assembled with `ln -s` / `subset-torch-spect-data-dir --symlink`."""
    import torch

    if link:
        save.count = getattr(save, "count", 0) + 1
        if save.count % 3 == 1:
            store = os.path.join(os.path.dirname(os.path.dirname(os.path.abspath(path))), ".linked-store")
            os.makedirs(store, exist_ok=True)
            real = os.path.join(store, "%06d.bin" % save.count)
            torch.save(obj, real)
            os.symlink(real, path)
            return
    torch.save(obj, path)


def snap_dir(d):
    """{file name: description of the stored object} for a flat directory (missing dir -> None)."""
    if not os.path.isdir(d):
        return None
    out = {}
    for name in sorted(os.listdir(d)):
        p = os.path.join(d, name)
        if os.path.isdir(p):
            out[name + "/"] = snap_dir(p)
            continue
        try:
            out[name] = tensor_desc(load(p))
        except Exception:
            out[name] = {"raw": sha(p)}
    return out


def first_diff(a, b, path=""):
    if type(a) != type(b):
        return {"at": path, "a": core.js(a), "b": core.js(b)}
    if isinstance(a, dict):
        for k in sorted(set(a) | set(b)):
            if k not in a or k not in b:
                return {"at": path + "/" + str(k), "a": core.js(a.get(k, "<absent>")), "b": core.js(b.get(k, "<absent>"))}
            d = first_diff(a[k], b[k], path + "/" + str(k))
            if d:
                return d
        return None
    if isinstance(a, list):
        if len(a) != len(b):
            return {"at": path, "a": core.js(a)[:50], "b": core.js(b)[:50]}
        for k, (x, y) in enumerate(zip(a, b)):
            d = first_diff(x, y, path + "[%d]" % k)
            if d:
                return d
        return None
    if a != b:
        return {"at": path, "a": core.js(a), "b": core.js(b)}
    return None
