"""Instrumented stateful language model for C05 (mechanism C of DESIGN 2.1).

``HashLM`` behaves like a recurrent model: its state is a rolling hash ``h`` of everything it
has consumed (``<s>`` plus the tokens of the prefix) and a counter ``n`` of consumed tokens; the
next-token scores are a fixed pseudo-random table row selected by the state *after* consuming
the newest token.  The state dictionary is threaded through the library exactly like a hidden
state (``extract_by_src`` re-orders it, ``mix_by_mask`` mixes it).  Every call of
``calc_idx_log_probs`` is logged (history, idx, state handed in) so that an offline checker can
decide whether the state handed in was the state of exactly the history handed in.

The pure-Python half (``py_*``) is the stateless evaluator used by the reference search; it
shares nothing with the tensor half but the constants.
"""
import math
import random

MOD = 2147483629
MUL = 1000003
TABLE_ROWS = 37


def py_init(cond):
    return (int(cond) * 40503 + 12345) % MOD


def py_step(h, tok):
    return (h * MUL + int(tok) + 7) % MOD


def py_state(cond, V, prefix):
    """(h, n) the model must be handed when asked about `prefix` (idx = len(prefix))."""
    h = py_init(cond)
    if len(prefix) == 0:
        return h, 0
    h = py_step(h, V)
    for tok in prefix[:-1]:
        h = py_step(h, tok)
    return h, len(prefix)


def make_table(seed, V, scale):
    rng = random.Random("c05-lm/%s" % seed)
    return [[round(rng.gauss(0.0, 1.0) * scale, 4) for _ in range(V)] for _ in range(TABLE_ROWS)]


def py_probs(table, cond, V):
    """stateless evaluator: prefix tuple -> next-token probabilities (float64)."""
    cache = {}

    def f(prefix):
        r = cache.get(prefix)
        if r is None:
            h = py_step(py_init(cond), V)
            for tok in prefix:
                h = py_step(h, tok)
            row = table[h % TABLE_ROWS]
            m = max(row)
            e = [math.exp(x - m) for x in row]
            s = math.fsum(e)
            r = cache[prefix] = [x / s for x in e]
        return r

    return f


_CLS = None


def hashlm_class():
    """Built lazily: the library must be imported from $VERIF_REPO/src first."""
    global _CLS
    if _CLS is not None:
        return _CLS
    import torch
    from pydrobert.torch.modules import MixableSequentialLanguageModel

    class HashLM(MixableSequentialLanguageModel):
        def __init__(self, vocab_size, table, dtype, raw=False):
            super().__init__(vocab_size)
            t = torch.tensor(table, dtype=torch.float64)
            if raw:  # unnormalised scores: every row shifted by its own constant (softmax-invariant)
                t = t + (torch.arange(t.size(0), dtype=torch.float64) % 7 - 2.0).unsqueeze(1) * 0.9
            else:
                t = t.log_softmax(-1)
            t = t.to(dtype)
            self.register_buffer("table", t)
            self.calls = []  # (hist, idx, h, n) as handed in
            self.counts = {"update_input": 0, "extract_by_src": 0, "mix_by_mask": 0}

        def update_input(self, prev, hist):
            self.counts["update_input"] += 1
            # `rebuild`: the start state is derived from the static input on EVERY call (idempotent on the initial
            # dictionary, which is all the documentation asks); on a state in mid-search it resets the model
            rebuild = getattr(self, "rebuild", False)
            if "h" in prev and not rebuild:
                return prev
            rows = hist.size(1)
            if "cond" in prev:
                cond = prev["cond"].to(torch.long)
            else:
                cond = torch.zeros(rows, dtype=torch.long)
            out = {"h": (cond * 40503 + 12345) % MOD, "n": torch.zeros_like(cond)}
            if rebuild:
                out["cond"] = cond
            return out

        def calc_idx_log_probs(self, hist, prev, idx):
            h, n = prev["h"], prev["n"]
            self.calls.append((hist.clone(), idx.clone(), h.clone(), n.clone()))
            rows = hist.size(1)
            idx = idx.expand(rows)
            sos = torch.full((rows,), self.vocab_size, dtype=torch.long)
            if hist.size(0) == 0:
                tok = sos
            else:
                tok = hist.gather(0, (idx - 1).clamp(min=0, max=hist.size(0) - 1).unsqueeze(0)).squeeze(0)
                tok = torch.where(idx == 0, sos, tok)
            h1 = (h * MUL + tok + 7) % MOD
            nxt = {"h": h1, "n": n + 1}
            if "cond" in prev:
                nxt["cond"] = prev["cond"]
            return self.table[h1 % TABLE_ROWS], nxt

        def extract_by_src(self, prev, src):
            self.counts["extract_by_src"] += 1
            return {k: v.index_select(0, src) for k, v in prev.items()}

        def mix_by_mask(self, prev_true, prev_false, mask):
            self.counts["mix_by_mask"] += 1
            return {k: torch.where(mask, prev_true[k], prev_false[k]) for k in prev_true}

    _CLS = HashLM
    return HashLM
