"""C14 - batching loses nothing: buckets, loaders and collation preserve every utterance.

Events: every batch of `BucketBatchSampler`; every batch of Spect/Lang/ContextWindow loaders built on
scratch data directories together with what their utterance sampler produced (recorded on the real
sampler object); every call of the collation functions and of `extract_window` (boundary wrappers
installed on the module globals the loaders call).  Oracle: vmon/oracles/c14_model.py.
"""
import inspect
import os
import shutil
import tempfile
import warnings

from ..oracles import c14_model as O
from . import _c14_gen as G

ID = "C14"
LEVEL = "exploration"
RULE = (
    "class-directed random cases: (a) BucketBatchSampler on arbitrary sampler orders / bucket maps / size maps "
    "(int, str and tuple bucket ids, repeats, oversized buckets, real epoch samplers); (b) Spect-, Lang- and "
    "ContextWindowDataLoader on data directories of 0..30 (thorough 60) utterances written to a scratch "
    "directory (lengths: spread, ties at quantile boundaries, all equal, one long, one zero-length; every "
    "combination of batch size, bucket count, dynamic sizing, drop_last, shuffle, sort_batch, batch_first, "
    "suppress_alis/uttids, tokens_only, init_epoch, seed, num_workers 0/2), 2-3 epochs each plus a second "
    "loader resumed at a later epoch and the epoch setter; (c) direct calls of the three collation functions "
    "and of extract_window. distinct = hash of the concrete case; non-trivial = at least two batches / two "
    "rows of different length / a window that needs edge replication"
)
ASSUMPTIONS = [
    "delivered rows are compared with the tensors that were written to disk (rebuilt from the case's seed), "
    "not with what the library read back",
    "rows without utterance ids are identified by a key stored in the first feature column / first token",
    "no process group is initialised (distributed splitting is C13)",
    "collation calls made inside DataLoader worker processes (num_workers=2) are judged at the loader level only",
    "sos/eos, mean-variance normalisation and deltas are left at their defaults (C12/C18 territory)",
]
CLASSES = G.CLASSES
BUDGET = {
    "quick": dict(cases=234, shards=4, timeout=1500),
    "thorough": dict(cases=1200, shards=16, timeout=3000, time=480),
}
_QF = {
    "events": {
        "BucketBatchSampler.__iter__": 200, "SpectDataLoader.__iter__": 500, "LangDataLoader.__iter__": 250,
        "ContextWindowDataLoader.__iter__": 120, "len(loader)": 1800, "loader_batches": 3500,
        "bucket_batches": 1500, "rows_judged": 10000, "windows_judged": 15000,
        "observed:spect_seq_to_batch": 2000, "observed:lang_seq_to_batch": 1000,
        "observed:context_window_seq_to_batch": 500, "observed:extract_window": 15000,
        "spect_seq_to_batch": 30, "lang_seq_to_batch": 30, "context_window_seq_to_batch": 30, "extract_window": 250,
        "assert:conservation": 3000, "assert:batch-in-sampler-order": 5000, "assert:batch-single-bucket": 10000,
        "assert:batch-size": 800, "assert:loader-len": 1800, "assert:same-seed-epoch-identical": 400,
        "assert:collate-lossless": 60000, "assert:collate-padding": 30000, "assert:collate-sizes": 10000,
        "assert:bucket-monotone-in-length": 1500, "assert:dynamic-batch-size": 200,
        "assert:ids-stay-attached": 6000, "assert:window-edge-replicated": 18000, "assert:sort-descending": 3000,
        "assert:batch-not-mutated-after-yield": 200,
    },
    "classes": dict({c: (30 if c in G.CHEAP_CLASSES else 10) for c in CLASSES}, length_bucketed=120,
                    several_buckets_in_use=80),
    "stats": {"short_trailing_batches": 800, "indices_in_dropped_remainders": 1500,
              "padding_cells_checked": 80000, "dynamic_sizes_ne_batch_size": 40},
    "sets": {"loader_shapes": 200, "bucket_shapes": 80, "buckets_used": 4, "window_shapes": 30},
    "distinct": 300,
}
FLOORS = {
    "quick": _QF,
    "thorough": {
        "events": dict({k: 6 * v for k, v in _QF["events"].items()}),
        "classes": dict({k: 6 * v for k, v in _QF["classes"].items()}, repo_test_call=20),
        "stats": dict({k: 6 * v for k, v in _QF["stats"].items()}),
        "sets": {"loader_shapes": 1500, "bucket_shapes": 400, "buckets_used": 5, "window_shapes": 100},
        "distinct": 5000,
    },
}
EXHAUSTIVE = {"thorough": False}
PYTEST_FILES = ["tests/test_dataloaders.py"]

_STATE = {"rec": None, "mon": None, "online": False, "installed": False, "orig": {}}
_WRAPPED = ["spect_seq_to_batch", "lang_seq_to_batch", "context_window_seq_to_batch"]


def generate(rng, tier, i):
    return G.generate(rng, tier, i)


# --------------------------------------------------------------------------
# boundary wrappers (mechanism A)


def _pad():
    import pydrobert.torch.config as config

    return config.INDEX_PAD_VALUE


def _judge_call(mon, name, args, out, tag):
    """One observed call of a collation function / extract_window against the reference."""
    if name == "spect_seq_to_batch":
        O.judge_spect_call(mon, args["seq"], out, args["batch_first"], args["sort"], args["has_alis"],
                           args["has_uttids"], _pad(), tag)
    elif name == "lang_seq_to_batch":
        O.judge_lang_call(mon, args["seq"], out, args["batch_first"], args["sort"], args["has_uttids"], _pad(), tag)
    elif name == "context_window_seq_to_batch":
        O.judge_cw_call(mon, args["seq"], out, args["has_uttids"], tag)
    elif name == "extract_window":
        O.judge_window(mon, args["feat"], args["frame_idx"], args["left"], args["right"], args["reverse"], out, tag)


def _wrap(name, fn):
    sig = inspect.signature(fn)

    def wrapper(*a, **k):
        try:
            ba = sig.bind(*a, **k)
            ba.apply_defaults()
            args = dict(ba.arguments)
            if "seq" in args:
                args["seq"] = list(args["seq"])
                a, k = (), args
        except TypeError:
            args = None
        out = fn(*a, **k)
        mon = _STATE["mon"]
        if mon is not None and args is not None:
            mon.ev("observed:" + name)
            if _STATE["rec"] is not None:
                _STATE["rec"].append((name, args, out))
            elif _STATE["online"]:
                _online(mon, name, args, out)
        return out

    wrapper.__wrapped__ = fn
    wrapper.__name__ = name
    return wrapper


def _online(mon, name, args, out):
    """Repository-test workload: judge the call at once; a failure becomes a violation record."""
    from .. import core

    try:
        if name != "extract_window" and len(args["seq"]) == 0:
            return
        _judge_call(mon, name, args, out, "repo-test")
        mon.verdicts["held"] += 1
        mon.classes["repo_test_call"] += 1
    except core.Violation as v:
        case = {"class": "repo_test_call", "family": "raw_call", "fn": name,
                "args": core.js({k: v2 for k, v2 in args.items()})}
        vrec = mon._vrec(case, "pytest", core.case_hash(case), v.monitor, v.details)
        mon.verdicts["violated"] += 1
        mon.classes["repo_test_call"] += 1
        if len(mon.violations) < mon.MAX_VIOLATIONS:
            mon.violations.append(vrec)
    except Exception:
        mon.stat("online_judge_error:" + name)


def setup(mon):
    import pydrobert.torch._dataloaders as DL
    import pydrobert.torch._datasets as DS
    import pydrobert.torch.data as data

    _STATE["mon"] = mon
    _STATE["online"] = mon.shard == -1
    if _STATE["installed"]:
        return
    for name in _WRAPPED:
        fn = getattr(DL, name)
        w = _wrap(name, fn)
        _STATE["orig"][name] = fn
        setattr(DL, name, w)
        if getattr(data, name, None) is fn:
            setattr(data, name, w)
    fn = DS.extract_window
    w = _wrap("extract_window", fn)
    _STATE["orig"]["extract_window"] = fn
    DS.extract_window = w
    if getattr(data, "extract_window", None) is fn:
        data.extract_window = w
    _STATE["installed"] = True


def teardown(mon):
    import pydrobert.torch._dataloaders as DL
    import pydrobert.torch._datasets as DS
    import pydrobert.torch.data as data

    if not _STATE["installed"]:
        return
    for name, fn in _STATE["orig"].items():
        for m in (DL, DS, data):
            if getattr(getattr(m, name, None), "__wrapped__", None) is fn:
                setattr(m, name, fn)
    _STATE["installed"] = False
    _STATE["orig"].clear()


def hook_case(module, args, kwargs, output):  # mechanism B offers nn.Module calls only: nothing to do
    return None


class _Recording:
    def __enter__(self):
        _STATE["rec"] = []
        return _STATE["rec"]

    def __exit__(self, *exc):
        _STATE["rec"] = None


def _judge_recorded(mon, rec, expect_calls):
    for name, args, out in rec:
        _judge_call(mon, name, args, out, "loader-call")
    if expect_calls:
        names = {r[0] for r in rec}
        mon.check(expect_calls in names, "harness-wrapper-reached", expected=expect_calls, observed=sorted(names))


# --------------------------------------------------------------------------
# execute


def execute(case, mon):
    if not _STATE["installed"]:
        setup(mon)
    _STATE["mon"] = mon
    fam = case["family"]
    with warnings.catch_warnings():
        warnings.simplefilter("ignore")
        if fam == "bucket":
            return _exec_bucket(case, mon)
        if fam in ("spect", "lang", "cw"):
            return _exec_loader(case, mon)
        if fam.startswith("collate_"):
            return _exec_collate(case, mon)
        if fam == "window":
            return _exec_window(case, mon)
        if fam == "raw_call":
            mon.ood("repo-test witness: see details, not re-executable")
            return
    raise ValueError("unknown family %r" % fam)


# ---- the bucketing sampler alone


def _record_sampler(s, log):
    orig = s.get_samples_for_epoch

    def rec(epoch):
        lst = [int(x) for x in orig(epoch)]
        log.append((int(epoch), lst))
        return iter(lst)

    s.get_samples_for_epoch = rec


def _drain(bs):
    """Batches copied the moment they are yielded, and the objects themselves kept."""
    live, kept = [], []
    for b in bs:
        live.append([int(x) for x in b])
        kept.append(b)
    return live, kept


def _exec_bucket(case, mon):
    from pydrobert.torch.data import BucketBatchSampler, EpochRandomSampler, EpochSequentialSampler

    n = case["n_idx"]
    idx2bucket = {i: G.bucket_id(case["idtype"], b) for i, b in enumerate(case["idx2bucket"])}
    bucket2size = {G.bucket_id(case["idtype"], b): s for b, s in enumerate(case["sizes"])}
    log = []
    if case["epoch_sampler"]:
        if case["shuffle"]:
            sampler = EpochRandomSampler(list(range(n)), base_seed=case["seed"])
        else:
            sampler = EpochSequentialSampler(list(range(n)))
        _record_sampler(sampler, log)
    else:
        sampler = list(case["order"])
    bs = mon.lib("BucketBatchSampler", BucketBatchSampler, sampler, idx2bucket, bucket2size, case["drop"])
    nbatches = 0
    for rep in range(2):
        live, kept = mon.lib("BucketBatchSampler.__iter__", _drain, bs)
        produced = log[-1][1] if case["epoch_sampler"] else list(case["order"])
        if case["epoch_sampler"]:
            mon.check(log[-1][0] == rep, "harness-epoch", observed=log[-1][0], expected=rep)
        mon.ev("bucket_batches", len(live))
        O.judge_batches(mon, produced, live, idx2bucket, bucket2size, case["drop"], ordered=True,
                        tag="BucketBatchSampler rep %d" % rep)
        mon.check([[int(x) for x in b] for b in kept] == live, "batch-not-mutated-after-yield",
                  observed=[list(b) for b in kept], expected=live)
        nbatches = max(nbatches, len(live))
        mon.observe("bucket_shapes", "%d/%d/%s" % (len(produced), len(live), case["how"]))
    if nbatches < 2:
        mon.trivial()


# ---- loaders on scratch directories


def _scratch_parent():
    """Scratch directories are removed at the end of every case; should the shard be killed by the
    watchdog in the middle of one, they live inside the run's own temporary directory (the directory of
    --out), which the parent process removes.  Otherwise $TMPDIR."""
    import sys

    if "--out" in sys.argv[:-1]:
        d = os.path.dirname(os.path.abspath(sys.argv[sys.argv.index("--out") + 1]))
        if os.path.isdir(d) and os.path.basename(d).startswith("vmon-"):
            return d
    return None


def _same_obj(a, b):
    import torch

    if isinstance(a, torch.Tensor) or isinstance(b, torch.Tensor):
        return isinstance(a, torch.Tensor) and isinstance(b, torch.Tensor) and a.dtype == b.dtype \
            and a.shape == b.shape and torch.equal(a, b)
    if isinstance(a, (tuple, list)):
        return isinstance(b, (tuple, list)) and len(a) == len(b) and all(_same_obj(x, y) for x, y in zip(a, b))
    return a == b


def _make_loader(case, root, init_epoch):
    """The loader; for a third of the cases the caller then goes on using ITS parameter object for something else
    (flips drop_last on it, as one does before building a second loader): the first loader is unaffected."""
    held = []

    def made(params):
        held.append(params)
        return params

    loader = _make_loader0(case, root, init_epoch, made)
    if (case["batch_size"] + case["seed"]) % 3 == 0:
        for params in held:
            params.drop_last = not params.drop_last
    return loader


def _make_loader0(case, root, init_epoch, made):
    import pydrobert.torch.data as data

    fam = case["family"]
    lp = dict(batch_size=case["batch_size"], drop_last=case["drop_last"])
    kw = dict(shuffle=case["shuffle"], init_epoch=init_epoch, seed=case["seed"],
              suppress_uttids=case["suppress_uttids"], num_workers=case["num_workers"])
    if fam != "cw":
        lp.update(num_length_buckets=case["num_length_buckets"], size_batch_by_length=case["size_batch_by_length"])
        kw.update(batch_first=case["batch_first"], sort_batch=case["sort_batch"], tokens_only=case["tokens_only"])
    if fam == "spect":
        kw["suppress_alis"] = case["suppress_alis"]
        if case["params_style"] == "joint":
            return data.SpectDataLoader(root, made(data.SpectDataLoaderParams(**lp)), **kw)
        return data.SpectDataLoader(root, made(data.DynamicLengthDataLoaderParams(**lp)),
                                    data_params=data.SpectDataParams(), **kw)
    if fam == "lang":
        ref = os.path.join(root, "ref")
        if case["params_style"] == "joint":
            return data.LangDataLoader(ref, made(data.LangDataLoaderParams(**lp)), **kw)
        return data.LangDataLoader(ref, made(data.DynamicLengthDataLoaderParams(**lp)),
                                   data_params=data.LangDataParams(), **kw)
    cp = dict(context_left=case["left"], context_right=case["right"], reverse=case["reverse"])
    if case["params_style"] == "joint":
        return data.ContextWindowDataLoader(root, made(data.ContextWindowDataLoaderParams(**lp, **cp)), **kw)
    return data.ContextWindowDataLoader(root, made(data.DataLoaderParams(**lp)),
                                        data_params=data.ContextWindowDataParams(**cp), **kw)


def _expected_item(case, u):
    """What one utterance looks like when it reaches collation (stored tensors + documented flags)."""
    fam = case["family"]
    ref = u["ref"]
    if case["ref3"] and case["tokens_only"] and fam != "cw":
        ref = ref[:, 0]
    if fam == "lang":
        return {"first": ref, "id": u["name"]}
    ali = u["ali"] if case["has_ali"] else None
    return {"first": u["feat"], "ali": ali, "ref": ref if case["has_ref"] else None, "id": u["name"]}


def _identify(mon, case, utts, first, sizes, ids, batch_first):
    """Sorted-index of the utterance in every row, by id when delivered, by the content key as well."""
    by_name = {u["name"]: i for i, u in enumerate(utts)}
    by_created = {u["created"]: i for i, u in enumerate(utts)}
    fam = case["family"]
    rows = first if batch_first else first.transpose(0, 1)
    B = len(sizes)
    mon.check(rows.size(0) == B, "collate-shape", shape=list(first.shape), rows=B)
    zero = [i for i, u in enumerate(utts) if _expected_item(case, u)["first"].size(0) == 0]
    out = []
    for n in range(B):
        L = int(sizes[n])
        key = None
        if L > 0:
            mon.check(rows.size(1) >= L, "collate-shape", shape=list(first.shape), size=L)
            cell = rows[n, 0]
            while cell.dim() > 0:
                cell = cell[0]
            v = int(cell)
            created = v // G.KEY if fam != "lang" else v - 1000
            key = by_created.get(created)
            mon.check(key is not None, "collate-lossless", what="row holds no stored utterance", row=n, cell=v)
        elif len(zero) == 1:
            key = zero[0]
        if ids is not None:
            mon.check(ids[n] in by_name, "collate-ids", what="unknown id", observed=ids[n])
            i = by_name[ids[n]]
            if key is not None:
                mon.check(i == key, "ids-stay-attached", row=n, id=ids[n], content_of=utts[key]["name"])
            out.append(i)
        else:
            mon.check(key is not None, "harness-identify", row=n)
            out.append(key)
    return out


def _decode_padded_batch(mon, case, utts, batch):
    """Spect / Lang loader batch -> indices in row order; the rows are judged against the stored tensors."""
    fam = case["family"]
    has_ids = not case["suppress_uttids"]
    batch = list(batch) if isinstance(batch, (tuple, list)) else [batch]
    if fam == "lang":
        mon.check(len(batch) == 2 + int(has_ids), "collate-arity", observed=len(batch))
        first, sizes = batch[0], batch[1]
    else:
        has_alis = not case["suppress_alis"]
        mon.check(len(batch) == 4 + int(has_alis) + int(has_ids), "collate-arity", observed=len(batch))
        first, sizes = batch[0], batch[2 + int(has_alis)]
    ids = batch[-1] if has_ids else None
    idx = _identify(mon, case, utts, first, sizes, ids, case["batch_first"])
    items = [_expected_item(case, utts[i]) for i in idx]
    if not has_ids:
        for it in items:
            it["id"] = None
    if fam == "lang":
        seq = [((it["first"], it["id"]) if has_ids else it["first"]) for it in items]
        O.judge_lang_call(mon, seq, batch, case["batch_first"], False, has_ids, _pad(), "delivered")
    else:
        seq = []
        for it in items:
            tup = [it["first"]] + ([it["ali"]] if has_alis else []) + [it["ref"]] + ([it["id"]] if has_ids else [])
            seq.append(tuple(tup))
        O.judge_spect_call(mon, seq, batch, case["batch_first"], False, has_alis, has_ids, _pad(), "delivered")
    if case["sort_batch"]:
        sz = [int(x) for x in sizes]
        mon.check(all(a >= b for a, b in zip(sz, sz[1:])), "sort-descending", sizes=sz)
    mon.ev("rows_judged", len(idx))
    return idx


def _cw_model(feat, left, right, reverse):
    import torch

    T = feat.size(0)
    C = left + right + 1
    if T == 0:
        return feat.new_zeros(0, C, feat.size(1))
    pos = (torch.arange(T).unsqueeze(1) - left + torch.arange(C).unsqueeze(0)).clamp(0, T - 1)
    win = feat[pos]
    return win.flip(1) if reverse else win


def _decode_cw_batch(mon, case, utts, batch):
    import torch

    has_ids = not case["suppress_uttids"]
    batch = list(batch)
    mon.check(len(batch) == (4 if has_ids else 2), "collate-arity", observed=len(batch))
    windows, alis = batch[0], batch[1]
    left, right, rev = case["left"], case["right"], case["reverse"]
    C = left + right + 1
    mon.check(windows.dim() == 3 and windows.size(1) == C and windows.size(2) == case["F"], "window-shape",
              observed=list(windows.shape), C=C, F=case["F"])
    by_name = {u["name"]: i for i, u in enumerate(utts)}
    by_created = {u["created"]: i for i, u in enumerate(utts)}
    idx = []
    if has_ids:
        sizes, ids = batch[2], batch[3]
        mon.check(all(x in by_name for x in ids), "collate-ids", observed=ids)
        idx = [by_name[x] for x in ids]
        mon.check([int(x) for x in sizes] == [utts[i]["feat"].size(0) for i in idx], "collate-sizes",
                  what="window_sizes", observed=sizes, expected=[utts[i]["feat"].size(0) for i in idx])
    else:
        p, c = 0, (right if rev else left)
        while p < windows.size(0):
            v = int(windows[p, c, 0])
            i = by_created.get(v // G.KEY)
            mon.check(i is not None and v % G.KEY == 0, "window-edge-replicated",
                      what="row is not the first window of a stored utterance", row=p, cell=v)
            idx.append(i)
            p += utts[i]["feat"].size(0)
    want = [_cw_model(utts[i]["feat"], left, right, rev) for i in idx]
    total = sum(w.size(0) for w in want)
    mon.check(windows.size(0) == total, "collate-shape", what="windows", observed=list(windows.shape), total=total)
    p = 0
    for i, w in zip(idx, want):
        got = windows[p:p + w.size(0)]
        mon.check(torch.equal(got, w), "window-edge-replicated", utt=utts[i]["name"], observed=got, expected=w,
                  left=left, right=right, reverse=rev)
        p += w.size(0)
    if case["has_ali"]:
        wa = torch.cat([utts[i]["ali"] for i in idx]) if idx else None
        mon.check(alis is not None and torch.equal(alis, wa), "collate-lossless", what="alis", observed=alis,
                  expected=wa)
    else:
        mon.check(alis is None, "collate-none", what="alis")
    mon.ev("rows_judged", len(idx))
    mon.ev("windows_judged", total)
    return idx


def _lengths(case, utts):
    return [_expected_item(case, u)["first"].size(0) for u in utts]


def _exec_loader(case, mon):
    fam = case["family"]
    N = len(case["utts"])
    nb, dyn = case["num_length_buckets"], case["size_batch_by_length"]
    root = tempfile.mkdtemp(prefix="vmon-c14-", dir=_scratch_parent())
    try:
        utts = G.materialise(dict(case, has_ref=case["has_ref"] or fam == "lang"), root)
        lengths = _lengths(case, utts)
        documented = ()
        if nb > 1 and N == 0:
            documented = (IndexError,)  # nothing to bucket (DESIGN 3/C14 limits)
        elif nb > 1 and dyn and lengths and min(lengths) == 0:
            documented = (ZeroDivisionError,)  # a bucket whose longest element has length zero
        name = {"spect": "SpectDataLoader", "lang": "LangDataLoader", "cw": "ContextWindowDataLoader"}[fam]
        collate = {"spect": "spect_seq_to_batch", "lang": "lang_seq_to_batch",
                   "cw": "context_window_seq_to_batch"}[fam]
        e0, E = case["init_epoch"], case["epochs"]
        A = mon.lib(name, _make_loader, case, root, e0, documented=documented)
        bsamp = A.batch_sampler
        log = []
        _record_sampler(bsamp.sampler, log)
        is_bucket = type(bsamp).__name__ == "BucketBatchSampler"
        if is_bucket:
            idx2bucket, bucket2size = dict(bsamp.idx2bucket), dict(bsamp.bucket2size)
            O.judge_length_buckets(mon, lengths, idx2bucket, bucket2size, case["batch_size"], nb, dyn)
            mon.cls("length_bucketed")
            if len(set(idx2bucket.values())) > 1:
                mon.cls("several_buckets_in_use")
        else:
            mon.check(nb == 1 or fam == "cw", "bucket-sampler-in-use", observed=type(bsamp).__name__, buckets=nb)
            idx2bucket, bucket2size = {i: 0 for i in range(N)}, {0: case["batch_size"]}
        ordered = not (case["sort_batch"] and fam != "cw")
        delivered = {}
        most = 0

        def one_epoch(loader, e, tag):
            nonlocal most
            n_before = mon.lib("len(loader)", len, loader)
            mon.check(loader.epoch == e, "loader-epoch", observed=loader.epoch, expected=e, tag=tag)
            with _Recording() as rec:
                batches = mon.lib(name + ".__iter__", list, loader)
            n_after = mon.lib("len(loader)", len, loader)
            mon.ev("loader_batches", len(batches))
            mon.check(n_before == len(batches) == n_after, "loader-len", len_before=n_before, len_after=n_after,
                      delivered=len(batches), epoch=e, tag=tag)
            mine = [x for x in log if x[0] == e]
            mon.check(len(mine) >= 1, "harness-sampler-recorded", epoch=e, log=[x[0] for x in log])
            produced = mine[-1][1]
            mon.check(all(x[1] == produced for x in mine), "sampler-repeatable", epoch=e)
            mon.check(sorted(produced) == list(range(N)), "sampler-covers-dataset", observed=produced, N=N)
            if case["num_workers"] == 0:
                _judge_recorded(mon, rec, collate if batches else None)
            dec = _decode_cw_batch if fam == "cw" else _decode_padded_batch
            idx = [dec(mon, case, utts, b) for b in batches]
            O.judge_batches(mon, produced, idx, idx2bucket, bucket2size, case["drop_last"], ordered=ordered,
                            tag="%s %s epoch %d" % (name, tag, e))
            mon.check(O.expected_num_batches(produced, idx2bucket, bucket2size, case["drop_last"]) == n_before,
                      "loader-len", what="len vs. batches implied by the sampler's output", len=n_before, epoch=e)
            most = max(most, len(batches))
            return batches, produced

        orders = []
        for k in range(E):
            delivered[e0 + k], produced = one_epoch(A, e0 + k, "first loader")
            orders.append(tuple(produced))
        if case["shuffle"] and N > 3:
            mon.stat("epoch_pairs_compared", E - 1)
            mon.stat("epoch_pairs_same_order", sum(1 for a, b in zip(orders, orders[1:]) if a == b))
        # ---- identical (seed, epoch) => identical batches: a second object resumed later, and the setter
        j = (case["data_seed"] % E)
        B = mon.lib(name, _make_loader, case, root, e0 + j)
        _record_sampler(B.batch_sampler.sampler, log)
        again, _ = one_epoch(B, e0 + j, "resumed loader")
        mon.check(_same_obj(again, delivered[e0 + j]), "same-seed-epoch-identical", epoch=e0 + j,
                  how="second loader with init_epoch", observed=_brief(again), expected=_brief(delivered[e0 + j]))
        A.epoch = e0
        again, _ = one_epoch(A, e0, "epoch setter")
        mon.check(_same_obj(again, delivered[e0]), "same-seed-epoch-identical", epoch=e0, how="epoch setter",
                  observed=_brief(again), expected=_brief(delivered[e0]))
        # ---- call histories on one loader object: len() asked for the first time in the middle of an epoch, and
        # len() right after an epoch that was abandoned half-way
        if case["num_workers"] == 0 and len(delivered[e0]) >= 2:
            C = mon.lib(name, _make_loader, case, root, e0)
            it = iter(C)
            got = [next(it)]
            n_mid = mon.lib("len(loader)", len, C)
            got.extend(it)
            mon.stat("history_len_mid_epoch")
            mon.check(n_mid == len(got), "loader-len", what="len() asked in the middle of an epoch", len=n_mid,
                      delivered=len(got), epoch=e0)
            mon.check(_same_obj(got, delivered[e0]), "same-seed-epoch-identical", epoch=e0,
                      how="len() called while the epoch was under way", observed=_brief(got),
                      expected=_brief(delivered[e0]))
            C = mon.lib(name, _make_loader, case, root, e0)  # a fresh object: its length was never asked for
            it = iter(C)
            next(it)
            if len(delivered[e0]) >= 3:
                next(it)
            del it  # abandoned
            e_next = C.epoch
            n_ab = mon.lib("len(loader)", len, C)
            full = mon.lib(name + ".__iter__", list, C)
            mon.stat("history_len_after_abandoned_epoch")
            mon.check(n_ab == len(full), "loader-len", what="len() right after an abandoned epoch", len=n_ab,
                      delivered=len(full), epoch=e_next)
            if e_next in delivered:
                mon.check(_same_obj(full, delivered[e_next]), "same-seed-epoch-identical", epoch=e_next,
                          how="epoch after an abandoned one", observed=_brief(full),
                          expected=_brief(delivered[e_next]))
        # ---- another loader object over the SAME directory after its content changed (same number of
        # utterances, the tensors rotated among the names): length buckets must follow what is on disk now
        if is_bucket and N >= 3 and len(set(lengths)) > 1 and case["num_workers"] == 0:
            names = [u["name"] for u in utts]
            for sub in ("feat", "ali", "ref"):
                d = os.path.join(root, sub)
                if not os.path.isdir(d):
                    continue
                for nm in names:
                    os.rename(os.path.join(d, nm + ".pt"), os.path.join(d, nm + ".pt.moving"))
                for k, nm in enumerate(names):  # name k now holds what name k+1 held
                    os.rename(os.path.join(d, names[(k + 1) % N] + ".pt.moving"), os.path.join(d, nm + ".pt"))
            rotated = lengths[1:] + lengths[:1]
            D2 = mon.lib(name, _make_loader, case, root, e0)
            b2 = D2.batch_sampler
            mon.check(type(b2).__name__ == "BucketBatchSampler", "bucket-sampler-in-use", observed=type(b2).__name__,
                      buckets=nb, note="second loader over the rewritten directory")
            O.judge_length_buckets(mon, rotated, dict(b2.idx2bucket), dict(b2.bucket2size), case["batch_size"], nb, dyn)
            mon.stat("history_second_loader_after_directory_rewrite")
        mon.observe("loader_shapes", "%s/N%d/b%d/nb%d/%s%s" % (fam, N, case["batch_size"], nb,
                                                                "D" if dyn else "", "drop" if case["drop_last"] else ""))
        if most < 2:
            mon.trivial()
    finally:
        shutil.rmtree(root, ignore_errors=True)


def _brief(batches):
    from .. import core

    return core.js([[x if not hasattr(x, "shape") else x for x in (b if isinstance(b, (tuple, list)) else [b])]
                    for b in batches[:4]])


# ---- collation functions and extract_window called directly


def _exec_collate(case, mon):
    import torch
    import pydrobert.torch.data as data

    fam = case["family"]
    utts = G.content(dict(case))
    B = len(utts)
    has_ids = case["has_uttids"]
    sizes = set()
    if fam == "collate_spect":
        seq = []
        for k, u in enumerate(utts):
            ali = None if k in case["none_ali"] else u["ali"]
            ref = None if k in case["none_ref"] else u["ref"]
            tup = [u["feat"]] + ([ali] if case["has_alis"] else []) + [ref] + ([u["name"]] if has_ids else [])
            seq.append(tuple(tup))
            sizes.add(u["feat"].size(0))
        with _Recording() as rec:
            mon.lib("spect_seq_to_batch", data.spect_seq_to_batch, seq, case["batch_first"], case["sort"],
                    case["has_alis"], has_ids)
    elif fam == "collate_lang":
        seq = [((u["ref"], u["name"]) if has_ids else u["ref"]) for u in utts]
        sizes = {u["ref"].size(0) for u in utts}
        with _Recording() as rec:
            mon.lib("lang_seq_to_batch", data.lang_seq_to_batch, seq, case["batch_first"], case["sort"], has_ids)
    else:
        g = torch.Generator().manual_seed(case["data_seed"] + 1)
        seq = []
        for k, u in enumerate(utts):
            T = u["feat"].size(0)
            win = torch.randint(-8, 9, (T, case["C"], case["F"]), generator=g).float()
            ali = None if k in case["none_ali"] else u["ali"]
            seq.append((win, ali, u["name"]) if has_ids else (win, ali))
            sizes.add(T)
        with _Recording() as rec:
            mon.lib("context_window_seq_to_batch", data.context_window_seq_to_batch, seq, has_ids)
    mon.check(len(rec) == 1, "harness-wrapper-reached", observed=len(rec))
    _judge_recorded(mon, rec, None)
    mon.ev("rows_judged", B)
    if len(sizes) < 2:
        mon.trivial()


def _exec_window(case, mon):
    import torch
    import pydrobert.torch.data as data

    g = torch.Generator().manual_seed(case["data_seed"])
    T, F = case["T"], case["F"]
    feat = torch.randint(-50, 51, (T, F), generator=g).float()
    feat[:, 0] = torch.arange(T).float()
    keep = feat.clone()
    with _Recording() as rec:
        for t in range(T):
            for rev in (case["reverse"], not case["reverse"]):
                mon.lib("extract_window", data.extract_window, feat, t, case["left"], case["right"], rev)
    mon.check(len(rec) == 2 * T, "harness-wrapper-reached", observed=len(rec), expected=2 * T)
    _judge_recorded(mon, rec, None)
    mon.check(torch.equal(feat, keep), "harness-input-untouched")
    mon.observe("window_shapes", "%d/%d/%d" % (T, case["left"], case["right"]))
    if not (T >= 2 and case["left"] + case["right"] >= 1):
        mon.trivial()
