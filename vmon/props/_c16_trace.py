"""Mechanism E for C16: interpreter events as crash points.

* `sys.monitoring` LINE events restricted to the code objects of training.py and an audit hook
  (open / os.rename / os.remove / os.mkdir / os.rmdir / tempfile.mkstemp) enumerate every point
  between two file-system mutations of an epoch update without knowing the code.
* At each event the state directory and the CSV are read back *through the file system* (what a
  process death at that point leaves behind, including the loss of data still sitting in a Python
  file buffer).  Each event at which the canonical fingerprint changed is a crash state.
* `die_at(n)` arms the same event counter to call `os._exit()` at event n: used in a forked child to
  produce the crash for real.
"""
import hashlib
import os
import shutil
import sys
import types

AUDIT_EVENTS = frozenset(["open", "os.rename", "os.remove", "os.mkdir", "os.rmdir", "tempfile.mkstemp",
                          "os.truncate", "shutil.rmtree", "os.link", "os.symlink"])


def code_objects(mod):
    """Every code object defined in the module's file (functions, methods, nested)."""
    fname = mod.__file__
    seen = {}

    def walk(co):
        if co in seen or co.co_filename != fname:
            return
        seen[co] = True
        for c in co.co_consts:
            if isinstance(c, types.CodeType):
                walk(c)

    def visit(v):
        f = getattr(v, "__func__", v)
        f = getattr(f, "__wrapped__", f)
        if isinstance(f, types.FunctionType):
            walk(f.__code__)
        if isinstance(v, property):
            for g in (v.fget, v.fset, v.fdel):
                if g is not None:
                    visit(g)

    for v in list(vars(mod).values()):
        if isinstance(v, type) and getattr(v, "__module__", None) == mod.__name__:
            for a in list(vars(v).values()):
                visit(a)
        else:
            visit(v)
    return list(seen)


class Tracer:
    _instance = None

    @classmethod
    def get(cls, mod):
        if cls._instance is None:
            cls._instance = Tracer(mod)
        return cls._instance

    def __init__(self, mod):
        self.mod = mod
        self.codes = code_objects(mod)
        self.cb = None
        self.root = None
        self.busy = False
        self.count = 0
        self.line_events = 0
        self.audit_events = 0
        self.counts_by_audit = {}
        m = sys.monitoring
        self.tool = None
        for tid in (4, 3, 5, 2, 1):
            if m.get_tool(tid) is None:
                m.use_tool_id(tid, "vmon-c16")
                self.tool = tid
                break
        if self.tool is None:
            raise RuntimeError("no free sys.monitoring tool id")
        m.register_callback(self.tool, m.events.LINE, self._on_line)
        sys.addaudithook(self._on_audit)
        self.enabled = False

    # ---- event sources
    def _on_line(self, code, line):
        if self.cb is None or self.busy:
            return None
        self.busy = True
        try:
            self.count += 1
            self.line_events += 1
            self.cb(self.count, "line", code.co_name, line)
        finally:
            self.busy = False
        return None

    def _on_audit(self, event, args):
        if self.cb is None or self.busy or event not in AUDIT_EVENTS:
            return
        # only operations on the scenario's own files (lazy imports etc. open other files)
        root = self.root
        if root is not None and not any(
                (isinstance(a, str) and a.startswith(root)) or (isinstance(a, bytes) and a.startswith(root.encode()))
                for a in args):
            return
        self.busy = True
        try:
            self.count += 1
            self.audit_events += 1
            self.counts_by_audit[event] = self.counts_by_audit.get(event, 0) + 1
            self.cb(self.count, "audit", event, args)
        finally:
            self.busy = False

    def _enable(self, on):
        m = sys.monitoring
        if on == self.enabled:
            return
        for co in self.codes:
            m.set_local_events(self.tool, co, m.events.LINE if on else 0)
        self.enabled = on

    # ---- use
    def start(self, cb, root=None):
        self.root = root
        self.count = 0
        self.line_events = 0
        self.audit_events = 0
        self.counts_by_audit = {}
        self.cb = cb
        self._enable(True)

    def stop(self):
        self.cb = None
        self._enable(False)
        return self.count

    def die_at(self, n, root=None, status=0):
        """Arm: the process dies (no flushing, no clean-up) on reaching event n."""
        def cb(count, kind, a, b):
            if count == n:
                os._exit(status)
        self.start(cb, root)


# --------------------------------------------------------------------------
# directory snapshots


def read_tree(root):
    """{relative path: bytes} for files, {path + '/': None} for directories, as visible on disk now."""
    out = {}
    for dp, dns, fns in os.walk(root):
        for d in dns:
            out[os.path.relpath(os.path.join(dp, d), root) + "/"] = None
        for f in fns:
            p = os.path.join(dp, f)
            try:
                with open(p, "rb") as fh:
                    out[os.path.relpath(p, root)] = fh.read()
            except FileNotFoundError:
                pass
    return out


def write_tree(root, tree):
    """Make `root` hold exactly `tree` (in place: directories that stay are not re-created)."""
    os.makedirs(root, exist_ok=True)
    for dp, dns, fns in os.walk(root, topdown=False):
        for f in fns:
            p = os.path.join(dp, f)
            if os.path.relpath(p, root) not in tree:
                os.remove(p)
        for d in dns:
            p = os.path.join(dp, d)
            if os.path.relpath(p, root) + "/" not in tree:
                shutil.rmtree(p)
    for rel in sorted(tree):
        if rel.endswith("/"):
            os.makedirs(os.path.join(root, rel), exist_ok=True)
    for rel, data in tree.items():
        if rel.endswith("/"):
            continue
        p = os.path.join(root, rel)
        os.makedirs(os.path.dirname(p), exist_ok=True)
        with open(p, "wb") as f:
            f.write(data)


def canonical(tree, named):
    """Fingerprint: named files (checkpoints of any epoch, the CSV) by content hash, directories by
    name, everything else (temporary files, whose names are random) collapsed to
    (directory, 'tmp', non-empty?)."""
    items = []
    for rel, data in tree.items():
        if data is None:
            items.append((rel, "dir", ""))
        elif rel in named:
            items.append((rel, "file", hashlib.sha1(data).hexdigest()))
        else:
            items.append((os.path.dirname(rel) + "/<tmp>", "tmp", "non-empty" if data else "empty"))
    return tuple(sorted(items))


def fp_hash(fp):
    return hashlib.sha1(repr(fp).encode()).hexdigest()[:16]
