"""C14 helper: case generation and materialisation of scratch data directories.

A case holds only concrete, JSON-able inputs: utterance names and lengths, the seed of the torch
generator that fills the tensors, and every flag.  `content(case)` rebuilds the very tensors that
are written to disk, so that the oracle compares deliveries with what was stored, not with what
the library read back.

Row identification when utterance ids are suppressed: `feat[t, 0] == KEY * created_index + t`
(exact in float32), `ref[0] (or ref[0, 0]) == 1000 + created_index`.
"""
import os

KEY = 64  # > longest utterance

LOADER_CLASSES = [
    "spect_plain", "spect_buckets", "spect_dynamic", "spect_equal_lengths", "spect_boundary_ties",
    "spect_more_buckets_than_utts", "spect_small_buckets", "spect_zero_len", "spect_suppressed_ids",
    "lang_plain", "lang_buckets", "lang_suppressed_ids", "lang_dynamic",
    "cw_loader", "cw_suppressed_ids",
]
CHEAP_CLASSES = ["bucket_sampler", "bucket_sampler_hostile", "bucket_sampler_epoch",
                 "collate_spect", "collate_lang", "collate_cw", "window"]
CLASSES = LOADER_CLASSES + CHEAP_CLASSES + ["empty_dataset", "workers2", "ood_probe"]
# the schedule visits the cheap, file-less classes three times per round
SCHEDULE = LOADER_CLASSES + CHEAP_CLASSES + ["empty_dataset", "workers2", "ood_probe"] + CHEAP_CLASSES * 2


def _names(rng, n):
    """Utterance ids whose sorted order differs from the creation order."""
    pool = ["u%02d" % k for k in range(60)] + ["a", "a-b", "a.b", "B", "utt_1", "utt_10", "utt_2", "z9"]
    return rng.sample(pool, n)


def _lengths(rng, n, style, lo=1, hi=24):
    if n == 0:
        return []
    if style == "equal":
        return [rng.randint(lo, hi)] * n
    if style == "two_values":
        a, b = rng.randint(lo, hi), rng.randint(lo, hi)
        return [rng.choice([a, b]) for _ in range(n)]
    if style == "ties":
        # few distinct values, many ties: quantile boundaries fall inside runs of equal lengths
        vals = [rng.randint(lo, hi) for _ in range(rng.randint(1, 4))]
        return [rng.choice(vals) for _ in range(n)]
    if style == "spread":
        return [rng.randint(lo, hi) for _ in range(n)]
    if style == "one_long":
        return [rng.randint(lo, 3) for _ in range(n - 1)] + [hi]
    raise ValueError(style)


def gen_loader_case(rng, tier, cls):
    big = tier == "thorough" and rng.random() < 0.3
    maxN = 60 if big else 30
    fam = cls.split("_")[0]
    if cls in ("workers2", "ood_probe", "empty_dataset"):
        fam = rng.choice(["spect", "lang", "cw"]) if cls != "ood_probe" else rng.choice(["spect", "lang"])
    N = rng.randint(1, maxN)
    style = rng.choice(["spread", "spread", "ties", "two_values", "one_long"])
    nb = 1
    bs = rng.randint(1, 8)
    dynamic = False
    zero_len = False
    if cls in ("spect_buckets", "lang_buckets"):
        nb = rng.randint(2, 6)
    elif cls in ("spect_dynamic", "lang_dynamic"):
        nb, dynamic = rng.randint(2, 5), True
    elif cls == "spect_equal_lengths":
        nb, style, dynamic = rng.randint(1, 4), "equal", rng.random() < 0.5
    elif cls == "spect_boundary_ties":
        nb, style, dynamic = rng.randint(2, 6), "ties", rng.random() < 0.4
        N = rng.randint(4, maxN)
    elif cls == "spect_more_buckets_than_utts":
        N = rng.randint(1, 6)
        nb = N + rng.randint(1, 4)
        dynamic = rng.random() < 0.3
    elif cls == "spect_small_buckets":
        nb = rng.randint(2, 5)
        N = rng.randint(nb, min(maxN, 4 * nb))
        bs = N // nb + rng.randint(1, 4)  # buckets smaller than a batch
    elif cls == "spect_zero_len":
        zero_len, nb = True, rng.choice([1, 1, 2, 3])
    elif cls in ("spect_suppressed_ids", "lang_suppressed_ids", "cw_suppressed_ids"):
        nb = rng.choice([1, 2, 3, 4]) if fam != "cw" else 1
        dynamic = rng.random() < 0.3
    elif cls == "empty_dataset":
        N = 0
    elif cls == "workers2":
        N = rng.randint(3, 12)
        nb = rng.choice([1, 2, 3]) if fam != "cw" else 1
    elif cls == "ood_probe":
        nb = rng.randint(2, 4)
        if rng.random() < 0.5:
            N = 0
        else:
            zero_len, dynamic = True, True
    if fam == "cw":
        nb, dynamic = 1, False
        if cls == "cw_loader" and rng.random() < 0.4:
            zero_len = True  # a 0-frame utterance contributes no window but keeps its id and its size entry
    lens = _lengths(rng, N, style)
    if zero_len and N:
        lens[rng.randrange(N)] = 0  # at most one, so that a row without content is still identifiable
    names = _names(rng, N)
    suppressed = cls.endswith("suppressed_ids") or (cls in ("workers2", "spect_zero_len") and rng.random() < 0.3)
    ref3 = rng.random() < 0.4
    case = {
        "class": cls, "family": fam,
        "utts": [{"name": names[k], "T": lens[k], "R": rng.randint(0, 7)} for k in range(N)],
        "F": rng.randint(1, 4), "data_seed": rng.randrange(1 << 30),
        "has_ali": rng.random() < 0.6, "has_ref": rng.random() < 0.75 or fam == "lang", "ref3": ref3,
        "batch_size": bs, "num_length_buckets": nb, "size_batch_by_length": dynamic,
        "drop_last": rng.random() < 0.4, "shuffle": rng.random() < 0.65, "sort_batch": rng.random() < 0.5,
        "batch_first": rng.random() < 0.5, "suppress_alis": rng.random() < 0.5,
        "suppress_uttids": suppressed, "tokens_only": rng.random() < 0.5,
        "seed": rng.choice([0, 1, 2 ** 31 - 1, rng.randrange(1 << 31)]),
        "init_epoch": rng.choice([0, 0, 1, 3, 10]), "epochs": rng.choice([2, 2, 3]),
        "num_workers": 2 if cls == "workers2" else 0,
        "params_style": rng.choice(["joint", "split"]),
        "left": rng.randint(0, 4), "right": rng.randint(0, 4), "reverse": rng.random() < 0.4,
    }
    # feature files of recordings that were never transcribed sit in the same directory (the data set leaves them out,
    # with a warning): very short and very long ones, sorting before, between and after the real ids
    case["strays"] = fam == "spect" and case["has_ref"] and rng.random() < 0.4
    if fam == "lang":
        # the length that matters is the reference length
        rl = _lengths(rng, N, style, lo=0 if zero_len else 1, hi=12)
        if zero_len and N:
            rl = [max(1, x) for x in rl]
            rl[rng.randrange(N)] = 0
        for k in range(N):
            case["utts"][k]["R"] = rl[k]
    if fam == "cw" and suppressed:
        for u in case["utts"]:
            u["T"] = max(1, u["T"])
    if cls == "workers2":
        case["epochs"] = 1  # every epoch starts a worker pool: keep the multi-process cases few and short
    return case


def content(case):
    """The tensors of every utterance, keyed by *sorted* index (the data set sorts the ids)."""
    import torch

    g = torch.Generator().manual_seed(case["data_seed"])
    F = case["F"]
    utts = []
    for k, u in enumerate(case["utts"]):
        T, Rn = u["T"], u["R"]
        feat = torch.randint(-8, 9, (T, F), generator=g).float() / 4
        if T:
            feat[:, 0] = torch.arange(T).float() + KEY * k
        ali = torch.randint(0, 10, (T,), generator=g)
        tok = torch.randint(0, 50, (Rn,), generator=g)
        if Rn:
            tok[0] = 1000 + k
        if case["ref3"]:
            se = torch.randint(-1, 20, (Rn, 2), generator=g)
            ref = torch.cat([tok.unsqueeze(1), se], 1)
        else:
            ref = tok
        utts.append({"name": u["name"], "created": k, "feat": feat, "ali": ali, "ref": ref})
    utts.sort(key=lambda x: x["name"])
    return utts


def materialise(case, root):
    """Write the data directory (feat/ [ali/] [ref/]); returns the utterances by sorted index."""
    import torch

    utts = content(case)
    os.makedirs(os.path.join(root, "feat"))
    if case["has_ali"]:
        os.makedirs(os.path.join(root, "ali"))
    if case["has_ref"]:
        os.makedirs(os.path.join(root, "ref"))
    for u in utts:
        torch.save(u["feat"], os.path.join(root, "feat", u["name"] + ".pt"))
        if case["has_ali"]:
            torch.save(u["ali"], os.path.join(root, "ali", u["name"] + ".pt"))
        if case["has_ref"]:
            torch.save(u["ref"], os.path.join(root, "ref", u["name"] + ".pt"))
    if case.get("strays") and case["has_ref"] and utts:
        F = utts[0]["feat"].shape[1] if utts[0]["feat"].dim() == 2 else 1
        longest = max(int(u["feat"].shape[0]) for u in utts)
        taken = {u["name"] for u in utts}
        mid = utts[len(utts) // 2]["name"] + "0"
        for name, T in (("!untranscribed", 4 * longest + 3), (mid, 1), ("~untranscribed", 2 * longest + 1)):
            if name not in taken:
                torch.save(torch.zeros(T, F), os.path.join(root, "feat", name + ".pt"))
    return utts


# --------------------------------------------------------------------------
# the bucketing sampler alone


def gen_bucket_case(rng, tier, cls):
    n_idx = rng.randint(0, 40)
    # negint / negtuple: ids -1, -2, ... (CPython: hash(-1) == hash(-2)); bigint: 0 and 2**61 - 1 hash alike too
    idtype = rng.choice(["int", "int", "str", "tuple", "negint", "negtuple", "bigint"])
    nb = rng.randint(1, 6)
    if cls == "bucket_sampler_hostile":
        how = rng.choice(["size1", "one_bucket", "own_bucket", "oversized", "empty", "repeats"])
    else:
        how = "plain"
    idx2b = [rng.randrange(nb) for _ in range(n_idx)]
    sizes = [rng.randint(1, 6) for _ in range(nb)]
    order = list(range(n_idx))
    rng.shuffle(order)
    if rng.random() < 0.3:
        order = order[: rng.randint(0, n_idx)]  # the sampler need not visit everything
    if how == "size1":
        sizes = [1] * nb
    elif how == "one_bucket":
        idx2b = [0] * n_idx
    elif how == "own_bucket":
        nb = max(1, n_idx)
        idx2b = list(range(n_idx))
        sizes = [rng.randint(1, 3) for _ in range(nb)]
    elif how == "oversized":
        sizes = [n_idx + rng.randint(1, 5) for _ in range(nb)]
    elif how == "empty":
        order = []
    elif how == "repeats" and n_idx:
        order = [rng.randrange(n_idx) for _ in range(rng.randint(1, 60))]
    return {"class": cls, "family": "bucket", "how": how, "order": order, "idx2bucket": idx2b, "sizes": sizes,
            "idtype": idtype, "drop": rng.random() < 0.5,
            "epoch_sampler": cls == "bucket_sampler_epoch", "seed": rng.randrange(1 << 31),
            "shuffle": rng.random() < 0.7, "n_idx": n_idx}


def bucket_id(idtype, b):
    if idtype == "str":
        return "b%02d" % b
    if idtype == "tuple":
        return (b // 2, b % 2)
    if idtype == "negint":
        return -(b + 1)
    if idtype == "negtuple":
        return (-(b + 1), "x")
    if idtype == "bigint":
        return b * (2 ** 61 - 1)
    return b


# --------------------------------------------------------------------------
# collation functions and extract_window called directly


def gen_collate_case(rng, tier, cls):
    B = rng.randint(1, 8)
    style = rng.choice(["spread", "ties", "equal", "one_long"])
    lens = _lengths(rng, B, style, lo=0 if rng.random() < 0.3 else 1, hi=12)
    case = {"class": cls, "family": cls, "F": rng.randint(1, 4), "data_seed": rng.randrange(1 << 30),
            "utts": [{"name": n, "T": lens[k], "R": rng.randint(0, 6)} for k, n in enumerate(_names(rng, B))],
            "ref3": rng.random() < 0.4, "batch_first": rng.random() < 0.5, "sort": rng.random() < 0.5,
            "has_alis": rng.random() < 0.6, "has_uttids": rng.random() < 0.5,
            "none_ali": [], "none_ref": [], "C": rng.randint(1, 5)}
    r = rng.random()
    if r < 0.15:
        case["none_ali"] = list(range(B))
    elif r < 0.3:
        case["none_ali"] = sorted(rng.sample(range(B), rng.randint(1, B)))
    r = rng.random()
    if r < 0.15:
        case["none_ref"] = list(range(B))
    elif r < 0.25:
        case["none_ref"] = sorted(rng.sample(range(B), rng.randint(1, B)))
    return case


def gen_window_case(rng, tier, cls):
    return {"class": cls, "family": "window", "T": rng.randint(1, 9), "F": rng.randint(1, 3),
            "left": rng.randint(0, 6), "right": rng.randint(0, 6), "reverse": rng.random() < 0.5,
            "data_seed": rng.randrange(1 << 30)}


def generate(rng, tier, i):
    cls = SCHEDULE[i % len(SCHEDULE)]
    if cls.startswith("bucket_sampler"):
        return gen_bucket_case(rng, tier, cls)
    if cls.startswith("collate_"):
        return gen_collate_case(rng, tier, cls)
    if cls == "window":
        return gen_window_case(rng, tier, cls)
    return gen_loader_case(rng, tier, cls)
