"""Class-directed generator of n-gram tables, histories and ARPA cases for C06.

Everything is derived from the `random.Random` handed in and is JSON-able: a table is a
list (one per order) of entries ``[key, logp, logb]`` (see vmon/oracles/c06_katz.py)."""
import itertools

CLASSES = [
    "dense", "sparse_closed", "missing_suffix", "neginf_children", "unigram_only",
    "empty_middle", "arpa", "explicit_sos_hist", "single_vocab", "width255",
    "deep_narrow", "missing_suffix", "arpa", "order4_sparse", "width255", "fat_inner_node",
    "dead_end_context",
]
SOS_KINDS = ["sos_in_vocab", "sos_out_of_vocab", "sos_negative"]
CHUNKS = [1, 2, 3, 7]


def _logp(rng, p_inf=0.0):
    if rng.random() < p_inf:
        return "-inf"
    if rng.random() < 0.3:
        return -rng.randint(1, 64) / 8.0  # dyadic
    return -round(rng.uniform(0.01, 9.0), 4)


def _logb(rng):
    r = rng.random()
    if r < 0.2:
        return 0.0
    if r < 0.4:
        return -rng.randint(1, 16) / 8.0
    return round(rng.uniform(-2.5, 0.4), 4)


def pick_sos(rng, V, kind):
    if kind == "sos_in_vocab":
        return rng.randrange(V)
    # values that alias an in-vocabulary id modulo 256 / 65536 (narrow id storage) included
    if kind == "sos_negative":
        return rng.choice([-1, -1, -7, -256, -255, -65536 + rng.randrange(V)])
    return rng.choice([V, V, V + 3, 1000, 256, 256 + rng.randrange(V), 512, 65536 + rng.randrange(V)])


def sample_keys(rng, symbols, n, count):
    """`count` distinct n-grams over `symbols` (fewer if there are not that many)."""
    total = len(symbols) ** n
    count = min(count, total)
    if total <= 4096:
        allk = list(itertools.product(symbols, repeat=n))
        return [list(k) for k in rng.sample(allk, count)]
    seen = set()
    while len(seen) < count:
        seen.add(tuple(rng.choice(symbols) for _ in range(n)))
    return [list(k) for k in sorted(seen)]


def _entries(rng, keys, p_inf):
    return [[k, _logp(rng, p_inf), _logb(rng)] for k in keys]


def close_table(keysets, suffix=True, prefix=True):
    """Close the per-order key sets under suffixes and/or prefixes (as real LMs are)."""
    N = len(keysets)
    for n in range(N - 1, 0, -1):
        for k in list(keysets[n]):
            if suffix:
                keysets[n - 1].add(k[1:])
            if prefix:
                keysets[n - 1].add(k[:-1])
    return keysets


def gen_exact(rng, symbols, counts, p_inf=0.03):
    """Suffix-closed by construction with *exactly* counts[n] entries of order n+1 (the
    builder back-fills nothing, so the level sizes it sees are the ones asked for)."""
    prev = [(s,) for s in symbols]  # counts[0] is always the whole symbol set
    levels = [prev]
    for n in range(1, len(counts)):
        space = len(symbols) * len(prev)
        c = max(1, min(counts[n], space))
        cur = [(symbols[i // len(prev)],) + prev[i % len(prev)] for i in rng.sample(range(space), c)]
        levels.append(cur)
        prev = cur
    N = len(levels)
    table = []
    for n, ks in enumerate(levels):
        keys = [list(k) for k in ks]
        rng.shuffle(keys)
        table.append(_entries(rng, keys, p_inf if n < N - 1 else 0.0))
    return table


def gen_fat(rng, symbols, N):
    """One inner trie node (an (n-1)-gram suffix, n >= 3) has more direct descendants than any
    node nearer the root: all x+suffix are listed, while every shorter suffix has one or two."""
    levels = [[(s,) for s in symbols]]
    fat_level = rng.randint(3, N)
    for n in range(2, N + 1):
        prev = levels[-1]
        cur = set()
        if n == fat_level:
            base = rng.choice(prev)
            keep = rng.randint(max(3, len(symbols) - 1), len(symbols))
            for x in rng.sample(symbols, min(keep, len(symbols))):
                cur.add((x,) + base)
        for k in prev:
            if rng.random() < 0.5:
                for x in rng.sample(symbols, min(len(symbols), rng.randint(1, 2))):
                    cur.add((x,) + k)
        if not cur:
            cur.add((rng.choice(symbols),) + rng.choice(prev))
        levels.append(sorted(cur))
    table = []
    for n, ks in enumerate(levels):
        keys = [list(k) for k in ks]
        rng.shuffle(keys)
        table.append(_entries(rng, keys, 0.05 if n < N - 1 else 0.0))
    return table


def gen_table(rng, V, sos, N, mode, counts=None):
    symbols = list(range(V))
    if not (0 <= sos < V):
        symbols = symbols + [sos]
    if mode == "exact":
        return gen_exact(rng, symbols, counts)
    if mode == "fat_inner_node":
        return gen_fat(rng, symbols, N)
    p_inf = {"neginf_children": 0.35, "missing_suffix": 0.1, "order4_sparse": 0.1}.get(mode, 0.03)
    keysets = []
    for n in range(1, N + 1):
        total = len(symbols) ** n
        if counts is not None:
            c = counts[n - 1]
        elif mode == "dense":
            c = min(total, 150) if rng.random() < 0.5 else int(min(total, 150) * rng.uniform(0.6, 1.0))
        elif n == 1:
            c = rng.randint(0, total) if mode in ("missing_suffix", "neginf_children") else total
        else:
            c = rng.randint(1, max(1, min(total, 8 * n + 10)))
        keysets.append(set(tuple(k) for k in sample_keys(rng, symbols, n, max(c, 0))))
    if mode == "sparse_closed":
        close_table(keysets)
    elif mode == "neginf_children":
        close_table(keysets, suffix=True, prefix=rng.random() < 0.5)
    elif mode == "empty_middle" and N >= 3:
        m = rng.randrange(1, N - 1)
        keep = rng.choice([0, 0, 1])
        keysets[m] = set(sorted(keysets[m])[:keep])
    if not keysets[-1]:
        keysets[-1].add(tuple(rng.choice(symbols) for _ in range(N)))
    table = []
    for n, ks in enumerate(keysets):
        keys = [list(k) for k in sorted(ks)]
        rng.shuffle(keys)
        table.append(_entries(rng, keys, p_inf if n < N - 1 else p_inf / 2))
    return table


def gen_dead_end(rng, symbols, N, d):
    """Token d starts no listed n-gram (it only ever ends one), yet long contexts ending in d are listed with their
    own back-off weights: after d every candidate falls off the trie at the second level while the context path
    itself goes on to full depth."""
    others = [s for s in symbols if s != d] or [d]
    levels = [[(s,) for s in symbols]]
    for n in range(2, N + 1):
        cur = set()
        for _ in range(rng.randint(2, 3 * n + 4)):
            k = tuple(rng.choice(others) for _ in range(n - 1)) + (rng.choice(symbols),)
            cur.add(k)
        if n < N:
            for _ in range(rng.randint(1, 3)):
                cur.add(tuple(rng.choice(others) for _ in range(n - 1)) + (d,))
        levels.append(cur)
    if rng.random() < 0.7:
        # contexts of every length along one path ending in d
        path = tuple(rng.choice(others) for _ in range(N - 2)) + (d,)
        for n in range(2, N):
            levels[n - 1].add(path[-n:])
    table = []
    for n, ks in enumerate(levels):
        keys = [list(k) for k in sorted(ks)]
        rng.shuffle(keys)
        table.append([[k, _logp(rng, 0.0), _logb(rng) or -0.625] for k in keys])
    return table


def gen_hist(rng, table, V, sos, T, B, explicit_sos=False, p_top=0.6):
    """B histories of length T over the vocabulary, spliced from listed n-grams (so that
    high-order entries are hit) and random tokens (so that back-off happens)."""
    pools = [[e[0] for e in level] for level in table[1:] if level]
    ok = (lambda t: 0 <= t < V or (explicit_sos and t == sos))
    hist = []
    for _ in range(B):
        h = []
        if explicit_sos and rng.random() < 0.7:
            h += [sos] * rng.randint(1, 2)
        while len(h) < T:
            if pools and rng.random() < 0.7:
                # mostly the highest orders, so that long matches happen at all
                k = rng.choice(pools[-1] if rng.random() < p_top else rng.choice(pools))
                if rng.random() < 0.4 and len(k) > 1:
                    k = k[:-1]
                h += [t for t in k if ok(t)]
            elif explicit_sos and rng.random() < 0.2:
                h.append(sos)
            else:
                h.append(rng.randrange(V))
        hist.append(h[:T])
    return hist


def gen_idx(rng, T, B):
    out = [[rng.randint(0, T) for _ in range(B)] for _ in range(2)]
    out.append([rng.randint(-T - 1, -1) for _ in range(B)])
    out.append([rng.randint(-T - 1, T) for _ in range(B)])
    return out


def gen_case(rng, tier, i):
    cls = CLASSES[i % len(CLASSES)]
    kind = SOS_KINDS[(i // len(CLASSES)) % len(SOS_KINDS)]
    big = tier == "thorough"
    V = rng.randint(1, 6)
    N = rng.randint(2, 4)
    counts = None
    mode = cls
    if cls == "unigram_only":
        N, mode = 1, "dense"
    elif cls == "single_vocab":
        V, mode = 1, rng.choice(["dense", "missing_suffix"])
    elif cls == "empty_middle":
        N = rng.randint(3, 4)
        V = rng.randint(2, 5)
    elif cls == "fat_inner_node":
        N = rng.randint(3, 4)
        V = rng.randint(3, 6)
    elif cls == "order4_sparse":
        N, mode = 4, "missing_suffix"
        V = rng.randint(2, 6)
    elif cls in ("arpa", "explicit_sos_hist"):
        mode = rng.choice(["sparse_closed", "missing_suffix", "dense"])
        if cls == "arpa":
            N = rng.randint(1, 4)
    elif cls == "dense":
        V = rng.randint(1, 5)
        N = rng.randint(2, 3 if V > 3 else 4)
    sos = pick_sos(rng, V, kind)
    S = V + (0 if 0 <= sos < V else 1)
    if cls == "width255":
        # level sizes straddle 255 so the offset buffers are built / stored in another width
        V = rng.randint(17, 24)
        sos = pick_sos(rng, V, kind)
        S = V + (0 if 0 <= sos < V else 1)
        N = rng.choice([2, 2, 3])
        r = rng.random()
        if r < 0.4:
            # the *potential* offset (size of two adjacent levels - 1) straddles 255: build width
            top = rng.choice([254, 255, 256, 257, 258]) + 1
        elif r < 0.75:
            # the largest *actual* offset (level size + 1 at the dummy node) straddles 255: stored width
            top = None
        else:
            top = rng.randint(200, 520)
        if N == 2:
            counts = [S, max(1, top - S) if top else rng.choice([252, 253, 254, 254, 254, 255, 256, 257, 258])]
        else:
            c2 = rng.randint(20, 60)
            counts = [S, c2, max(1, top - c2) if top else rng.choice([252, 253, 254, 254, 254, 255, 256, 257, 258])]
        mode = rng.choice(["exact", "exact", "missing_suffix"])
        if rng.random() < 0.3:
            # the largest offset of the whole trie is exactly the maximum of the narrowest storage type
            counts[-1] = 254
            if N == 3:
                counts[1] = min(counts[1], 250)
            mode = "exact"
    elif cls == "deep_narrow":
        # order 4, every pair of adjacent levels fits 8-bit offsets, but absolute positions do not
        V = rng.randint(10, 60)
        sos = pick_sos(rng, V, kind)
        S = V + (0 if 0 <= sos < V else 1)
        N = 4
        c2 = rng.randint(95, 120)
        c3 = 256 - c2 - rng.randint(0, 5)
        c4 = rng.randint(40, 256 - c3)
        counts = [S, c2, c3, c4]
        mode = "exact"
    dead = None
    if cls == "dead_end_context":
        V, N = rng.randint(2, 6), rng.choice([4, 4, 4, 5, 3])
        sos = pick_sos(rng, V, kind)
        dead = rng.randrange(V)
        table = gen_dead_end(rng, list(range(V)) + ([] if 0 <= sos < V else [sos]), N, dead)
    else:
        table = gen_table(rng, V, sos, N, mode, counts)
    B = rng.randint(1, 4)
    T = rng.randint(0, 14 if big else 7)
    if i % 11 == 0:
        T = 0
    p_top = 0.6
    if cls == "deep_narrow":
        # the nodes at risk are the highest-order entries allocated last: query many of them
        B, T, p_top = 4, rng.randint(6, 14 if big else 7), 0.95
    hist = gen_hist(rng, table, V, sos, T, B, explicit_sos=(cls == "explicit_sos_hist"), p_top=p_top)
    if cls in ("width255", "deep_narrow") and rng.random() < 0.6:
        # sweep: every listed highest-order n-gram is looked up through its own context, all in one call (the nodes
        # whose bookkeeping sits next to a level boundary are few, random histories rarely land on them)
        ctx = sorted({tuple(e[0][:-1]) for e in table[-1] if all(0 <= t < V for t in e[0][:-1])})
        if ctx:
            rng.shuffle(ctx)
            ctx = ctx[:320]
            B, T = len(ctx), N - 1
            hist = [list(c) for c in ctx]
    if dead is not None:
        # every history of the call ends in a listed context that ends in the dead-end token
        B, T = rng.choice([1, 1, 2, 3]), rng.randint(N - 1, 7)
        ctx = [e[0] for level in table[1:-1] for e in level if e[0][-1] == dead and all(0 <= t < V for t in e[0])]
        hist = []
        for _ in range(B):
            c = max(ctx, key=len) if (ctx and rng.random() < 0.6) else (rng.choice(ctx) if ctx else [dead])
            h = [rng.randrange(V) for _ in range(T)] + list(c)
            hist.append(h[-T:])
    case = {
        "class": cls, "sos_kind": kind, "V": V, "sos": sos, "N": N, "table": table,
        "T": T, "B": B, "hist": hist, "idx": gen_idx(rng, T, B),
        "chunks": CHUNKS + [T + 2], "destructive": rng.random() < 0.25,
        "via_file": rng.random() < 0.4,
    }
    if cls == "arpa":
        for level in table:  # ARPA has no spelling for -inf: tools write -99
            for e in level:
                if e[1] == "-inf":
                    e[1] = -99.0
        names = {}
        style = rng.choice(["alpha", "numeric", "mixed"])
        for t in range(V):
            names[t] = {"alpha": "w%d" % t, "numeric": str(t + 3), "mixed": rng.choice(["tok%d", "%d", "T_%d'"]) % t}[style]
        if not (0 <= sos < V):
            names[sos] = "<s>"
        elif rng.random() < 0.5:
            names[sos] = "<s>"
        case["arpa"] = {
            "names": [[k, v] for k, v in sorted(names.items())],
            "seed": rng.randrange(1 << 30),
            "explicit_backoffs": rng.random() < 0.5,
            "hostile": rng.random() < 0.8,
        }
    return case


LARGE_KINDS = [
    # (name, V, order)
    ("big_bigram_fits_int16", 200, 2), ("big_bigram_potential_32768", 200, 2),
    ("big_bigram_actual_gt_32767", 200, 2), ("big_trigram_gt_32767", 36, 3),
    ("wide_vocab_int16_ids", 300, 2), ("big_bigram_potential_256", 200, 2),
    ("big_bigram_actual_gt_255", 120, 2), ("big_trigram_mid_32767", 40, 3),
    ("big_bigram_offset_exactly_32767", 200, 2),
]


def gen_large(rng, j):
    """Large-table cases of the thorough tier: level sizes cross 255 / 32767 entries so that
    the offset (and id) buffers are built with and shrunk to different integer widths."""
    kinds = LARGE_KINDS
    name, V, N = kinds[j % len(kinds)]
    kind = SOS_KINDS[(j // len(kinds)) % len(SOS_KINDS)]
    sos = pick_sos(rng, V, kind)
    S = V + (0 if 0 <= sos < V else 1)
    if name == "big_bigram_fits_int16":
        counts = [S, 32767 + 1 - S]  # max potential offset == 32767
    elif name == "big_bigram_offset_exactly_32767":
        counts = [S, 32766]  # the level's closing offset (#bigrams + 1) is the int16 maximum itself
    elif name == "big_bigram_potential_32768":
        counts = [S, 32768 + 1 - S]  # one more: built as int32, shrunk afterwards
    elif name == "big_bigram_actual_gt_32767":
        counts = [S, rng.randint(33000, 36000)]
    elif name == "big_trigram_gt_32767":
        counts = [S, rng.randint(1100, S * S), rng.randint(33000, 37000)]
    elif name == "wide_vocab_int16_ids":
        counts = [S, rng.randint(2000, 5000)]
    elif name == "big_bigram_potential_256":
        counts = [S, 256 + rng.choice([0, 1]) - S]
    elif name == "big_bigram_actual_gt_255":
        counts = [S, rng.randint(300, 2000)]
    else:
        counts = [S, rng.randint(1200, 1600), 32768 - rng.randint(0, 3)]
    mode = "missing_suffix" if (j // len(kinds)) % 2 == 1 else "exact"
    if name == "big_bigram_offset_exactly_32767":
        mode = "exact"
    table = gen_table(rng, V, sos, N, mode, counts)
    B, T = rng.randint(2, 3), rng.randint(4, 7)
    hist = gen_hist(rng, table, V, sos, T, B)
    if name == "big_bigram_offset_exactly_32767" or rng.random() < 0.3:
        # sweep: one look-up per in-vocabulary context of the highest order, all in one call
        ctx = sorted({tuple(e[0][:-1]) for e in table[-1] if all(0 <= t < V for t in e[0][:-1])})
        rng.shuffle(ctx)
        ctx = ctx[:320]
        B, T, hist = len(ctx), N - 1, [list(c) for c in ctx]
    return {
        "class": "large_" + name, "sos_kind": kind, "V": V, "sos": sos, "N": N, "table": table,
        "T": T, "B": B, "hist": hist, "idx": gen_idx(rng, T, B)[:2],
        "chunks": [2, T + 2], "destructive": False, "via_file": False,
    }
