"""C11 - transcript files read back exactly what was written.

Round-trip and twin-call monitors over the real ``pydrobert.torch.data`` entry points:

* trn   read(write(T)) == T (nested alternates, timed tokens lose their times), read_trn_iter == read_trn,
        read_trn(processes=k, chunk_size=c) == read_trn(processes=0) under per-line delays in the forked
        workers (worker log: completion orders, lost/duplicated items);
* ctm   equality up to the mandated ordering (multiset per utterance), any utt<->(wave, channel) bijection,
        the written file itself in the mandated order (wave, channel, numeric start);
* TextGrid   tokens and order identical, times within the print precision, gap filling equals a harness-side
        gap filler, including gaps before the first / after the last entry (tier bounds edited in the file);
* every writer/reader is called once with a path and once with an open file: identical bytes / results;
* token tensors   token_to_transcript(transcript_to_token(T)) gives the same tokens, times within one frame shift.
"""
import collections.abc
import io
import os
import shutil
import tempfile
import warnings

from . import _c11_gen as G
from . import _c11_mp as MP

ID = "C11"
LEVEL = "exploration"
RULE = (
    "class-directed random transcript collections, round-robin over 28 classes of 4 families (trn: plain / "
    "alternates / nested alternates depth<=3(4) / timed tokens / empty / multi-process read with (k,c) in "
    "{1,2,4}x{1,3,1000}; ctm: default / mapped / shared wave / channel string / times >=10s and >=100s mixed / "
    "equal starts / arbitrary floats; TextGrid: interval / point / precision 0 / big times / equal starts / gaps / "
    "edge gaps, precision 0-6, tier names, explicit bounds, fill tokens; token tensors: frame shifts "
    "{1,10,12.5,0.0625,None}, unk by token or id, skip_frame_times, point segments, id-less tokens); <=8(16) "
    "utterances x <=8 tokens from an alphabet avoiding only the format's delimiters; a case is distinct by the "
    "hash of its concrete inputs and non-trivial if it holds at least one token"
)
ASSUMPTIONS = [
    "oracles are the inputs themselves (round trip) or a second call of the real code (path vs file, 0 vs k workers)",
    "TextGrid times are compared to the written values within one unit of the last printed digit",
    "ctm times: exact on dyadic grids, 1e-9 otherwise (start + (end - start) is not always end in binary)",
    "tokens avoid the delimiters of their format (trn: (){}/ and white space; ctm: white space and ';;'; TextGrid: '\"' and newlines)",
    "TextGrid transcripts are non-overlapping (a tier); written in time order, or - with distinct printed starts - in any order (the reader returns time order); entries with identical printed times come back in written order",
    "fork pool observed through a wrapper of _parsing._trn_line_to_transcript installed in the parent before the fork; time.monotonic comparable across processes",
    "USE_JIT off (library runs as plain Python)",
]
BUDGET = {
    "quick": dict(cases=420, shards=4, timeout=600),
    "thorough": dict(cases=8400, shards=16, timeout=3000),
}
_EP = ["write_trn", "read_trn", "read_trn_iter", "write_ctm", "read_ctm", "write_textgrid", "read_textgrid",
       "transcript_to_token", "token_to_transcript"]
_HOSTILE = {  # derived classes (tagged from what a case actually contained), quick floors
    "tg_times_ge_10_mixed": 40, "tg_times_ge_100_mixed": 8, "tg_equal_printed_start": 40,
    "tg_precision_0": 30, "tg_precision_1": 10, "tg_precision_2": 10, "tg_precision_3": 10, "tg_precision_4": 10,
    "tg_precision_5": 10, "tg_precision_6": 10,
    "tg_fill_begin_gap": 15, "tg_fill_middle_gap": 40, "tg_fill_end_gap": 15,
    "tg_point_tier": 30, "tg_interval_tier": 100, "tg_nondefault_precision": 100,
    "tg_forced_tier_type_differs": 8, "trn_alt_depth_1": 40, "trn_alt_depth_2": 15, "trn_alt_depth_3": 15,
    "ctm_several_utts_one_wave": 40, "ctm_numeric_vs_string_order": 40,
    "tok_shift_1": 20, "tok_shift_10": 20, "tok_shift_12.5": 20, "tok_shift_0.0625": 20, "tok_shift_none": 40,
    "tok_unk_mapped": 15,
}
FLOORS = {
    "quick": {
        "events": dict({e: 200 for e in _EP}, **{
            "read_trn:workers": 60, "hook:worker_items": 300, "hook:_trn_line_to_transcript:serial": 1000,
            "assert:roundtrip:trn": 250, "assert:roundtrip:ctm": 500, "assert:roundtrip:tg-tokens-order": 500,
            "assert:path-vs-file:write_textgrid": 200, "assert:path-vs-file:write_trn": 400,
            "assert:path-vs-file:write_ctm": 400, "assert:path-vs-file:read_textgrid": 200,
            "assert:path-vs-file:read_trn": 200, "assert:path-vs-file:read_ctm": 200,
            "assert:workers:equal-serial": 60, "assert:tg-fill": 80, "assert:roundtrip:tok-tokens": 500,
            "assert:tok-time": 500, "assert:ctm-file-order": 200,
        }),
        "classes": dict({c: 30 for c in set(G.CLASSES)}, **_HOSTILE),
        "stats": {"mp_completed": 60, "mp_log_complete": 60, "mp_out_of_order": 5},
        "sets": {"completion_orders": 10, "mp_configs": 9},
        "distinct": 800,
    },
    "thorough": {
        "events": dict({e: 10000 for e in _EP}, **{"read_trn:workers": 2500, "hook:worker_items": 12000,
                                                   "assert:workers:equal-serial": 2500}),
        "classes": dict({c: 1200 for c in set(G.CLASSES)}, **{k: 16 * v for k, v in _HOSTILE.items()}),
        "stats": {"mp_completed": 2500, "mp_log_complete": 2500, "mp_out_of_order": 200},
        "sets": {"completion_orders": 200, "mp_configs": 9},
        "distinct": 30000,
    },
}
CLASSES = G.CLASSES


def generate(rng, tier, i):
    if i % 211 == 210:
        # an empty TextGrid transcript is documented to be refused: observation class only
        return {"family": "tg", "class": "tg_empty_refused", "transcript": [], "precision": 3, "point_tier": None,
                "tier_name": None, "by_name": False, "start_time": None, "end_time": None, "fill": None,
                "edge_gaps": False, "default_precision": True}
    return G.generate(rng, tier, i)


def setup(mon):
    MP.install()
    mon.notes.append("worker wrapper bound: %s" % MP.is_bound())


def teardown(mon):
    mon.ev("hook:_trn_line_to_transcript:serial", MP.STATE["serial_calls"])
    MP.uninstall()


def post(agg, tier):
    if agg["stats"].get("mp_hang", 0):
        agg["notes"].append("%d multi-process read(s) hit the hang guard: run is inconclusive" % agg["stats"]["mp_hang"])
        agg["stats"]["mp_completed"] = 0


def classify(entry_id, vrec):
    """D7 (open): the path entry point of write_textgrid re-calls itself on the opened file WITHOUT point_tier and
    precision.  Recognised only by that mechanism: the path's bytes differ from the open-file bytes and are
    exactly what the open-file call writes when these two options (and nothing else) are left out, and at least
    one of them was actually passed.  Any other path/file difference stays a VIOLATION."""
    if entry_id != "D7":
        return False
    d = vrec.get("details", {})
    return (vrec.get("monitor") == "path-vs-file:write_textgrid"
            and d.get("path_equals_call_without_point_tier_and_precision") is True
            and len(d.get("dropped_candidates") or []) > 0
            and d.get("path_bytes") != d.get("file_bytes"))


def execute(case, mon):
    tmp = tempfile.mkdtemp(prefix="vmon-c11-")
    try:
        with warnings.catch_warnings():
            warnings.simplefilter("ignore")
            {"trn": _exec_trn, "ctm": _exec_ctm, "tg": _exec_tg, "tok": _exec_tok}[case["family"]](case, mon, tmp)
    finally:
        shutil.rmtree(tmp, ignore_errors=True)


def _bytes(path):
    with open(path, "rb") as f:
        return f.read()


def _write_both(mon, name, fn, obj, tmp, ext, *a, **k):
    """Call a writer with a path and with an open file; bytes must be identical."""
    pa, pb = os.path.join(tmp, "a." + ext), os.path.join(tmp, "b." + ext)
    mon.lib(name, fn, obj, pa, *a, **k)
    with open(pb, "w") as f:
        mon.lib(name, fn, obj, f, *a, **k)
    ba, bb = _bytes(pa), _bytes(pb)
    mon.check(ba == bb, "path-vs-file:" + name, path_bytes=ba.decode("utf-8", "replace"),
              file_bytes=bb.decode("utf-8", "replace"), options={kk: repr(v) for kk, v in k.items()})
    # a text buffer is an "already open file" as well
    sio = io.StringIO()
    mon.lib(name, fn, obj, sio, *a, **k)
    mon.check(sio.getvalue().encode("utf-8") == ba, "path-vs-file:" + name, path_bytes=ba.decode("utf-8", "replace"),
              file_bytes=sio.getvalue(), options={kk: repr(v) for kk, v in k.items()}, buffer="StringIO")
    return pa, ba


def _read_both(mon, name, fn, path, *a, **k):
    r1 = mon.lib(name, fn, path, *a, **k)
    with open(path) as f:
        r2 = mon.lib(name, fn, f, *a, **k)
    mon.check(r1 == r2, "path-vs-file:" + name, from_path=r1, from_file=r2)
    return r1


# ----------------------------------------------------------------------------- trn


def _exec_trn(case, mon, tmp):
    import pydrobert.torch.data as D

    Tw = [(u, G.decode_trn(tr, True)) for u, tr in case["utts"]]
    Tr = [(u, G.decode_trn(tr, False)) for u, tr in case["utts"]]
    for d in set(G._max_depth(e) for _, tr in case["utts"] for e in tr):
        if d:  # nesting depth of every top-level alternate in the collection
            mon.cls("trn_alt_depth_%d" % min(d, 4))
    if not any(len(tr) for _, tr in case["utts"]):
        mon.trivial()
    pa, ba = _write_both(mon, "write_trn", D.write_trn, Tw, tmp, "trn")
    # an iterable that can be consumed once only is a legal argument as well
    pg = os.path.join(tmp, "g.trn")
    mon.lib("write_trn", D.write_trn, iter(Tw), pg)
    mon.check(_bytes(pg) == ba, "path-vs-file:write_trn", note="one-shot iterable", file_bytes=_bytes(pg).decode())
    got = _read_both(mon, "read_trn", D.read_trn, pa, case["warn"])
    mon.check(got == Tr, "roundtrip:trn", observed=got, expected=Tr, file=ba.decode("utf-8", "replace"))
    it = mon.lib("read_trn_iter", lambda: list(D.read_trn_iter(pa, False)))
    mon.check(it == Tr, "roundtrip:trn-iter", observed=it, expected=Tr)
    with open(pa) as f:
        it2 = mon.lib("read_trn_iter", lambda: list(D.read_trn_iter(f, False)))
    mon.check(it2 == it, "path-vs-file:read_trn_iter", from_path=it, from_file=it2)
    mp = case.get("mp")
    if not mp:
        return
    # ---- many workers == one worker, under delays that shuffle the completion order
    src = pa
    if case.get("blank_lines"):
        # blank lines are skipped by the serial reader; the pool has to agree
        src = os.path.join(tmp, "blank.trn")
        with open(pa) as f, open(src, "w") as g:
            for j, ln in enumerate(f):
                g.write(ln)
                if j % 3 == 1:
                    g.write("   \n" if j % 2 else "\n")
    with open(src) as f:
        lines = list(f)
    delays = list(mp["delays_ms"]) + [0] * len(lines)
    if src != pa:
        # keep the delay of a transcript line attached to that line
        content = [j for j, ln in enumerate(lines) if ln.strip()]
        d2 = [0] * len(lines)
        for n, j in enumerate(content):
            d2[j] = mp["delays_ms"][n] if n < len(mp["delays_ms"]) else 0
        delays = d2
    serial = mon.lib("read_trn", D.read_trn, src, False, 0)
    mon.check(serial == Tr, "roundtrip:trn", observed=serial, expected=Tr, note="blank lines inserted")
    k, c = mp["processes"], mp["chunk_size"]
    def call():
        # not through mon.lib: what comes out of an interrupted pool is judged below
        if mp["via"] == "file":
            with open(src) as fh:
                return D.read_trn(fh, False, k, c)
        return D.read_trn(src, False, k, c)

    par = log = None
    for attempt in (0, 1):
        mon.ev("read_trn:workers")
        try:
            par, log = MP.observed_call(call, lines, delays, os.path.join(tmp, "workers.log"))
            break
        except MP.PoolHang as e:
            # liveness is not part of C11; a pool never ends when the OS kills one of its workers.
            # One retry with a fresh pool; a second stall makes the run inconclusive (see post()).
            mon.notes.append("C11: %s (k=%d c=%d attempt=%d, workers killed by signal: %s)" % (e, k, c, attempt, e.deaths))
            mon.stat("mp_stall")
            if e.deaths:
                mon.stat("mp_stall_with_killed_worker")
            if attempt == 1:
                mon.stat("mp_hang")
                mon.trivial()
                return
        except Exception as e:
            import traceback

            mon.fail("raised:read_trn:workers", exception=type(e).__name__, message=str(e)[:500],
                     traceback=traceback.format_exc(limit=-6), processes=k, chunk_size=c)
    if attempt:
        mon.stat("mp_completed_on_retry")
    mon.stat("mp_completed")
    mon.observe("mp_configs", "k=%d,c=%d" % (k, c))
    mon.check(par == serial, "workers:equal-serial", observed=par, expected=serial, processes=k, chunk_size=c,
              delays_ms=delays)
    # offline reading of the worker log
    mon.ev("hook:worker_items", len(log))
    idxs = sorted(x[1] for x in log)
    first = {}
    for j, ln in enumerate(lines):
        first.setdefault(ln, j)  # identical (blank) lines share the index of their first occurrence
    if idxs == sorted(first[ln] for ln in lines):
        mon.stat("mp_log_complete")
    else:
        mon.stat("mp_log_incomplete")
        mon.notes.append("C11: worker log lists items %s for %d lines" % (idxs[:40], len(lines)))
    pids = sorted(set(x[0] for x in log))
    mon.check(os.getpid() not in pids, "workers:ran-in-children", pids=pids)
    order = [x[1] for x in sorted(log, key=lambda x: x[3])]
    mon.observe("completion_orders", "%d:%s" % (len(lines), ",".join(map(str, order))))
    mon.observe("workers_used", "k=%d used=%d" % (k, len(pids)))
    if order != sorted(order):
        mon.stat("mp_out_of_order")
    rank = {p: r for r, p in enumerate(pids)}
    mon.observe("worker_assignments", "%d:%s" % (k, "".join(str(rank[p]) for p, _, _, _ in sorted(log, key=lambda x: x[1]))))


# ----------------------------------------------------------------------------- ctm


class _ReadOnlyMapping(collections.abc.Mapping):
    """a Mapping that is not a dict"""

    def __init__(self, d):
        self._d = dict(d)

    def __getitem__(self, k):
        return self._d[k]

    def __iter__(self):
        return iter(self._d)

    def __len__(self):
        return len(self._d)


def _exec_ctm(case, mon, tmp):
    import pydrobert.torch.data as D

    T = [(u, [tuple(x) for x in tr]) for u, tr in case["utts"]]
    if not any(len(tr) for _, tr in T):
        mon.trivial()
    kw = {}
    wc_of = {}
    if case["utt2wc"] is not None:
        kw["utt2wc"] = {u: tuple(p) for u, p in case["utt2wc"].items()}
        wc_of = dict(kw["utt2wc"])
        # the mapping as a caller may hold it: the argument is documented as a Mapping, not as a dict
        form = (len(T) + sum(len(tr) for _, tr in T)) % 3
        if form == 1:
            import types

            kw["utt2wc"] = types.MappingProxyType(dict(wc_of))
        elif form == 2:
            kw["utt2wc"] = _ReadOnlyMapping(wc_of)
        mon.cls("ctm_utt2wc_as_" + ("dict", "mappingproxy", "custom_mapping")[form])
        wc2utt = {p: u for u, p in kw["utt2wc"].items()}
        waves = [p[0] for u, p in kw["utt2wc"].items() if any(uu == u and tr for uu, tr in T)]
        if len(set(waves)) < len(waves):
            mon.cls("ctm_several_utts_one_wave")
    elif case["chan"] is not None:
        kw["utt2wc"] = case["chan"]
        wc_of = {u: (u, case["chan"]) for u, _ in T}
        wc2utt = {(u, case["chan"]): u for u, _ in T} if case["read_map"] else None
    else:
        import pydrobert.torch.config as config

        wc_of = {u: (u, config.DEFT_CTM_CHANNEL) for u, _ in T}
        wc2utt = {p: u for u, p in wc_of.items()} if case["read_map"] and case["class"] != "ctm_default" else None
    pa, ba = _write_both(mon, "write_ctm", D.write_ctm, T, tmp, "ctm", **kw)
    text = ba.decode("utf-8")
    # the file itself must be in the mandated order: wave, channel, numeric start
    rows = [ln.split() for ln in text.splitlines()]
    mon.check(all(len(r) == 5 for r in rows), "ctm-file-fields", file=text)
    mon.check(len(rows) == sum(len(tr) for _, tr in T), "ctm-file-lines", file=text)
    keys = [(r[0], r[1], float(r[2])) for r in rows]
    mon.check(keys == sorted(keys), "ctm-file-order", file=text)
    if any(k1[:2] == k2[:2] and k1[2] < k2[2] and str(k1[2]) > str(k2[2]) for k1, k2 in zip(keys, keys[1:])):
        mon.cls("ctm_numeric_vs_string_order")
    got = _read_both(mon, "read_ctm", D.read_ctm, pa, wc2utt) if wc2utt is not None else \
        _read_both(mon, "read_ctm", D.read_ctm, pa)
    exp = {u: list(tr) for u, tr in T if tr}
    ids = [u for u, _ in got]
    mon.check(len(set(ids)) == len(ids) and set(ids) == set(exp), "roundtrip:ctm-utterances", observed=ids,
              expected=sorted(exp), file=text)
    tol = 0.0 if case["kind"] == "dyadic" else 1e-9
    for u, tr in got:
        key = lambda x: (x[1], x[0], x[2])
        a, b = sorted(tr, key=key), sorted(exp[u], key=key)
        mon.check(len(a) == len(b) and [x[0] for x in a] == [x[0] for x in b], "roundtrip:ctm", utt=u,
                  observed=tr, expected=exp[u], file=text)
        for x, y in zip(a, b):
            mon.close(x[1], y[1], tol, "ctm-start", utt=u, token=x[0], file=text)
            mon.close(x[2], y[2], tol, "ctm-end", rel=0 if tol == 0 else 1e-12, utt=u, token=x[0], file=text)
        if [x[1] for x in tr] == sorted(x[1] for x in tr):
            mon.stat("ctm_read_sorted_by_start")
        else:
            mon.stat("ctm_read_not_sorted_by_start")
    order = [wc_of[u] for u in ids]
    mon.stat("ctm_read_utts_in_wave_channel_order" if order == sorted(order) else "ctm_read_utts_other_order")


# ----------------------------------------------------------------------------- TextGrid


def _gapfill(entries, lo, hi, fill):
    out, cur = [], lo
    for tok, s, e in entries:
        if cur < s:
            out.append((fill, cur, s))
        out.append((tok, s, e))
        cur = e
    if hi is not None and cur < hi:
        out.append((fill, cur, hi))
    return out


def _exec_tg(case, mon, tmp):
    holder = {}
    _tg_body(case, mon, tmp, holder)
    d = holder.get("deferred")
    mon.check(d is None, "path-vs-file:write_textgrid", **(d or {}))


def _tg_body(case, mon, tmp, holder):
    import pydrobert.torch.config as config
    import pydrobert.torch.data as D

    tr = [tuple(x) for x in case["transcript"]]
    if case["class"] == "tg_empty_refused":
        mon.trivial()
        mon.lib("write_textgrid", D.write_textgrid, tr, os.path.join(tmp, "e.TextGrid"), documented=(ValueError,))
        mon.fail("empty-transcript-accepted", note="documented: transcript must be non-empty")
    kw = {}
    p = config.DEFT_FLOAT_PRINT_PRECISION
    if not case["default_precision"]:
        kw["precision"] = p = case["precision"]
    for name in ("start_time", "end_time", "tier_name", "point_tier"):
        if case[name] is not None:
            kw[name] = case[name]
    name = case["tier_name"] if case["tier_name"] is not None else config.DEFT_TEXTGRID_TIER_NAME
    P = lambda x: "%.*f" % (p, x)
    pr = [(float(P(s)), float(P(e))) for _, s, e in tr]
    out_of_order = False
    if case.get("write_shuffled") and len(tr) >= 2 and len(set(a for a, _ in pr)) == len(pr) \
            and not (any(a[1] > b[0] or a > b for a, b in zip(pr, pr[1:])) or any(s > e for s, e in pr)):
        # a proper tier (distinct printed starts, no overlap) handed to the writer in another order than time order:
        # the writer keeps the caller's order, the reader returns the tier in time order
        import random as _random

        order = list(range(len(tr)))
        _random.Random(len(tr) * 7919 + int(pr[0][0] * 1000)).shuffle(order)
        if order != sorted(order):
            tr_sorted, tr = list(tr), [tr[j] for j in order]
            out_of_order = True
            mon.cls("tg_written_out_of_time_order")
    if not out_of_order and (any(a[1] > b[0] or a > b for a, b in zip(pr, pr[1:])) or any(s > e for s, e in pr)):
        # not a tier as written (printed entries overlap or are out of time order): the reader's order is
        # unspecified then.  Judged on the printed values, which is all a reader can see.
        mon.ood("tg_not_a_tier")
        return
    printed_point = all(P(s) == P(e) for _, s, e in tr)
    is_point = case["point_tier"] if case["point_tier"] is not None else printed_point
    mon.cls("tg_precision_%d" % p, "tg_point_tier" if is_point else "tg_interval_tier")
    if p != config.DEFT_FLOAT_PRINT_PRECISION:
        mon.cls("tg_nondefault_precision")
    if case["point_tier"] is not None and case["point_tier"] != printed_point:
        mon.cls("tg_forced_tier_type_differs")
    starts = [s for _, s, _ in tr]
    if min(starts) < 10 and max(max(starts), max(e for _, _, e in tr)) >= 10:
        mon.cls("tg_times_ge_10_mixed")
    if min(starts) < 100 and max(max(starts), max(e for _, _, e in tr)) >= 100:
        mon.cls("tg_times_ge_100_mixed")
    if len(set(P(s) for s in starts)) < len(starts):
        mon.cls("tg_equal_printed_start")
    # path == open file, byte for byte.  A difference is reported at the END of the case (so that a case
    # hitting the known path-entry finding D7 still gets its whole round trip judged, on the file written
    # through the open-file entry point, which honours every option).
    pa, pb = os.path.join(tmp, "a.TextGrid"), os.path.join(tmp, "b.TextGrid")
    mon.lib("write_textgrid", D.write_textgrid, tr, pa, **kw)
    with open(pb, "w") as f:
        mon.lib("write_textgrid", D.write_textgrid, tr, f, **kw)
    sio = io.StringIO()
    mon.lib("write_textgrid", D.write_textgrid, tr, sio, **kw)
    ba, bb = _bytes(pa), _bytes(pb)
    mon.check(sio.getvalue().encode("utf-8") == bb, "file-vs-buffer:write_textgrid", file_bytes=bb.decode("utf-8", "replace"),
              buffer=sio.getvalue())
    if ba != bb:
        # which options did the path entry point lose?  Re-do the open-file call without point_tier and
        # precision: if that reproduces the path's bytes, exactly those two were dropped (mechanism of D7)
        kw2 = {k: v for k, v in kw.items() if k not in ("point_tier", "precision")}
        s2 = io.StringIO()
        mon.lib("write_textgrid", D.write_textgrid, tr, s2, **kw2)
        deferred = dict(
            path_bytes=ba.decode("utf-8", "replace"), file_bytes=bb.decode("utf-8", "replace"),
            options={k: repr(v) for k, v in kw.items()},
            path_equals_call_without_point_tier_and_precision=(s2.getvalue().encode("utf-8") == ba),
            dropped_candidates=sorted(k for k in ("point_tier", "precision") if k in kw))
        holder["deferred"] = deferred
        mon.stat("tg_path_bytes_differ")
    else:
        mon.stat("tg_path_bytes_equal")
    if out_of_order:
        tr = tr_sorted  # what a reader is to return
    pa, ba = pb, bb  # judge the round trip on the file written with all options honoured
    text = ba.decode("utf-8")
    lo_exp, hi_exp = min(starts), max(e for _, _, e in tr)
    src = pa
    if case["edge_gaps"]:
        # widen the tier's own bounds in the file (lines 9 and 10 of the short format) to the
        # recording bounds: the gaps before the first and after the last entry become visible
        lines = text.split("\n")
        if len(lines) > 10 and lines[8] == P(lo_exp) and lines[9] == P(hi_exp):
            lines[8], lines[9] = P(case["start_time"]), P(case["end_time"])
            src = os.path.join(tmp, "edge.TextGrid")
            with open(src, "w") as f:
                f.write("\n".join(lines))
            lo_exp, hi_exp = case["start_time"], case["end_time"]
            mon.stat("tg_edge_bounds_patched")
        else:  # another layout of the file: nothing to patch, plain round trip only
            mon.stat("tg_edge_patch_unavailable")
    ra = []
    if case["by_name"]:
        ra = [name]
    elif case["tier_name"] is not None or case["fill"] is not None:
        ra = [0]
    if case["fill"] is not None:
        ra = ra + [case["fill"]]
    res = _read_both(mon, "read_textgrid", D.read_textgrid, src, *ra)
    mon.check(isinstance(res, tuple) and len(res) == 3, "tg-result-shape", observed=res)
    full, lo, hi = res
    full = [tuple(x) for x in full]
    fill = case["fill"]
    entries = [x for x in full if fill is None or x[0] != fill]
    tol = 10.0 ** (-p)
    slack = lambda x: tol + 1e-9 * max(1.0, abs(x))
    mon.check(len(entries) == len(tr), "roundtrip:tg-count", observed=full, expected=tr, file=text)
    # tokens in the same order; entries whose printed times coincide may be permuted
    j = 0
    while j < len(entries):
        k = j
        while k + 1 < len(entries) and entries[k + 1][1:] == entries[j][1:]:
            k += 1
        mon.check(sorted(x[0] for x in entries[j:k + 1]) == sorted(x[0] for x in tr[j:k + 1]),
                  "roundtrip:tg-tokens-order", observed=[x[0] for x in entries], expected=[x[0] for x in tr],
                  observed_full=full, file=text)
        if k > j:
            mon.stat("tg_tied_group")
            # ... and simultaneous entries come back in the order they were written (what was written is a
            # sequence; a reader that re-orders entries with identical times, say by label, returns another one)
            mon.check([x[0] for x in entries[j:k + 1]] == [x[0] for x in tr[j:k + 1]], "roundtrip:tg-tie-order",
                      observed=[x[0] for x in entries[j:k + 1]], expected=[x[0] for x in tr[j:k + 1]], file=text)
        j = k + 1
    for (tok, s, e), (_, s0, e0) in zip(entries, tr):
        mon.close(s, s0, slack(s0), "tg-start", precision=p, token=tok, file=text)
        if is_point:
            mon.check(e == s, "tg-point-end", observed=[s, e], token=tok, file=text)
        else:
            mon.close(e, e0, slack(e0), "tg-end", precision=p, token=tok, file=text)
        mon.dev("tg-time-vs-printed", max(abs(s - float(P(s0))), 0.0 if is_point else abs(e - float(P(e0)))), 0.0)
    mon.close(lo, lo_exp, slack(lo_exp), "tg-tier-start", precision=p, file=text)
    mon.close(hi, hi_exp, slack(hi_exp), "tg-tier-end", precision=p, file=text)
    if fill is None:
        return
    fillers = [x for x in full if x[0] == fill]
    mon.check(all(s < e for _, s, e in fillers), "tg-fill-positive-length", observed=full)
    if is_point:
        mon.stat("tg_fill_on_point_tier")
        return
    want = _gapfill(entries, lo, hi, fill)
    mon.check(full == want, "tg-fill", observed=full, expected=want, file=text)
    # the filled tier is gap-free between its bounds
    if full:
        cover = full[0][1] <= lo + 0 and all(a[2] >= b[1] for a, b in zip(full, full[1:])) and full[-1][2] >= hi
        mon.check(cover, "tg-fill-covers", observed=full, bounds=[lo, hi])
    if fillers:
        if full[0][0] == fill:
            mon.cls("tg_fill_begin_gap")
        if full[-1][0] == fill:
            mon.cls("tg_fill_end_gap")
        if any(x[0] == fill for x in full[1:-1]):
            mon.cls("tg_fill_middle_gap")
    else:
        mon.stat("tg_fill_requested_no_gap")


# ----------------------------------------------------------------------------- token tensors


def _exec_tok(case, mon, tmp):
    import torch

    import pydrobert.torch.data as D

    T = G.decode_timed(case["transcript"])
    if not T:
        mon.trivial()
    token2id, unk, shift, skip = case["token2id"], case["unk"], case["frame_shift_ms"], case["skip"]
    id2token = None if token2id is None else {v: k for k, v in token2id.items()}
    tok = mon.lib("transcript_to_token", D.transcript_to_token, T, token2id, shift, unk, skip)
    R = len(T)
    mon.check(isinstance(tok, torch.Tensor) and tok.dtype == torch.long and tuple(tok.shape) == ((R,) if skip else (R, 3)),
              "tok-shape", observed=[str(getattr(tok, "dtype", None)), list(getattr(tok, "shape", []))], skip=skip, R=R)
    back = mon.lib("token_to_transcript", D.token_to_transcript, tok, id2token, shift)
    mon.check(isinstance(back, list) and len(back) == R, "roundtrip:tok-length", observed=back, expected=T)
    mon.cls("tok_shift_%s" % ("none" if shift is None else ("%g" % shift)))
    for j, (x, y) in enumerate(zip(T, back)):
        timed = isinstance(x, tuple)
        t0 = x[0] if timed else x
        if token2id is None or t0 in token2id:
            want = t0
        elif unk is None:
            want = t0
        else:
            want = unk
            mon.cls("tok_unk_mapped")
        has_times = isinstance(y, tuple)
        t1 = y[0] if has_times else y
        mon.check(t1 == want and type(t1) == type(want), "roundtrip:tok-tokens", index=j, observed=back,
                  expected_token=want, tensor=tok)
        if skip or not timed:
            mon.check(not has_times, "tok-untimed-stays-untimed", index=j, observed=back, tensor=tok)
            continue
        mon.check(has_times and len(y) == 3, "tok-timed-stays-timed", index=j, observed=back, tensor=tok)
        _, s0, e0 = x
        _, s1, e1 = y
        if shift is None:
            mon.check(s1 == s0 and e1 == e0, "tok-frames-exact", index=j, observed=[s1, e1], expected=[s0, e0])
        else:
            tol = shift / 1000 + 1e-9
            mon.close(s1, s0, tol, "tok-time", what="start", frame_shift_ms=shift, index=j, tensor=tok)
            mon.close(e1, e0, tol, "tok-time", what="end", frame_shift_ms=shift, index=j, tensor=tok)
            if s0 == e0:
                mon.stat("tok_point_segment")
