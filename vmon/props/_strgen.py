"""Class-directed generator of ragged, eos-hostile string batches (C01-C03)."""
from fractions import Fraction

DYADIC = [0.25, 0.5, 1.0, 1.5, 2.0, 3.0]
NONDYADIC = [0.1, 0.3, 0.7, 1.1, 3.3]

CLASSES = [
    "ragged", "eos_at_0", "eos_missing_include", "garbage_after_eos",
    "alphabet1", "equal_costs", "unequal_costs", "nondyadic", "no_eos",
    "big_ids", "tie_costs", "empty_ref", "hyp_longer", "repeats",
]


def gen_col(rng, maxlen, alphabet, eos, mode):
    """A padded column of width maxlen: own tokens, then (maybe) eos, then filler."""
    if maxlen == 0:
        return []
    if eos is None:
        return [rng.choice(alphabet) for _ in range(maxlen)]
    if mode == "eos0":
        L = 0
    elif mode == "noeos":
        L = maxlen
    else:
        L = rng.randint(0, maxlen)
    col = [rng.choice(alphabet) for _ in range(L)]
    if L < maxlen:
        col.append(eos)
        # hostile filler: more eos tokens, real tokens, junk
        fill = alphabet + [eos, eos, 97, -5]
        col += [rng.choice(fill) for _ in range(maxlen - L - 1)]
    return col


def gen_string_case(rng, tier, i, classes=CLASSES, max_len=None, want_prefix_flags=True, dims=None):
    cls = classes[i % len(classes)]
    big = tier == "thorough"
    M = max_len or (12 if big else 6)
    N = rng.randint(1, 6)
    R = rng.randint(0 if cls in ("no_eos", "empty_ref") else 1, M)
    H = rng.randint(0 if cls == "no_eos" else 1, M)
    if dims is not None:
        N, R, H = dims
    if cls == "hyp_longer":
        R = rng.randint(1, max(1, M // 2))
        H = rng.randint(R, M)
    asz = 1 if cls == "alphabet1" else rng.randint(1, 4)
    if cls == "big_ids":
        # (among them neighbours that single precision cannot tell apart)
        alphabet = rng.sample([-(2 ** 40), -7, 4, 3, 2 ** 31 + 5, 2 ** 50, 2 ** 24, 2 ** 24 + 1, 10 ** 8 + 1,
                               10 ** 8 + 2, 2 ** 50 + 1], asz)
    else:
        alphabet = list(range(1, asz + 1))
    eos = None if cls == "no_eos" else rng.choice([0, 9, -1])
    if cls != "no_eos" and rng.random() < 0.1:
        eos = None
    if cls == "empty_ref" and eos is None:
        R = 0
    if eos is not None:
        R, H = max(R, 1), max(H, 1)
    include_eos = rng.random() < 0.5
    if cls == "eos_missing_include":
        include_eos = True
    refs, hyps = [], []
    for n in range(N):
        rmode = hmode = "any"
        if cls == "eos_at_0" and rng.random() < 0.6:
            rmode = rng.choice(["eos0", "any"])
            hmode = "eos0" if rmode == "any" else rng.choice(["eos0", "any"])
        if cls == "eos_missing_include":
            rmode, hmode = rng.choice([("noeos", "any"), ("any", "noeos"), ("noeos", "noeos")])
        if cls == "empty_ref" and rng.random() < 0.6:
            rmode = "eos0"
        if cls == "hyp_longer":
            hmode = rng.choice(["noeos", "any"])
        ref = gen_col(rng, R, alphabet, eos, rmode)
        if cls == "repeats" and len(alphabet) >= 1:
            pat = rng.choice([[0, 0, 1], [0, 1, 0, 1], [0, 0, 0, 0], [0, 1, 1, 0]])
            toks = [alphabet[p % len(alphabet)] for p in pat][:R]
            ref = toks + ([eos] if eos is not None and len(toks) < R else [])
            ref += [rng.choice(alphabet) if eos is None else rng.choice(alphabet + [eos]) for _ in range(R - len(ref))]
        refs.append(ref)
        hyps.append(gen_col(rng, H, alphabet, eos, hmode))
    if cls in ("equal_costs", "alphabet1") or (cls not in ("unequal_costs", "nondyadic", "tie_costs") and rng.random() < 0.4):
        c = rng.choice(DYADIC)
        costs = [c, c, c]
    elif cls == "nondyadic":
        costs = [rng.choice(NONDYADIC) for _ in range(3)]
    elif cls == "tie_costs":
        a, b = rng.choice([0.25, 0.5, 1.0, 1.5]), rng.choice([0.25, 0.5, 1.0, 1.5])
        costs = [a, b, a + b] if rng.random() < 0.6 else [a, b, rng.choice([a + b + 0.5, 3.0])]
        if max(R, H) <= 12 and rng.random() < 0.35:
            # a hair off the tie (still exactly representable, and all sums of <= 24 of them too): the
            # cheaper alignment is strictly cheaper, by about one part in 10^5
            costs = [a, b, a + b + rng.choice([-1, 1]) * 2.0 ** -16]
    else:
        costs = [rng.choice(DYADIC) for _ in range(3)]
        if cls == "unequal_costs" and rng.random() < 0.25:
            # clearly different costs that are all tiny in absolute terms (exact powers of two times the above)
            costs = [c * 2.0 ** -18 for c in costs]
    case = {
        "class": cls, "ref": refs, "hyp": hyps, "eos": eos,
        "include_eos": include_eos, "norm": rng.random() < 0.5,
        "batch_first": rng.random() < 0.5, "exclude_last": rng.random() < 0.5,
        "costs": costs, "padding": rng.choice([-100, -1, 7]),
        "form": rng.choice(["functional", "module"]), "R": R, "H": H,
    }
    return case


def is_dyadic(costs):
    """costs whose sums over <= ~36 edits are exact in float32: a power-of-two denominator and a numerator of
    at most 18 bits (the generator's near-tie and tiny costs included)"""
    ok = True
    for c in costs:
        f = Fraction(c)
        d = f.denominator
        ok = ok and (d & (d - 1)) == 0 and f.numerator < 2 ** 18
    return ok


LAYOUTS = ["contiguous", "transposed_storage", "offset_view", "strided_view"]


def layout_of(case):
    """Memory layout in which the tensors of this case are handed over (same values, different strides /
    storage offset).  Derived from the case's own contents so that a replay reproduces it."""
    if case.get("layout"):
        return case["layout"]
    return LAYOUTS[(3 * case.get("R", 0) + 5 * case.get("H", 0) + len(case["ref"])) % len(LAYOUTS)]


def relayout(t, layout):
    import torch

    if layout == "transposed_storage" and t.dim() >= 2:
        return t.transpose(0, -1).contiguous().transpose(0, -1)
    if layout == "offset_view" and t.dim() >= 1 and t.size(0) > 0:
        big = torch.cat([torch.full_like(t[:1], 3), t, torch.full_like(t[:1], 5)], 0)
        return big[1:1 + t.size(0)]
    if layout == "strided_view" and t.dim() >= 1 and t.numel() > 0:
        big = torch.stack([t, torch.full_like(t, 7)], -1).flatten(-2)
        return big[..., ::2]
    return t


def to_tensors(case):
    import torch

    N = len(case["ref"])
    ref = torch.tensor(case["ref"], dtype=torch.long).reshape(N, case["R"])
    hyp = torch.tensor(case["hyp"], dtype=torch.long).reshape(N, case["H"])
    if not case["batch_first"]:
        ref, hyp = ref.t().contiguous(), hyp.t().contiguous()
    lay = layout_of(case)
    return relayout(ref, lay), relayout(hyp, lay)


def costs_as_given(case):
    """The three costs as the caller writes them: for a third of the cases every integral cost is a Python int
    (``ins_cost=2``) instead of a float - the same numbers, another spelling."""
    costs = list(case["costs"])
    salt = case.get("R", 0) + 2 * case.get("H", 0) + len(case.get("ref", ()))
    if salt % 3 == 1:
        costs = [int(c) if float(c).is_integer() else c for c in costs]
    return costs


def warn_flag(case):
    """`warn=` as given by the caller: on for a third of the cases (every call site sits inside catch_warnings; a
    warning is never a verdict, but the code that decides whether to warn runs)."""
    return (case.get("R", 0) + case.get("H", 0) + 2 * len(case.get("ref", ()))) % 3 == 0


class process_mode:
    """Process-wide switches a user may have flipped before calling the library: for one case in seven the call runs
    with torch.use_deterministic_algorithms(True) (results are the same numbers; the switch is restored)."""

    def __init__(self, case):
        self.on = (3 * case.get("R", 0) + case.get("H", 0) + len(case.get("ref", ()))) % 7 == 3

    def __enter__(self):
        import torch

        self.was = torch.are_deterministic_algorithms_enabled()
        if self.on:
            torch.use_deterministic_algorithms(True)
        return self

    def __exit__(self, *a):
        import torch

        torch.use_deterministic_algorithms(self.was)
        return False


def build_module(cls, kw, case):
    """The module as a user may have configured it: for one module case in five it is built with the default costs and
    its cost attributes are assigned afterwards (they are plain attributes the forward pass reads)."""
    if (case.get("R", 0) + 3 * case.get("H", 0) + len(case.get("ref", ()))) % 5 == 2 and "ins_cost" in kw:
        late = {k: kw[k] for k in ("ins_cost", "del_cost", "sub_cost")}
        m = cls(**{k: v for k, v in kw.items() if k not in late})
        for k, v in late.items():
            setattr(m, k, float(v))
        return m
    return cls(**kw)
