"""C17 workload: class-directed generators of small corpora and flag combinations.

Everything returned is JSON-able and *concrete* (file texts, tensors as nested lists, flags), so a
replay re-creates exactly the same directories.  Nothing here imports the library under test.
"""

TOKENS = ["a", "b", "c", "d", "e", "sil", "ah", "Z", "x-y", "it's", "w0", "123"]
OOV = ["zz", "oov", "Q"]
UTTS = ["u1", "u2", "u10", "u1a", "utt_b", "A03", "x.y", "spk-1_0007", "m", "zz9", "B", "u.pt.x"]
# (prefix, suffix); the first entries are the defaults, the rest are the starred non-default ones
# suffixes starting with '_' / '~' sort ABOVE digits and letters: the order of the file names then differs
# from the order of the utterance ids when one id is a proper prefix of another (u1 / u10, u1 / u1a)
AFFIXES = [["", ".pt"], ["p_", ".pt"], ["", ".pth"], ["pre-", ".tok.pt"], ["x", ".t"], ["ab", ".ab"], ["q", ""],
           ["", "_fbank.pt"], ["x", "~.pt"]]


def pick_affix(rng, kind):
    """kind: 'default' | 'prefix' | 'suffix' | 'both' | 'any'"""
    if kind == "default":
        return list(AFFIXES[0])
    if kind == "prefix":
        return [rng.choice(["p_", "pre-", "x", "ab"]), ".pt"]
    if kind == "suffix":
        return ["", rng.choice([".pth", ".tok.pt", ".t", "_fbank.pt", "~.pt"])]
    if kind == "both":
        return list(rng.choice(AFFIXES[3:6] + AFFIXES[8:9]))
    return list(rng.choice(AFFIXES))


def affix_kind(rng, i):
    # deterministic rotation so that every run has non-default prefixes for every family
    return ["prefix", "default", "suffix", "both", "any"][(i + i // 10) % 5] if rng.random() < 0.85 else "any"


def vocab(rng, n=None):
    n = n or rng.randint(2, 7)
    toks = rng.sample(TOKENS, n)
    ids = rng.sample(range(0, 24), n)
    return {t: i for t, i in zip(toks, ids)}


def utt_ids(rng, n, hostile=False):
    if hostile and n >= 2:
        base = ["u1", "u10"] + rng.sample([u for u in UTTS if u not in ("u1", "u10")], n - 2)
        rng.shuffle(base)
        return base
    return rng.sample(UTTS, n)


def distractors(rng, prefix, suffix, utts, k=None):
    """File names that must NOT be selected with (prefix, suffix)."""
    out = []
    cands = []
    if prefix:
        cands += ["zq_" + utts[0] + suffix, utts[0] + suffix, "notes" + suffix]
    if suffix:
        cands += [prefix + utts[0] + ".other", prefix + "README", prefix + utts[-1] + suffix + ".bak"]
    if prefix and suffix:
        cands += ["zz" + suffix + utts[0] + prefix]
    if not cands:
        return out
    for name in rng.sample(cands, min(len(cands), k or rng.randint(1, 2))):
        if not (name.startswith(prefix) and name.endswith(suffix) and len(name) >= len(prefix) + len(suffix)):
            out.append(name)
    return out


def map_file(vocab_, swap):
    """token2id text ('<token> <id>'; swapped: '<id> <token>')."""
    lines = []
    for t, i in vocab_.items():
        lines.append("%d %s" % (i, t) if swap else "%s %d" % (t, i))
    return "\n".join(lines) + "\n"


def id_map_file(vocab_, swap):
    """id2token text ('<id> <token>'; swapped: '<token> <id>')."""
    return map_file(vocab_, not swap)


# ---------------------------------------------------------------------------- trn


def gen_trn(rng, tier, i):
    sub = ["plain", "unk", "empty", "alt", "skip", "feat", "hostile_ids", "spacing"][i % 8]
    n = rng.randint(1, 8 if tier == "thorough" else 6)
    V = vocab(rng)
    toks = list(V)
    unk = None
    if sub == "unk":
        unk = rng.choice(toks)
    utts = utt_ids(rng, n, hostile=(sub == "hostile_ids"))
    maxlen = 10 if tier == "thorough" else 6
    lines, expected = [], {}
    for u in utts:
        L = rng.randint(0 if sub == "empty" else 1, maxlen)
        if sub == "empty" and rng.random() < 0.5:
            L = 0
        seq = [rng.choice(toks) for _ in range(L)]
        exp = list(seq)
        words = list(seq)
        if sub == "unk":
            for k in range(len(seq)):
                if rng.random() < 0.3:
                    words[k] = rng.choice(OOV)
                    exp[k] = unk
        if sub == "alt" and L >= 1:
            # one alternate (possibly nested one level) somewhere; --alt-handler first keeps branch 1
            k = rng.randrange(L)
            first = [rng.choice(toks) for _ in range(rng.randint(1, 2))]
            second = [rng.choice(toks) for _ in range(rng.randint(0, 2))] or [rng.choice(toks)]
            if rng.random() < 0.3:
                inner_first = [rng.choice(toks)]
                alt_txt = "{ { %s / %s } %s / %s }" % (
                    " ".join(inner_first), rng.choice(toks), " ".join(first), " ".join(second))
                kept = inner_first + first
            else:
                alt_txt = "{ %s / %s }" % (" ".join(first), " ".join(second))
                kept = first
            words = words[:k] + [alt_txt] + words[k + 1:]
            exp = exp[:k] + kept + exp[k + 1:]
        sep = " "
        lead = ""
        if sub == "spacing":
            sep = rng.choice([" ", "  ", "   "])
            lead = rng.choice(["", " ", "  "])
        line = lead + sep.join(words) + (sep if words else "") + "(" + u + ")"
        if sub == "spacing" and rng.random() < 0.3:
            line += "  "
        lines.append(line)
        if sub == "spacing" and rng.random() < 0.3:
            lines.append("")
        expected[u] = exp
    prefix, suffix = pick_affix(rng, affix_kind(rng, i))
    sizing = {"skip": "skip", "feat": "feat"}.get(sub, rng.choice(["none", "none", "skip", "feat"]))
    return {
        "family": "trn", "sub": sub, "trn_text": "\n".join(lines) + "\n", "expected": expected,
        "vocab": V, "unk": unk, "prefix": prefix, "suffix": suffix,
        "swap_to": rng.random() < 0.4, "swap_from": rng.random() < 0.4, "sizing": sizing,
        "alt_first": sub == "alt" or rng.random() < 0.2,
        "distract": distractors(rng, prefix, suffix, utts),
    }


# ---------------------------------------------------------------------------- timed transcripts


def _fmt_time(x):
    s = "%.4f" % x
    s = s.rstrip("0").rstrip(".")
    return s or "0"


def gen_segments(rng, toks, L, kind, max_t=9.0, step=0.001):
    """L timed tokens inside [0, max_t): kind 'contig' | 'gaps' | 'points' | 'mixed'.
    Times are multiples of `step` (exact decimals in the file)."""
    unit = int(round(1 / step))
    total = int(max_t * unit) - 1
    cuts = sorted(rng.sample(range(1, total), min(2 * L + 1, total - 1)))
    segs = []
    t = 0 if rng.random() < 0.5 else cuts[0]
    ci = 1
    for _ in range(L):
        tok = rng.choice(toks)
        if kind == "points":
            p = cuts[ci]
            ci += 1
            segs.append([tok, p / unit, p / unit])
            continue
        if kind in ("gaps", "mixed") and rng.random() < 0.5:
            t = max(t, cuts[ci])
            ci += 1
        e = max(cuts[ci], t + 1)
        ci += 1
        if kind == "mixed" and rng.random() < 0.25:
            e = t  # zero-length token
        segs.append([tok, t / unit, e / unit])
        t = max(e, t)
    return segs


FRAME_SHIFTS = [None, 10.0, 20.0, 5.0, 1.0, 12.5, 0.0625, 2.5]


def gen_ctm(rng, tier, i):
    sub = ["plain", "wc2utt", "utt2wc", "channel", "shift", "mixed_times", "skip", "feat", "unk", "comments"][i % 10]
    n = rng.randint(1, 6)
    V = vocab(rng)
    toks = list(V)
    unk = rng.choice(toks) if sub == "unk" else None
    utts = utt_ids(rng, n, hostile=rng.random() < 0.3)
    shift = rng.choice(FRAME_SHIFTS[1:]) if sub == "shift" else rng.choice(FRAME_SHIFTS[:3])
    sizing = {"skip": "skip", "feat": "feat"}.get(sub, "none")
    if sizing != "none":
        shift = None  # mutually exclusive group in the command
    mapmode = {"wc2utt": "wc2utt", "utt2wc": "utt2wc"}.get(sub, "none")
    if sub in ("shift", "mixed_times") and rng.random() < 0.3:
        mapmode = rng.choice(["wc2utt", "utt2wc"])
    channel = rng.choice(["B", "1", "chA"]) if sub == "channel" else "A"
    entries = []  # [wfn, chan, utt]
    wc = {}
    for k, u in enumerate(utts):
        if mapmode == "none":
            wc[u] = [u, channel]
        else:
            # several utterances may share a waveform on different channels
            wfn = "wav%d" % (k // 2)
            ch = "AB"[k % 2]
            wc[u] = [wfn, ch]
            entries.append([wfn, ch, u])
    step = 0.001 if sub != "mixed_times" else 0.0001
    records = []  # [line, utt, expected token, start, end]
    for u in utts:
        L = rng.randint(1, 6)
        kind = "mixed" if sub == "mixed_times" else rng.choice(["contig", "gaps", "gaps"])
        segs = gen_segments(rng, toks, L, kind, max_t=rng.choice([2.0, 9.0, 40.0]), step=step)
        for tok, s, e in segs:
            word = tok
            etok = tok
            if unk is not None and rng.random() < 0.3:
                word, etok = rng.choice(OOV), unk
            wfn, ch = wc[u]
            ln = "%s %s %s %s %s" % (wfn, ch, _fmt_time(s), _fmt_time(round(e - s, 6)), word)
            if sub == "comments" and rng.random() < 0.4:
                ln += rng.choice(["  ;; a comment", " ;;x", " 0.9"])  # 6th column = confidence
            # what the file says: start and start+dur, as the decimal numbers written
            s_w = float(_fmt_time(s))
            e_w = s_w + float(_fmt_time(round(e - s, 6)))
            records.append([ln, u, etok, s_w, e_w])
    if rng.random() < 0.5:
        rng.shuffle(records)  # a ctm need not be sorted; ties in the start time keep the file order
    lines = [r[0] for r in records]
    expected = {}
    for ln, u, etok, s_w, e_w in records:
        expected.setdefault(u, []).append([etok, s_w, e_w])
    if sub == "comments":
        lines.insert(0, ";; header comment")
        lines.insert(2 if len(lines) > 2 else 1, "")
    prefix, suffix = pick_affix(rng, affix_kind(rng, i))
    return {
        "family": "ctm", "sub": sub, "ctm_text": "\n".join(lines) + "\n", "expected": expected,
        "wc": wc, "map_entries": entries, "mapmode": mapmode,
        "mapmode_back": mapmode if mapmode == "none" else rng.choice(["wc2utt", "utt2wc"]),
        "channel": channel, "shift": shift, "vocab": V, "unk": unk, "prefix": prefix, "suffix": suffix,
        "swap_to": rng.random() < 0.4, "swap_from": rng.random() < 0.4, "sizing": sizing,
        "distract": distractors(rng, prefix, suffix, utts),
    }


# ---------------------------------------------------------------------------- TextGrid


def _tg_short(tiers, xmin, xmax):
    out = ['File type = "ooTextFile"', 'Object class = "TextGrid"', _fmt_time(xmin), _fmt_time(xmax),
           "<exists>", str(len(tiers))]
    for t in tiers:
        out += ['"%s"' % ("TextTier" if t["point"] else "IntervalTier"), '"%s"' % t["name"],
                _fmt_time(t["xmin"]), _fmt_time(t["xmax"]), str(len(t["segs"]))]
        for tok, s, e in t["segs"]:
            out += [_fmt_time(s)] + ([] if t["point"] else [_fmt_time(e)]) + ['"%s"' % tok]
    return "\n".join(out) + "\n"


def _tg_long(tiers, xmin, xmax):
    out = ['File type = "ooTextFile"', 'Object class = "TextGrid"', "",
           "xmin = %s " % _fmt_time(xmin), "xmax = %s " % _fmt_time(xmax), "tiers? <exists> ",
           "size = %d " % len(tiers), "item []: "]
    for k, t in enumerate(tiers):
        out += ["    item [%d]:" % (k + 1),
                '        class = "%s" ' % ("TextTier" if t["point"] else "IntervalTier"),
                '        name = "%s" ' % t["name"],
                "        xmin = %s " % _fmt_time(t["xmin"]), "        xmax = %s " % _fmt_time(t["xmax"]),
                "        %s: size = %d " % ("points" if t["point"] else "intervals", len(t["segs"]))]
        for j, (tok, s, e) in enumerate(t["segs"]):
            if t["point"]:
                out += ["        points [%d]:" % (j + 1), "            number = %s " % _fmt_time(s),
                        '            mark = "%s" ' % tok]
            else:
                out += ["        intervals [%d]:" % (j + 1), "            xmin = %s " % _fmt_time(s),
                        "            xmax = %s " % _fmt_time(e), '            text = "%s" ' % tok]
    return "\n".join(out) + "\n"


def gen_tg(rng, tier, i):
    sub = ["interval", "point", "fill", "long_multi", "shift", "feat_dir", "skip", "feat", "unk", "tg_suffix"][i % 10]
    n = rng.randint(1, 5)
    V = vocab(rng, rng.randint(3, 7))
    toks = list(V)
    unk = fill = None
    if sub == "unk":
        unk = toks[0]
    if sub == "fill":
        fill = toks[-1]
    utts = utt_ids(rng, n, hostile=rng.random() < 0.3)
    # integer-ms frame shifts only (the written precision is 3 decimals); times < 10 s (D8 is C11's)
    shift = rng.choice([20.0, 5.0, 1.0, 2.0]) if sub == "shift" else rng.choice([None, 10.0])
    sizing = {"skip": "skip", "feat": "feat"}.get(sub, "none")
    if sizing != "none":
        shift = None
    multi = sub == "long_multi"
    tier_sel = None
    names = ["words", "phones", "pts"]
    if multi:
        tier_sel = rng.choice([["name", "phones"], ["idx", 1], ["idx", 0], ["name", "words"]])
    files, expected, kinds = {}, {}, {}
    for u in utts:
        point = sub == "point" or (sub in ("shift", "tg_suffix", "feat_dir") and rng.random() < 0.3)
        L = rng.randint(1, 5)
        kind = "points" if point else ("gaps" if sub == "fill" else rng.choice(["contig", "gaps"]))
        segs = gen_segments(rng, toks, L, kind, max_t=rng.choice([1.5, 9.0]), step=0.001)
        words = []
        exp = []
        for tok, s, e in segs:
            w, et = tok, tok
            if unk is not None and rng.random() < 0.3:
                w, et = rng.choice(OOV), unk
            words.append([w, s, e])
            exp.append([et, s, e])
        lo = 0.0 if rng.random() < 0.7 else segs[0][1]
        hi = segs[-1][2] if rng.random() < 0.5 else round(segs[-1][2] + rng.choice([0.25, 0.5]), 4)
        t_main = {"point": point, "name": "words", "xmin": lo, "xmax": hi, "segs": words}
        if fill is not None:
            filled, cur = [], lo
            for et, s, e in exp:
                if cur < s:
                    filled.append([fill, cur, s])
                filled.append([et, s, e])
                cur = e
            if cur < hi:
                filled.append([fill, cur, hi])
            exp = filled
        if multi:
            other = {"point": False, "name": "phones", "xmin": lo, "xmax": hi,
                     "segs": gen_segments(rng, toks, rng.randint(1, 3), "contig", max_t=1.0)}
            third = {"point": True, "name": "pts", "xmin": lo, "xmax": hi,
                     "segs": gen_segments(rng, toks, 2, "points", max_t=1.0)}
            sel_main = tier_sel in (["name", "phones"], ["idx", 1])
            tiers = [other, t_main, third] if sel_main else [t_main, other, third]
            if sel_main:
                t_main["name"] = "phones"
                other["name"] = "words"
            files[u] = _tg_long(tiers, lo, hi)
        elif sub in ("tg_suffix", "shift") and rng.random() < 0.4:
            files[u] = _tg_long([t_main], lo, hi)
        else:
            files[u] = _tg_short([t_main], lo, hi)
        expected[u] = exp
        kinds[u] = "point" if point else "interval"
    prefix, suffix = pick_affix(rng, affix_kind(rng, i))
    tg_suffix = rng.choice([".tg", ".textgrid"]) if sub == "tg_suffix" else ".TextGrid"
    return {
        "family": "tg", "sub": sub, "files": files, "expected": expected, "kinds": kinds,
        "tier_sel": tier_sel, "tg_suffix": tg_suffix,
        "shift": shift, "fill": fill, "unk": unk, "vocab": V, "prefix": prefix, "suffix": suffix,
        "swap_to": rng.random() < 0.4, "swap_from": rng.random() < 0.4, "sizing": sizing,
        "feat_dir": sub == "feat_dir" or rng.random() < 0.25, "extra_frames": rng.randint(0, 3),
        "out_tier_name": rng.choice([None, None, "tt"]),
        "distract": distractors(rng, prefix, tg_suffix, utts),
    }


# ---------------------------------------------------------------------------- alignments


def gen_ali_seq(rng, T, nlab, runny=True):
    seq = []
    while len(seq) < T:
        lab = rng.randrange(nlab)
        seq += [lab] * (rng.randint(1, 4) if runny else 1)
    return seq[:T]


def gen_ali(rng, tier, i):
    sub = ["default", "prefix", "suffix", "both", "distract", "feat_dir", "single_frame", "prefix"][i % 8]
    n = rng.randint(1, 8 if tier == "thorough" else 6)
    utts = utt_ids(rng, n, hostile=rng.random() < 0.3)
    kind = {"default": "default", "prefix": "prefix", "suffix": "suffix", "both": "both"}.get(sub, "any")
    prefix, suffix = pick_affix(rng, kind)
    alis = {}
    for u in utts:
        T = 1 if sub == "single_frame" and rng.random() < 0.5 else rng.randint(1, 14)
        alis[u] = gen_ali_seq(rng, T, rng.randint(1, 4), runny=rng.random() < 0.8)
    d = distractors(rng, prefix, suffix, utts, k=2) if sub in ("distract", "prefix", "suffix", "both") or rng.random() < 0.3 else []
    return {"family": "ali", "sub": sub, "alis": alis, "prefix": prefix, "suffix": suffix,
            "distract": d, "feat_dir": sub == "feat_dir" or rng.random() < 0.2, "F": rng.randint(1, 3)}


# ---------------------------------------------------------------------------- error rates

COSTS = {"default": None, "nist": "nist", "ones": [1.0, 1.0, 1.0], "tie": [1.0, 1.0, 2.0],
         "cheap_sub": [2.0, 2.0, 1.0], "skew": [0.5, 1.5, 1.0]}


def gen_er(rng, tier, i):
    sub = ["plain", "tokens", "replace", "ignore", "replace_ignore", "per_utt", "distances", "nist",
           "tie_costs", "missing", "stored_times", "prefix", "per_utt_distances", "empty_ref"][i % 14]
    n = rng.randint(1, 8 if tier == "thorough" else 6)
    nv = rng.randint(2, 5)
    ids = rng.sample(range(0, 16), nv)
    if sub in ("plain", "per_utt", "distances", "per_utt_distances", "prefix", "stored_times", "tie_costs", "nist",
               "missing", "empty_ref") and rng.random() < 0.3:
        # stored ids are arbitrary integers when no id2token map is given: the values a batched computation
        # likes to use as end-of-sequence or padding marks included
        ids = rng.sample([-1, -2, -1, -100] + list(range(0, 6)), nv)
        ids = list(dict.fromkeys(ids))
        nv = len(ids)
    utts = utt_ids(rng, n, hostile=rng.random() < 0.3)
    maxlen = 9 if tier == "thorough" else 6
    refs, hyps = {}, {}
    for u in utts:
        R = rng.randint(1, maxlen)
        if sub == "empty_ref" and rng.random() < 0.4:
            R = 0
        r = [rng.choice(ids) for _ in range(R)]
        mode = rng.random()
        if mode < 0.2:
            h = list(r)
        elif mode < 0.7:
            h = []
            for t in r:
                x = rng.random()
                if x < 0.15:
                    continue
                h.append(t if x < 0.75 else rng.choice(ids))
                if rng.random() < 0.15:
                    h.append(rng.choice(ids))
        else:
            h = [rng.choice(ids) for _ in range(rng.randint(0, maxlen))]
        refs[u], hyps[u] = r, h
    use_tokens = sub == "tokens" or (sub in ("replace", "ignore", "replace_ignore") and rng.random() < 0.5)
    V = None
    if use_tokens:
        names = rng.sample(TOKENS, nv)
        V = {t: i_ for t, i_ in zip(names, ids)}
    replace, ignore = [], []
    if sub in ("replace", "replace_ignore"):
        for a in rng.sample(ids, rng.randint(1, min(2, nv))):
            b = rng.choice(ids + [77])
            replace.append([a, b])
    if sub in ("ignore", "replace_ignore"):
        ignore = rng.sample(ids + [77], rng.randint(1, 2))
    if sub == "replace_ignore":
        # order-directed: the ignore list names the source or the target of a replacement
        ignore = [rng.choice(replace[0])] + [x for x in ignore[:1] if x not in replace[0]]
    costs = {"nist": "nist", "tie_costs": "tie"}.get(sub, rng.choice(["default", "default", "ones", "cheap_sub", "skew", "nist"]))
    per_utt = sub in ("per_utt", "per_utt_distances") or (sub in ("tie_costs", "prefix") and rng.random() < 0.4)
    distances = sub in ("distances", "per_utt_distances") or (sub in ("nist", "replace") and rng.random() < 0.3)
    missing_ref, missing_hyp = [], []
    if sub == "missing" and n >= 2:
        k = rng.randint(1, n - 1)
        gone = rng.sample(utts, k)
        for u in gone:
            (missing_ref if rng.random() < 0.5 else missing_hyp).append(u)
    kind = "prefix" if sub == "prefix" else affix_kind(rng, i)
    prefix, suffix = pick_affix(rng, kind)
    stored = {}
    for u in utts:
        stored[u] = rng.choice(["R", "R3"]) if sub == "stored_times" or rng.random() < 0.3 else "R"
    return {
        "family": "er", "linked": rng.random() < 0.3, "sub": sub, "refs": refs, "hyps": hyps, "vocab": V, "replace": replace, "ignore": ignore,
        "costs": costs, "per_utt": per_utt, "distances": distances, "missing_ref": missing_ref,
        "missing_hyp": missing_hyp, "warn_missing": sub != "missing" or rng.random() < 0.8,
        "prefix": prefix, "suffix": suffix, "layout": rng.choice(["parent", "two"]),
        "to_stdout": rng.random() < 0.4, "swap": rng.random() < 0.4, "stored": stored,
        "batch_sizes": [1, 2, 100] if rng.random() < 0.8 else [1, 3, rng.randint(4, 7)],
        "distract": distractors(rng, prefix, suffix, utts),
    }


# ---------------------------------------------------------------------------- data dirs (subset / stats)


def gen_feats(rng, utts, F, tmin=1, tmax=9):
    feats = {}
    for u in utts:
        T = rng.randint(tmin, tmax)
        feats[u] = [[round(rng.uniform(-4, 4), 3) for _ in range(F)] for _ in range(T)]
    return feats


def gen_ref_tensor(rng, T, nlab, bounds=True):
    R = rng.randint(0, 4)
    rows = []
    for _ in range(R):
        s = rng.randint(0, max(T - 1, 0))
        e = rng.randint(s, T)
        rows.append([rng.randrange(nlab), s, e] if bounds else [rng.randrange(nlab), -1, -1])
    return rows


SUBSET_MODES = ["utt_list", "utt_list_file", "first_n", "first_ratio", "last_n", "last_ratio", "shortest_n",
                "shortest_ratio", "longest_n", "longest_ratio", "rand_n", "rand_ratio"]
RATIOS = [0.0, 0.25, 0.5, 0.75, 1.0, 0.4, 0.6, 0.9, 0.1]


def pick_ratio(rng, N):
    for _ in range(20):
        r = rng.choice(RATIOS)
        x = N * r
        if r in (0.0, 0.25, 0.5, 0.75, 1.0) or 0.05 < x - int(x) < 0.95:
            return r
    return 0.5


def gen_subset(rng, tier, i, mode=None):
    mode = mode or SUBSET_MODES[i % len(SUBSET_MODES)]
    n = rng.randint(1, 8)
    utts = utt_ids(rng, n, hostile=rng.random() < 0.4)
    F = rng.randint(1, 3)
    # equal lengths on purpose: ties are broken by id
    feats = gen_feats(rng, utts, F, 1, 4 if rng.random() < 0.6 else 9)
    by_len = mode.startswith(("shortest", "longest"))
    if by_len and n >= 3 and rng.random() < 0.85:
        # tie-directed: two lengths only, so that the cut falls inside a group of equal lengths (ties -> by id)
        a = rng.randint(1, 4)
        for u in utts:
            feats[u] = feats[u][:1] * (a if rng.random() < 0.6 else a + 1)
    only = rng.random() < 0.3
    have_ali = (not only) and rng.random() < 0.7
    have_ref = (not only) and rng.random() < 0.7
    alis, refs = {}, {}
    for u in utts:
        T = len(feats[u])
        if have_ali and rng.random() < 0.8:
            alis[u] = gen_ali_seq(rng, T, 3)
        if have_ref and rng.random() < 0.8:
            refs[u] = gen_ref_tensor(rng, T, 4)
    extra_ali = rng.random() < 0.3 and have_ali  # an utterance only in ali/: must be ignored
    prefix, suffix = pick_affix(rng, affix_kind(rng, i))
    id_order = False
    if mode not in ("utt_list", "utt_list_file", "rand_n", "rand_ratio") and n >= 3 and rng.random() < 0.6:
        # id-order-directed: "listed first by id" means by UTTERANCE ID; with a suffix that sorts above digits
        # and letters the file names order differently once one id is a proper prefix of another
        id_order = True
        prefix, suffix = rng.choice([["", "_fbank.pt"], ["", "~.pt"], ["x", "~.pt"]])
        utts = ["u1", "u10", "u1a"] + rng.sample([u for u in UTTS if u not in ("u1", "u10", "u1a")], n - 3)
        rng.shuffle(utts)
        feats = {u: [[round(rng.uniform(-4, 4), 3) for _ in range(F)]] * 2 for u in utts}  # all lengths equal
        alis, refs = {}, {}
    arg = None
    if mode in ("utt_list", "utt_list_file"):
        k = rng.randint(0 if mode == "utt_list_file" else 1, n)
        arg = rng.sample(utts, k)
        if rng.random() < 0.5:
            arg.insert(rng.randint(0, len(arg)), "not-there")
        if not arg:
            arg = ["not-there"]
    else:
        # tie-directed (by-length modes): put the cut strictly inside a group of equal lengths
        inside = []
        if by_len and n >= 3 and rng.random() < 0.85:
            lens = sorted((len(feats[u]) for u in utts), reverse=mode.startswith("longest"))
            inside = [c for c in range(1, n) if lens[c - 1] == lens[c]]
        if id_order:
            # all lengths are equal: every mode falls back on the id order; cut between u1 / u10 / u1a
            srt = sorted(utts, reverse=mode.startswith("last"))
            cuts = sorted({srt.index(u) + 1 for u in ("u1", "u10", "u1a")} - {n})
            inside = cuts or [1]
        if mode.endswith("_n"):
            arg = max(rng.choice([0, 1, n - 1, n, n + 3, rng.randint(0, n)]), 0)
            if inside:
                arg = rng.choice(inside)
        else:
            arg = pick_ratio(rng, n)
            good = [r for r in RATIOS if int(n * r) in inside
                    and (r in (0.25, 0.5, 0.75) or 0.05 < n * r - int(n * r) < 0.95)]
            if good:
                arg = rng.choice(good)
    return {
        "family": "subset", "sub": mode, "id_order_directed": id_order, "feats": feats, "alis": alis, "refs": refs, "have_ali": have_ali,
        "have_ref": have_ref, "extra_ali": extra_ali, "only": only, "mode": mode, "arg": arg,
        "style": rng.choice(["link", "copy", "symlink"]), "seed": rng.choice([None, "7", "abc", "0"]),
        "prefix": prefix, "suffix": suffix, "distract": distractors(rng, prefix, suffix, utts),
        "subdirs": ["feat", "ali", "ref"] if rng.random() < 0.8 else ["ff", "aa", "rr"],
    }


def gen_mvn(rng, tier, i):
    sub = ["plain", "bessel", "id2gid", "id2gid_bessel", "dim0", "prefix", "ragged3d"][i % 7]
    n = rng.randint(1, 7)
    utts = utt_ids(rng, n, hostile=rng.random() < 0.3)
    F = rng.randint(1, 4)
    feats = gen_feats(rng, utts, F, 2, 8)
    # make every coefficient clearly non-constant (D13, a C18 defect, is about constant coefficients)
    for u in utts:
        for f in range(F):
            feats[u][0][f] = round(rng.uniform(2.0, 4.0), 3)
            feats[u][1][f] = round(rng.uniform(-4.0, -2.0), 3)
    groups = None
    if sub.startswith("id2gid"):
        gids = ["g1", "spkB", "g10"][: rng.randint(1, 3)]
        groups = {u: rng.choice(gids) for u in utts}
    dim = -1
    shape3 = None
    if sub == "dim0":
        # transpose every matrix to (F, T) and tell the command the feature dimension is 0
        dim = 0
    if sub == "ragged3d":
        shape3 = 2  # store tensors (T, 2, F): leading dims are all pooled
    kind = "prefix" if sub == "prefix" else affix_kind(rng, i)
    prefix, suffix = pick_affix(rng, kind)
    return {"family": "mvn", "linked": rng.random() < 0.3, "sub": sub, "feats": feats, "groups": groups, "bessel": "bessel" in sub or rng.random() < 0.2,
            "dim": dim, "shape3": shape3, "prefix": prefix, "suffix": suffix,
            "distract": distractors(rng, prefix, suffix, utts)}


def gen_mom(rng, tier, i, which=None):
    which = which or ["ali", "ref"][i % 2]
    sub = ["plain", "bessel", "std", "bessel_std", "exclude", "precision", "prefix", "single", "empty", "noboundary"][(i // 2) % 10]
    n = rng.randint(1, 6)
    utts = utt_ids(rng, n, hostile=rng.random() < 0.3)
    data = {}
    nlab = rng.randint(1, 4)
    for u in utts:
        if which == "ali":
            T = rng.randint(1, 14)
            data[u] = gen_ali_seq(rng, T, nlab, runny=rng.random() < 0.8)
        else:
            T = rng.randint(1, 12)
            rows = gen_ref_tensor(rng, T, nlab)
            if sub == "noboundary":
                for r in rows:
                    x = rng.random()
                    if x < 0.3:
                        r[1] = r[2] = -1
            data[u] = rows
    if sub == "single":
        u = utts[0]
        data = {u: [3, 3, 3] if which == "ali" else [[1, 2, 7]]}
        utts = [u]
    if sub == "empty" and which == "ref":
        data = {u: [] for u in utts}
    exclude = None
    if sub in ("exclude", "empty") or rng.random() < 0.2:
        exclude = rng.sample(range(nlab + 1), rng.randint(1, max(1, nlab)))
        if sub == "empty" and which == "ali":
            exclude = list(range(nlab + 1))
    flat = None
    if which == "ref" and sub == "noboundary" and rng.random() < 0.5:
        flat = utts[0]  # a token-only (R,) tensor: discarded with a warning
    kind = "prefix" if sub == "prefix" else affix_kind(rng, i)
    prefix, suffix = pick_affix(rng, kind)
    return {"family": "mom", "sub": which + "_" + sub, "which": which, "data": data, "exclude": exclude,
            "bessel": "bessel" in sub or rng.random() < 0.2, "std": "std" in sub or rng.random() < 0.2,
            "precision": rng.choice([0, 1, 5, 8]) if sub == "precision" else None, "flat": flat,
            "errmode": rng.choice(["quiet", "warn"]) if which == "ref" else None,
            "to_stdout": rng.random() < 0.5, "prefix": prefix, "suffix": suffix,
            "distract": distractors(rng, prefix, suffix, utts)}


def gen_chunk(rng, tier, i):
    n = rng.randint(2, 6)
    utts = utt_ids(rng, n)
    F = rng.randint(1, 3)
    feats = gen_feats(rng, utts, F, 3, 12)
    alis = {u: gen_ali_seq(rng, len(feats[u]), 3) for u in utts} if rng.random() < 0.6 else {}
    return {"family": "chunk", "sub": "fixed", "feats": feats, "alis": alis, "lobe": rng.randint(0, 2),
            "window": rng.choice(["symmetric", "causal", "future"]), "prefix": "", "suffix": ".pt"}
