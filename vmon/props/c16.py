"""C16 - a crash during an epoch update never loses the last or best checkpoint.

LEVEL fault_enumeration.  Per history: (1) an uninterrupted run whose every update_for_epoch is
traced with interpreter events (vmon/props/_c16_trace.py); each event at which the on-disk
fingerprint of state dir + CSV changed is a crash state and is snapshotted; (2) a seed-chosen third
of the states (all in thorough) is produced again by REAL process death - os.fork() + os._exit() at
that event - and must be byte-identical to the snapshot (else the crash model is wrong: the run
becomes INCONCLUSIVE); (3) the recovery oracle of DESIGN 3/C16 is run on every crash state.
"""
import json
import math
import os
import random
import shutil
import string
import tempfile
import warnings

from .. import core
from ..oracles import c15_controller as ref
from . import _c15_gen as G
from . import _c16_trace as TR

ID = "C16"
LEVEL = "fault_enumeration"
RULE = (
    "class-directed random histories of 2..6 (thorough ..7) epochs drawn like C15 (metrics on the grid k/8, "
    "all patience/burn-in/cool-down settings, exact rate factors, user entries), keep_last_and_best_only on and "
    "off, default formats, custom formats with the epoch field (in a sub-directory) and formats without it "
    "(both files, or the model only); every update is traced and every distinct on-disk state inside it is a "
    "crash point (plus before-anything and after-everything); the recovery oracle runs on each; a case is "
    "distinct by the hash of its concrete inputs and non-trivial if it has >= 2 updates and >= 8 distinct "
    "crash states inside updates"
)
ASSUMPTIONS = [
    "crash model: what another reader sees through the file system at an interpreter LINE/audit event is what "
    "survives os._exit at that event (checked against real fork+os._exit on a third / all of the states); "
    "power-loss semantics (un-synced pages) and torn writes inside one system call are not modelled",
    "crash points are at line/audit-event granularity of training.py, not inside torch.save/csv internals",
    "weights are filled with the epoch number and momentum buffers with epoch+0.5, so the epoch a checkpoint "
    "stems from is read off the loaded tensors",
    "histories use rates that are 5-digit numbers so the CSV of a resumed run can be compared byte for byte",
    "with keep_last_and_best_only and a format without the epoch field the documented refusal (ValueError) to "
    "overwrite the best checkpoint ends the history",
    "leftovers of an interrupted update (temp files, checkpoints not yet cleaned) are counted, not asserted",
]
BUDGET = {
    "quick": dict(cases=12, shards=4, timeout=600),
    "thorough": dict(cases=60, shards=16, timeout=3000, time=400),
}
CLASSES = ["keep2_default", "keepall_noepoch", "keepall_default", "keep2_noepoch", "keep2_custom",
           "keepall_mixed", "keep2_default", "keepall_custom", "keepall_default", "keep2_default"]
FLOORS = {
    "quick": {
        "events": {"traced_update": 90, "recovery": 700, "real_process_death": 200, "fresh_interpreter_restart": 4,
                   "assert:recovery-prefix": 2000, "assert:recovery-last-params": 500,
                   "assert:recovery-best-params": 800, "assert:recovery-final-csv": 600,
                   "assert:recovery-final-load": 1500, "assert:recovery-decision": 1200,
                   "assert:crash-free-files": 90, "assert:crash-free-loadable": 30},
        "classes": {"keep2_default": 12, "keepall_default": 6, "keep2_custom": 3, "keepall_custom": 3,
                    "keepall_noepoch": 4, "keep2_noepoch": 3, "keepall_mixed": 3,
                    "branch_new_best": 30, "branch_prev_best": 10, "branch_older_best": 6,
                    "first_update_no_csv": 30, "user_entries": 12, "lr_reduced": 3,
                    "two_faults": 16, "two_faults_leftover_directed": 12, "best_by_train_differs_from_best_by_val": 2},
        "stats": {"second_fault_states": 100, "crash_states": 700, "crash_states_real_exit": 200, "crash_model_faithful": 1,
                  "state_csv_created_empty": 30, "state_temp_file_present": 400,
                  "state_between_replaces": 80, "state_mid_cleanup": 25,
                  "state_history_before_checkpoint": 60, "state_checkpoint_before_history": 60},
        "sets": {"crash_state": 500, "crash_state_real_exit": 150, "crash_point": 8},
        "distinct": 18,
    },
    "thorough": {
        "events": {"traced_update": 1200, "recovery": 12000, "real_process_death": 8000, "fresh_interpreter_restart": 80},
        "classes": {"keep2_default": 80, "keepall_default": 50, "keep2_custom": 25, "keepall_custom": 25,
                    "keepall_noepoch": 25, "keep2_noepoch": 25, "keepall_mixed": 25, "two_faults": 80,
                    "two_faults_leftover_directed": 60,
                    "branch_new_best": 250, "branch_prev_best": 120, "branch_older_best": 80},
        "stats": {"crash_states": 10000, "crash_states_real_exit": 8000, "crash_model_faithful": 1,
                  "second_fault_states": 1200, "state_csv_created_empty": 250},
        "sets": {"crash_state": 7000, "crash_state_real_exit": 6000, "crash_point": 8},
        "distinct": 150,
    },
}
EXHAUSTIVE = {"thorough": False}

CSV = "hist.csv"
SDIR = "states"
FORMATS = {
    "default": (None, None),
    "custom": ("ck/m-{epoch:02d}.pt", "ck/o-{epoch}.pt"),
    "noepoch": ("model.pt", "optim.pt"),
    "mixed": ("model.pt", None),
}
DEFAULT_FMT = ("model_{epoch:03d}.pt", "optim_{epoch:03d}.pt")


def setup(mon):
    warnings.filterwarnings("ignore")


# --------------------------------------------------------------------------
# generation


def generate(rng, tier, i):
    cls = CLASSES[i % len(CLASSES)]
    keep2 = cls.startswith("keep2")
    fmt = cls.split("_")[1]
    n_max = rng.randint(2, 6 if tier == "quick" else 7)
    force = {}
    if rng.random() < 0.6:
        force["es_threshold"] = 0.0
    if rng.random() < 0.7:
        force["num_epochs"] = rng.choice([None, n_max, n_max + 2])
    shape = None
    if keep2 and fmt in ("noepoch", "mixed"):
        shape = "monotone_down"  # anything else is refused at once (documented ValueError)
    hist = G.gen_history(rng, n_max, exact_lr=True, shape=shape, force=force)
    if i % 4 == 1 and not hist["entries"]:
        while not hist["entries"]:
            hist["entries"] = G.gen_entries(rng, n_max)
    case = dict(hist)
    case.update({
        "class": cls, "keep2": keep2, "fmt": fmt, "groups": rng.choice([1, 2]),
        "death_seed": rng.randrange(1 << 30), "death_all": tier == "thorough",
        "two_faults": (3 if i % 3 == 0 else 0) if tier == "thorough" else (1 if i % 2 == 0 else 0),
        "n_max": n_max,
    })
    # the caller's choice of which metric "best" refers to (training instead of validation); train and val
    # histories are drawn independently, so the two readings name different epochs
    case["best_is_train"] = fmt in ("default", "custom") and rng.random() < 0.3
    return case


# --------------------------------------------------------------------------
# scenario helpers


def _ukw(case, e):
    kw = G.user_kwargs(case, e)
    if case.get("best_is_train"):
        kw["best_is_train"] = True
    return kw


class Scn:
    def __init__(self, case):
        self.case = case
        self.by_train = bool(case.get("best_is_train"))
        self.met = case["train"] if self.by_train else case["val"]
        mf, of = FORMATS[case["fmt"]]
        self.model_fmt = mf or DEFAULT_FMT[0]
        self.optim_fmt = of or DEFAULT_FMT[1]
        self.pass_fmt = (mf, of)
        self.model_has_epoch = _has_epoch(self.model_fmt)
        self.optim_has_epoch = _has_epoch(self.optim_fmt)
        cfg = case["cfg"]
        steps = ref.run(cfg, G.lr0_of(cfg), case["val"])
        n = len(steps)
        # documented refusal to overwrite the best checkpoint (keep2 + colliding names)
        self.refused_at = None
        if case["keep2"] and not (self.model_has_epoch and self.optim_has_epoch):
            for e in range(2, n + 1):
                if ref.best_epoch(self.met, e) != e:
                    self.refused_at, n = e, e - 1
                    break
        self.n = n
        self.steps = steps[:n]

    def names(self, e):
        return (os.path.join(SDIR, self.model_fmt.format(epoch=e)),
                os.path.join(SDIR, self.optim_fmt.format(epoch=e)))

    def named(self):
        s = {CSV}
        for e in range(0, self.case["n_max"] + 2):
            s.update(self.names(e))
        return s

    def best(self, upto):
        return ref.best_epoch(self.met, upto)


def _has_epoch(fmt):
    return any(x[1] == "epoch" for x in string.Formatter().parse(fmt))


def _controller(mon, T, scn, root, label):
    case = scn.case
    params = G.make_params(T, case["cfg"], keep2=case["keep2"], model_fmt=scn.pass_fmt[0],
                           optim_fmt=scn.pass_fmt[1])
    ctrl = mon.lib(label, lambda: T.TrainingStateController(
        params, os.path.join(root, CSV), os.path.join(root, SDIR), warn=False))
    for name, typ, fmt, vals in case["entries"]:
        mon.lib(label.replace("TrainingStateController", "add_entry"), lambda: ctrl.add_entry(name, G.TYPES[typ], fmt))
    return ctrl


def _update(mon, scn, ctrl, model, opt, e, label="update_for_epoch"):
    case = scn.case
    G.train_to(model, opt, e)
    return mon.lib(label, lambda: ctrl.update_for_epoch(
        model, opt, case["train"][e - 1], case["val"][e - 1], **_ukw(case, e)))


class State:
    """One crash state: the directory as a process death at that point leaves it."""
    __slots__ = ("k", "idx", "tree", "fp", "where", "renames_done", "renames_total", "removes_done",
                 "kind", "csv_rows")

    def facts(self, scn):
        in_update = self.kind == "in"
        window = in_update and self.csv_rows == self.k and self.renames_done < self.renames_total
        names = dict(zip(("model", "optim"), scn.names(self.k)))
        # which epoch's state does the file under update k's name hold in this crash state?
        # (read off the snapshot itself; 0 = no such file)
        holds = {w: _epoch_in_file(self.tree.get(nm), w) for w, nm in names.items()}
        return {"model_has_epoch": scn.model_has_epoch, "optim_has_epoch": scn.optim_has_epoch,
                "in_window": window, "update": self.k, "kind": self.kind, "event": self.idx,
                "where": self.where, "csv_rows": self.csv_rows, "renames_done": self.renames_done,
                "renames_total": self.renames_total, "file_holds": holds,
                "allowed_holds": {"before": [self.k - 1], "after": [self.k], "in": [self.k - 1, self.k]}[self.kind],
                "optim_name_of_update": os.path.basename(names["optim"]),
                "model_name_of_update": os.path.basename(names["model"])}


def _epoch_in_file(data, which):
    """Epoch whose state a checkpoint file holds (harness convention: weights = epoch, momentum
    buffers = epoch + 0.5); 0 if there is no file, None if it cannot be read."""
    import io

    import torch

    if data is None:
        return 0
    try:
        sd = torch.load(io.BytesIO(data), map_location="cpu")
        if which == "model":
            vals = {float(x) for t in sd.values() for x in t.reshape(-1).tolist()}
        else:
            vals = {float(x) - 0.5 for st in sd["state"].values() for x in st["momentum_buffer"].reshape(-1).tolist()}
        if len(vals) == 1:
            v = vals.pop()
            return int(v) if v == int(v) else None
    except Exception:
        return None
    return None


def _csv_rows(tree):
    data = tree.get(CSV)
    if not data:
        return 0
    # terminated records, not lines: a quoted field may itself contain line breaks
    n, quoted = 0, False
    for ch in data:
        if ch == 0x22:
            quoted = not quoted
        elif ch == 0x0A and not quoted:
            n += 1
    return max(0, n - 1)


# --------------------------------------------------------------------------
# pass 1: the uninterrupted, traced run


def _traced_run(mon, T, scn, root, tracer, first=1, ctrl=None, model=None, opt=None, upto=None, trace=None):
    """Drive epochs first..upto on `root`; updates in `trace` (default all) are traced.  Returns
    (states, per-epoch records).  The 'before' state of the first driven update is included."""
    named = scn.named()
    if ctrl is None:
        ctrl = _controller(mon, T, scn, root, "TrainingStateController")
        model, opt = G.make_model_opt(scn.case["cfg"], scn.case["groups"])
        mon.lib("load_model_and_optimizer_for_epoch", lambda: ctrl.load_model_and_optimizer_for_epoch(model, opt))
    upto = scn.n if upto is None else upto
    states, recs = [], {}
    for k in range(first, upto + 1):
        do_trace = trace is None or k in trace
        tree0 = TR.read_tree(root)
        fp0 = TR.canonical(tree0, named)
        rows0 = _csv_rows(tree0)
        cur = {"fp": fp0, "renames": 0, "removes": 0}
        mine = []
        if k == first:
            st = _mk_state(k, -1, tree0, fp0, "before update", 0, 0, "before")
            mine.append(st)

        def cb(count, kind, a, b):
            if kind == "audit":
                # the audit event precedes the operation: it is counted as done from the next event on
                where = "audit:" + a
            else:
                where = "%s:%d" % (a, b)
            tree = TR.read_tree(root)
            fp = TR.canonical(tree, named)
            if fp != cur["fp"]:
                cur["fp"] = fp
                mine.append(_mk_state(k, count, tree, fp, where, cur["renames"], cur["removes"], "in"))
            if kind == "audit":
                if a == "os.rename":
                    cur["renames"] += 1
                elif a == "os.remove":
                    cur["removes"] += 1

        if do_trace:
            if not os.path.exists(os.path.join(root, CSV)):
                mon.cls("first_update_no_csv")
            tracer.start(cb, root)
        try:
            cont = _update(mon, scn, ctrl, model, opt, k)
        finally:
            if do_trace:
                nev = tracer.stop()
        tree1 = TR.read_tree(root)
        fp1 = TR.canonical(tree1, named)
        if do_trace:
            mon.ev("traced_update")
            mon.stat("trace_events", nev)
            mon.stat("trace_line_events", tracer.line_events)
            mon.stat("trace_audit_events", tracer.audit_events)
            for a, c in tracer.counts_by_audit.items():
                mon.stat("audit:" + a, c)
        st = _mk_state(k, None, tree1, fp1, "after update", cur["renames"], cur["removes"], "after")
        if do_trace and fp1 != cur["fp"]:
            # something reached the disk only after the last event of the update
            mon.stat("state_only_after_return")
        mine.append(st)
        for s in mine:
            s.renames_total = cur["renames"]
            s.csv_rows = _csv_rows(s.tree)
        states.extend(mine)
        recs[k] = {"cont": cont, "lrs": [g["lr"] for g in opt.param_groups], "tree": tree1,
                   "rows_before": rows0}
    return states, recs, (ctrl, model, opt)


def _mk_state(k, idx, tree, fp, where, renames, removes, kind):
    s = State()
    s.k, s.idx, s.tree, s.fp, s.where = k, idx, tree, fp, where
    s.renames_done, s.removes_done, s.kind = renames, removes, kind
    s.renames_total, s.csv_rows = 0, 0
    return s


# --------------------------------------------------------------------------
# pass 2: the same crash produced by real process death


def _same_on_disk(real, snap, named):
    return TR.canonical(real, named) == TR.canonical(snap, named) and all(
        real.get(rel) == data for rel, data in snap.items() if rel in named)


def _same_content(a, b):
    """Checkpoint contents equal; Python floats (learning rates re-read from the 5-digit history) within 1e-9."""
    import torch

    if isinstance(a, torch.Tensor) or isinstance(b, torch.Tensor):
        return isinstance(a, torch.Tensor) and isinstance(b, torch.Tensor) and a.dtype == b.dtype \
            and a.shape == b.shape and torch.equal(a, b)
    if isinstance(a, dict):
        return isinstance(b, dict) and list(a) == list(b) and all(_same_content(a[k], b[k]) for k in a)
    if isinstance(a, (list, tuple)):
        return isinstance(b, (list, tuple)) and len(a) == len(b) and all(_same_content(x, y) for x, y in zip(a, b))
    if isinstance(a, float) and isinstance(b, float):
        return G.same_float(a, b, 1e-9)
    return a == b


def _same_after_restart(got, want, named):
    """Same files; the history byte for byte; checkpoints by content (a restarted run re-reads its learning rate
    from the history file, which prints 5 significant digits: 0.0008 vs 0.0008000000000000003)."""
    import io

    import torch

    if [x[:2] for x in TR.canonical(got, named)] != [x[:2] for x in TR.canonical(want, named)]:
        return False
    for rel, data in want.items():
        if rel not in named or data is None:
            continue
        if rel == CSV:
            if got.get(rel) != data:
                return False
        elif got.get(rel) != data:
            try:
                if not _same_content(torch.load(io.BytesIO(got[rel]), map_location="cpu"),
                                     torch.load(io.BytesIO(data), map_location="cpu")):
                    return False
            except Exception:
                return False
    return True


def _real_deaths(mon, T, scn, root, tracer, states, chosen, recs):
    """Replay the run; before update k fork one child per chosen state of that update, let it die at
    the state's event, compare what it left with the snapshot, restore, go on."""
    named = scn.named()
    ctrl = _controller(mon, T, scn, root, "TrainingStateController")
    model, opt = G.make_model_opt(scn.case["cfg"], scn.case["groups"])
    ctrl.load_model_and_optimizer_for_epoch(model, opt)
    by_k = {}
    for s in chosen:
        by_k.setdefault(s.k, []).append(s)
    mismatches = []
    for k in range(1, scn.n + 1):
        todo = by_k.get(k, [])
        if todo:
            backup = TR.read_tree(root)
            G.train_to(model, opt, k)
        for s in todo:
            pid = os.fork()
            if pid == 0:
                # ---- child: never returns into the harness
                try:
                    tracer.die_at(s.idx, root)
                    case = scn.case
                    ctrl.update_for_epoch(model, opt, case["train"][k - 1], case["val"][k - 1],
                                          **_ukw(case, k))
                    os._exit(3)  # event not reached
                except BaseException:
                    os._exit(4)
                finally:
                    os._exit(5)
            _, status = os.waitpid(pid, 0)
            code = os.waitstatus_to_exitcode(status)
            real = TR.read_tree(root)
            mon.ev("real_process_death")
            mon.stat("crash_states_real_exit")
            mon.observe("crash_state_real_exit", TR.fp_hash(s.fp))
            if code != 0:
                mismatches.append({"update": k, "event": s.idx, "where": s.where, "child_exit": code})
            elif not _same_on_disk(real, s.tree, named):
                mismatches.append({"update": k, "event": s.idx, "where": s.where,
                                   "real": [list(x) for x in TR.canonical(real, named)],
                                   "snapshot": [list(x) for x in s.fp]})
            else:
                mon.stat("real_exit_identical_to_snapshot")
            TR.write_tree(root, backup)
        cont = _update(mon, scn, ctrl, model, opt, k, label="update_for_epoch(untraced)")
        if cont != recs[k]["cont"] or not _same_on_disk(TR.read_tree(root), recs[k]["tree"], named):
            mismatches.append({"update": k, "what": "untraced replay differs from the traced run"})
    return mismatches


# --------------------------------------------------------------------------
# the recovery oracle


PARAM_MONITORS = ("recovery-last-params", "recovery-best-params", "recovery-final-load", "crash-free-loadable")


def _with_facts(facts, fn):
    try:
        return fn()
    except core.Violation as v:
        v.details = dict(v.details, d11=facts, crash={k: facts[k] for k in ("update", "kind", "event", "where")})
        raise


def _check_loaded(mon, monitor, facts, model, opt, e, lrs, **det):
    """The tensors just loaded are those saved for epoch e."""
    got_m = G.epoch_of_model(model)
    got_o = G.epoch_of_opt(opt) if opt is not None else None
    ok = got_m == e and (opt is None or got_o == e)
    mon.check(ok, monitor, observed={"model": got_m, "optim": got_o}, expected=e,
              with_optimizer=opt is not None, d11=facts, **det)
    if opt is not None and lrs is not None:
        have = [g["lr"] for g in opt.param_groups]
        mon.check(all(G.same_float(a, b, 1e-12) for a, b in zip(have, lrs)), monitor + "-lr",
                  observed=have, expected=lrs, epoch=e, **det)


def _recover(mon, T, scn, st, root, recs, final_csv, ref_infos, tracer=None, nested=None):
    """Recovery oracle on one crash state (already materialised in `root`)."""
    case, n = scn.case, scn.n
    facts = st.facts(scn)
    det = {"crash": {"update": st.k, "kind": st.kind, "event": st.idx, "where": st.where}}
    mon.ev("recovery")
    # 1. the loaded history is a prefix of the uninterrupted one (k-1 or k rows)
    ctrl = _controller(mon, T, scn, root, "recovery:TrainingStateController")
    L = ctrl.get_last_epoch()
    allowed = {"before": [st.k - 1], "after": [st.k], "in": [st.k - 1, st.k]}[st.kind]
    mon.check(L in allowed, "recovery-prefix", observed_last=L, allowed=allowed, **det)
    for e in range(1, L + 1):
        got = ctrl.get_info(e, None)
        mon.check(got == ref_infos[e], "recovery-prefix", epoch=e, observed=got, expected=ref_infos[e], **det)
    # 2. last and best are loadable and are exactly what was saved for them
    model, opt = G.make_model_opt(case["cfg"], case["groups"])
    _with_facts(facts, lambda: mon.lib("recovery:load_model_and_optimizer_for_epoch",
                                       lambda: ctrl.load_model_and_optimizer_for_epoch(model, opt)))
    if L > 0:
        _check_loaded(mon, "recovery-last-params", facts, model, opt, L, recs[L]["lrs"], **det)
    if not case["keep2"] and st.kind != "in":
        # everything is kept: after a completed update every recorded epoch stays loadable
        for e in range(1, L):
            m1, o1 = G.make_model_opt(case["cfg"], case["groups"])
            _with_facts(facts, lambda: mon.lib("recovery:load_model_and_optimizer_for_epoch",
                                               lambda: ctrl.load_model_and_optimizer_for_epoch(m1, o1, e)))
            _check_loaded(mon, "crash-free-loadable", facts, m1, o1, e, recs[e]["lrs"], asked=e, **det)
    b = scn.best(L)
    if b > 0:
        m2, _ = G.make_model_opt(case["cfg"], case["groups"])
        _with_facts(facts, lambda: mon.lib("recovery:load_model_for_epoch",
                                           lambda: ctrl.load_model_for_epoch(m2, b if scn.by_train else None)))
        _check_loaded(mon, "recovery-best-params", facts, m2, None, b, None, best=b, **det)
        m3, o3 = G.make_model_opt(case["cfg"], case["groups"])
        _with_facts(facts, lambda: mon.lib("recovery:load_model_and_optimizer_for_epoch",
                                           lambda: ctrl.load_model_and_optimizer_for_epoch(m3, o3, b)))
        _check_loaded(mon, "recovery-best-params", facts, m3, o3, b, recs[b]["lrs"], best=b, **det)
    # 3. training continued from there ends like the uninterrupted run
    if nested is not None and L < n:
        # second fault: trace the first update of the recovery run itself
        states2, _, objs = _traced_run(mon, T, scn, root, tracer, first=L + 1, ctrl=ctrl, model=model, opt=opt,
                                       upto=L + 1)
        nested.extend(s for s in states2 if s.kind == "in")
        ctrl, model, opt = objs
        start = L + 2
    else:
        start = L + 1
    for e in range(start, n + 1):
        cont = _update(mon, scn, ctrl, model, opt, e, label="recovery:update_for_epoch")
        mon.check(cont == recs[e]["cont"], "recovery-decision", epoch=e, observed=cont,
                  expected=recs[e]["cont"], **det)
        have = [g["lr"] for g in opt.param_groups]
        mon.check(all(G.same_float(a, c, 1e-9) for a, c in zip(have, recs[e]["lrs"])), "recovery-lr",
                  epoch=e, observed=have, expected=recs[e]["lrs"], **det)
    got_csv = TR.read_tree(root).get(CSV, b"")
    mon.check(got_csv == final_csv, "recovery-final-csv", observed=got_csv.decode("utf8", "replace"),
              expected=final_csv.decode("utf8", "replace"), resumed_from=L, **det)
    # ... and is loadable by yet another fresh controller
    end_facts = dict(facts, in_window=False, file_holds={"model": n, "optim": n}, kind="after-recovery",
                     allowed_holds=[n],
                     model_name_of_update=os.path.basename(scn.names(n)[0]),
                     optim_name_of_update=os.path.basename(scn.names(n)[1]))
    _final_checks(mon, T, scn, root, recs, ref_infos, end_facts, "recovery-final-load", det)


def _final_checks(mon, T, scn, root, recs, ref_infos, facts, monitor, det, upto=None):
    case = scn.case
    n = scn.n if upto is None else upto
    ctrl = _controller(mon, T, scn, root, "recovery:TrainingStateController")
    mon.check(ctrl.get_last_epoch() == n, "recovery-final-history", observed=ctrl.get_last_epoch(),
              expected=n, **det)
    for e in range(1, n + 1):
        got = ctrl.get_info(e, None)
        mon.check(got == ref_infos[e], "recovery-final-history", epoch=e, observed=got,
                  expected=ref_infos[e], **det)
    need = {n, scn.best(n)} - {0}
    if not case["keep2"]:
        need = set(range(1, n + 1))
    tree = TR.read_tree(root)
    for e in sorted(need):
        for nm in scn.names(e):
            mon.check(nm in tree, "needed-files-present", missing=nm, epoch=e, have=sorted(tree), **det)
    extra = [r for r in tree if not r.endswith("/") and r != CSV and r not in
             {nm for e in need for nm in scn.names(e)}]
    mon.stat("leftover_files", len(extra))
    for e in sorted(need):
        m, o = G.make_model_opt(case["cfg"], case["groups"])
        _with_facts(facts, lambda: mon.lib("recovery:load_model_and_optimizer_for_epoch",
                                           lambda: ctrl.load_model_and_optimizer_for_epoch(m, o, e)))
        _check_loaded(mon, monitor, facts, m, o, e, recs[e]["lrs"], asked=e, **det)
    if scn.best(n) > 0:
        m, _ = G.make_model_opt(case["cfg"], case["groups"])
        _with_facts(facts, lambda: mon.lib("recovery:load_model_for_epoch", lambda: ctrl.load_model_for_epoch(
            m, scn.best(n) if scn.by_train else None)))
        _check_loaded(mon, monitor, facts, m, None, scn.best(n), None, asked="best", **det)


# --------------------------------------------------------------------------
# known finding D11


def is_d11(monitor, details):
    """Formats without the epoch field: one file name serves every epoch.  Recognised mechanism: the
    colliding file holds the state of the most recent save of *that name* (epoch k-1 before the
    os.replace of update k, k after it) instead of the epoch asked for - either because only the
    last epoch persists (asked for an older epoch) or because the crash fell between the CSV append
    and the last os.replace of the update (history already says k).  For mixed formats the file that
    does carry the epoch does not exist yet inside that window."""
    f = details.get("d11")
    if not isinstance(f, dict):
        return False
    lacks = {"model": not f["model_has_epoch"], "optim": not f["optim_has_epoch"]}
    if not (lacks["model"] or lacks["optim"]):
        return False
    if monitor in PARAM_MONITORS:
        obs, exp = details.get("observed"), details.get("expected")
        if not isinstance(obs, dict) or not isinstance(exp, int):
            return False
        explained = 0
        for which in ("model", "optim"):
            got = obs.get(which)
            if which == "optim" and not details.get("with_optimizer"):
                continue
            if got == exp:
                continue
            if not lacks[which] or got != f["file_holds"][which] or got not in f["allowed_holds"]:
                return False  # a wrong tensor that the naming collision does not explain: the one
                # name must hold the most recent save (k-1 before, k after the os.replace)
            explained += 1
        return explained > 0
    if monitor.startswith("raised:recovery:load_model"):
        # inside the window a file of update k may not exist at all yet: the epoch-named partner of
        # a mixed pair (not renamed into place so far), or - in the very first update - the colliding
        # name itself (it "holds epoch 0")
        if not f["in_window"] or details.get("exception") != "FileNotFoundError":
            return False
        msg = str(details.get("message", ""))
        for which in ("model", "optim"):
            if f[which + "_name_of_update"] + "'" not in msg:
                continue
            if f["file_holds"][which] != 0:
                return False  # the file was there in the crash state: it must be loadable
            return True  # epoch-named partner not renamed into place yet / colliding name never saved
        return False
    return False


def classify(entry_id, vrec):
    if entry_id != "D11":
        return False
    return is_d11(vrec.get("monitor", ""), vrec.get("details", {}))


# --------------------------------------------------------------------------
# one case


def execute(case, mon):
    import pydrobert.torch.training as T

    scn = Scn(case)
    n = scn.n
    if scn.refused_at is not None:
        mon.cls("refusal_ends_history")
    if case["entries"]:
        mon.cls("user_entries")
    if scn.by_train:
        mon.cls("best_is_train")
        if any(scn.best(k) != ref.best_epoch(case["val"], k) for k in range(1, n + 1)):
            mon.cls("best_by_train_differs_from_best_by_val")
    if any(s["reduced"] for s in scn.steps):
        mon.cls("lr_reduced")
    for k in range(1, n + 1):
        b = scn.best(k)
        mon.cls("branch_new_best" if b == k else "branch_prev_best" if b == k - 1 else "branch_older_best")
    tracer = TR.Tracer.get(T)
    base = G.scratch_dir("vmon-c16-")
    problems = []
    try:
        with warnings.catch_warnings():
            warnings.simplefilter("ignore")
            _case(case, mon, T, scn, tracer, base, problems)
    finally:
        tracer.stop()
        shutil.rmtree(base, ignore_errors=True)
    if problems:
        # a genuine violation outranks the known finding
        real = [p for p in problems if not is_d11(p.monitor, p.details)]
        mon.stat("states_failing_known_D11", len(problems) - len(real))
        raise (real or problems)[0]


def _case(case, mon, T, scn, tracer, base, problems):
    n = scn.n
    named = scn.named()
    root = os.path.join(base, "run")
    os.makedirs(root)
    # ---- pass 1
    states, recs, objs = _traced_run(mon, T, scn, root, tracer)
    if scn.refused_at is not None:
        ctrl, model, opt = objs
        e = scn.refused_at
        G.train_to(model, opt, e)
        try:
            ctrl.update_for_epoch(model, opt, case["train"][e - 1], case["val"][e - 1], **_ukw(case, e))
            mon.stat("refusal_expected_but_update_succeeded")
        except ValueError:
            mon.stat("refused_to_overwrite_best")
    if n == 0:
        mon.trivial()
        return
    if scn.refused_at is None and all(_has_epoch(f) for f in scn.pass_fmt if f is not None):
        _csv_inside_state_dir(mon, T, scn, base)
    final_tree = TR.read_tree(root) if scn.refused_at is None else recs[n]["tree"]
    final_csv = recs[n]["tree"].get(CSV, b"")
    # reference: what a fresh controller reads from the uninterrupted history
    ref_root = os.path.join(base, "ref")
    TR.write_tree(ref_root, recs[n]["tree"])
    rc = _controller(mon, T, scn, ref_root, "TrainingStateController")
    ref_infos = {e: dict(rc.get_info(e)) for e in range(1, n + 1)}
    for e in range(1, n + 1):
        mon.check(ref_infos[e]["epoch"] == e and ref_infos[e]["val_met"] == case["val"][e - 1],
                  "uninterrupted-history", epoch=e, observed=ref_infos[e])
    # ---- crash-free runs: the directory after every completed update
    for k in range(1, n + 1):
        tree = recs[k]["tree"]
        files = {r for r in tree if not r.endswith("/") and r != CSV}
        b = scn.best(k)
        if case["keep2"]:
            want = set(scn.names(k)) | (set(scn.names(b)) if b else set())
            mon.check(files == want, "crash-free-files", update=k, best=b, observed=sorted(files),
                      expected=sorted(want))
        else:
            want = {nm for e in range(1, k + 1) for nm in scn.names(e)}
            mon.check(want <= files, "crash-free-files", update=k, observed=sorted(files), expected=sorted(want))
            mon.stat("keep_all_extra_files", len(files - want))
    # ---- restart in a FRESH interpreter after a completed update (a real restart keeps nothing in memory: no
    # module global, no class attribute): the directory at the end is the uninterrupted run's
    if case["keep2"] and n >= 2 and scn.refused_at is None and case["death_seed"] % 3 != 1:
        import subprocess
        import sys

        k = 1 + case["death_seed"] % (n - 1)
        froot = os.path.join(base, "fresh")
        TR.write_tree(froot, recs[k]["tree"])
        cpath = os.path.join(base, "case.json")
        with open(cpath, "w") as f:
            json.dump(case, f)
        env = dict(os.environ, PYTHONPATH=os.pathsep.join([core.HERE] + sys.path))
        try:
            pr = subprocess.run([sys.executable, "-m", "vmon.props._c16_fresh", cpath, froot, str(k + 1), str(n)],
                                env=env, capture_output=True, text=True, timeout=300)
            mon.ev("fresh_interpreter_restart")
            mon.check(pr.returncode == 0, "fresh-process-restart", what="continuation raised",
                      stderr=pr.stderr[-1500:], resumed_after=k)
            got = TR.read_tree(froot)
            mon.check(_same_after_restart(got, recs[n]["tree"], named), "fresh-process-restart", resumed_after=k,
                      observed=sorted(r for r in got if not r.endswith("/")),
                      expected=sorted(r for r in recs[n]["tree"] if not r.endswith("/")))
        except subprocess.TimeoutExpired:
            mon.stat("fresh_interpreter_restart_timeout")
    # ---- describe the crash states
    inner = [s for s in states if s.kind == "in"]
    for s in states:
        mon.stat("crash_states")
        mon.observe("crash_state", TR.fp_hash(s.fp))
        if s.kind == "in":
            mon.observe("crash_point", s.where)
            if any(x[1] == "tmp" for x in s.fp):
                mon.stat("state_temp_file_present")
            if s.tree.get(CSV) == b"":
                mon.stat("state_csv_created_empty")
            if 0 < s.renames_done < s.renames_total:
                mon.stat("state_between_replaces")
            if s.removes_done > 0:
                mon.stat("state_mid_cleanup")
            if s.csv_rows == s.k and s.renames_done < s.renames_total:
                mon.stat("state_history_before_checkpoint")
            if s.csv_rows == s.k - 1 and s.renames_done == s.renames_total and s.renames_total:
                mon.stat("state_checkpoint_before_history")
    mon.stat("crash_states_in_update", len(inner))
    if n < 2 or len(inner) < 8:
        mon.trivial()
    # ---- pass 2: real process death
    rng = random.Random(case["death_seed"])
    chosen = list(inner) if case["death_all"] else rng.sample(inner, int(math.ceil(len(inner) / 3.0)))
    # (same directory as pass 1: the clean-up iterates over a *set* of path strings, so its order -
    # and with it the intermediate states - depends on the path names)
    TR.write_tree(root, {})
    mism = _real_deaths(mon, T, scn, root, tracer, states, chosen, recs)
    if mism:
        mon.stat("real_death_mismatch", len(mism))
        mon.notes.append("C16 crash-model mismatch: " + repr(mism[:2])[:600])
    # ---- recovery oracle on every crash state
    pick2 = set()
    if case["two_faults"]:
        # second fault: the first pick is directed at first crashes that leave files of the
        # interrupted update behind while the history does not have its row yet (the recovery run's
        # control flow looks at the directory), the others are seed-chosen
        mon.cls("two_faults")
        left = [s for s in inner if s.csv_rows == s.k - 1 and s.renames_done >= 1 and s.k < n + 1]
        picks = [rng.choice(left)] if left else []
        if picks:
            mon.cls("two_faults_leftover_directed")
        rest = [s for s in inner if s not in picks]
        picks += rng.sample(rest, min(int(case["two_faults"]) - len(picks), len(rest)))
        pick2 = set(id(s) for s in picks)
    second = []
    for s in states:
        rroot = os.path.join(base, "rec")
        TR.write_tree(rroot, s.tree)
        nest = [] if id(s) in pick2 else None
        try:
            _recover(mon, T, scn, s, rroot, recs, final_csv, ref_infos, tracer, nest)
        except core.Violation as v:
            problems.append(v)
            mon.stat("states_failing")
        if nest:
            second.extend(nest)
    # ---- second fault: a crash during the recovery run itself
    for s in second:
        mon.stat("second_fault_states")
        mon.observe("crash_state", TR.fp_hash(s.fp))
        rroot = os.path.join(base, "rec2")
        TR.write_tree(rroot, s.tree)
        try:
            _recover(mon, T, scn, s, rroot, recs, final_csv, ref_infos)
        except core.Violation as v:
            v.details = dict(v.details, second_fault=True)
            problems.append(v)
            mon.stat("states_failing")


def _csv_inside_state_dir(mon, T, scn, base):
    """The history file kept INSIDE the checkpoint directory, under another spelling of that directory: after every
    completed update a freshly constructed controller must read back every epoch recorded so far."""
    case = scn.case
    root = os.path.join(base, "inside")
    sdir = os.path.join(root, SDIR)
    os.makedirs(sdir)
    spelled = os.path.join(root, ".", SDIR, "..", SDIR, CSV)

    def mk():
        params = G.make_params(T, case["cfg"], keep2=case["keep2"], model_fmt=scn.pass_fmt[0],
                               optim_fmt=scn.pass_fmt[1])
        c = T.TrainingStateController(params, spelled, sdir, warn=False)
        for name, typ, fmt, vals in case["entries"]:
            c.add_entry(name, G.TYPES[typ], fmt)
        return c

    ctrl = mk()
    model, opt = G.make_model_opt(case["cfg"], case["groups"])
    ctrl.load_model_and_optimizer_for_epoch(model, opt)
    for k in range(1, scn.n + 1):
        _update(mon, scn, ctrl, model, opt, k, "update_for_epoch(history file inside the state directory)")
        fresh = mk()
        last = fresh.get_last_epoch()
        vals = [fresh.get_info(e)["val_met"] for e in range(1, last + 1)]
        mon.check(last == k and vals == list(case["val"][:k]), "history-inside-state-dir", update=k,
                  observed_last_epoch=last, observed_val=vals, expected_val=list(case["val"][:k]),
                  csv_path=spelled, state_dir=sdir)
    mon.cls("history_file_inside_state_dir")


def post(agg, tier):
    """A crash model that real process death contradicts makes the whole run inconclusive."""
    bad = agg["stats"].get("real_death_mismatch", 0)
    real = agg["stats"].get("crash_states_real_exit", 0)
    agg["stats"]["crash_model_faithful"] = 1 if (real > 0 and bad == 0) else 0
    if bad:
        agg["notes"].append("crash model contradicted by real os._exit on %d states -> inconclusive" % bad)
